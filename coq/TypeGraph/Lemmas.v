(* TypeGraph engine — proofs. *)
From TypeGraph Require Import Model.
From Coq Require Import Lia Permutation Sorted ZifyBool ZifyNat ZifyN.

(* ------------------------------------------------------------------ *)
(* byte strings: < is a strict total order                              *)
(* ------------------------------------------------------------------ *)

Lemma beq_eq a b : beq a b = true <-> a = b.
Proof.
  revert b; induction a as [|x a IH]; destruct b as [|y b]; simpl; split; intro H; try easy.
  - apply andb_true_iff in H as [H1 H2]. apply N.eqb_eq in H1. apply IH in H2. now subst.
  - inversion H; subst. apply andb_true_iff; split; [apply N.eqb_refl | now apply IH].
Qed.

Lemma beq_refl a : beq a a = true.
Proof. now apply beq_eq. Qed.

Lemma blt_irrefl a : blt a a = false.
Proof.
  induction a as [|x a IH]; simpl; [reflexivity|].
  rewrite N.ltb_irrefl, N.eqb_refl. exact IH.
Qed.

Lemma blt_trans a b c : blt a b = true -> blt b c = true -> blt a c = true.
Proof.
  revert b c; induction a as [|x a IH]; intros [|y b] [|z c]; simpl; try easy.
  destruct (N.ltb x y) eqn:Hxy.
  - destruct (N.ltb y z) eqn:Hyz.
    + intros _ _. assert (N.ltb x z = true) as -> by lia. reflexivity.
    + destruct (N.eqb y z) eqn:Eyz; [|easy]. intros _ _.
      assert (N.ltb x z = true) as -> by lia. reflexivity.
  - destruct (N.eqb x y) eqn:Exy; [|easy]. apply N.eqb_eq in Exy; subst y.
    destruct (N.ltb x z) eqn:Hxz; [easy|].
    destruct (N.eqb x z) eqn:Exz; [|easy]. apply IH.
Qed.

Lemma blt_total a b : blt a b = true \/ a = b \/ blt b a = true.
Proof.
  revert b; induction a as [|x a IH]; intros [|y b]; simpl; auto.
  destruct (N.ltb x y) eqn:Hxy; [auto|].
  destruct (N.eqb x y) eqn:Exy.
  - apply N.eqb_eq in Exy; subst y. rewrite N.ltb_irrefl, N.eqb_refl.
    destruct (IH b) as [H|[H|H]]; auto. subst; auto.
  - right; right. assert (N.ltb y x = true) as -> by lia. reflexivity.
Qed.

Lemma blt_asym a b : blt a b = true -> blt b a = false.
Proof.
  intro H. destruct (blt b a) eqn:E; [|reflexivity].
  pose proof (blt_trans _ _ _ H E) as C. now rewrite blt_irrefl in C.
Qed.

(* ------------------------------------------------------------------ *)
(* sorting a list with pairwise distinct keys is canonical              *)
(* ------------------------------------------------------------------ *)

Section SortFacts.
  Context {A : Type} (key : A -> bytes).
  Let lt (x y : A) : Prop := blt (key x) (key y) = true.
  Let sorted := StronglySorted lt.

  Lemma insert_perm x l : Permutation (x :: l) (insert key x l).
  Proof.
    induction l as [|y r IH]; simpl; [reflexivity|].
    destruct (blt (key y) (key x)); [|reflexivity].
    rewrite perm_swap. now constructor.
  Qed.

  Lemma isort_perm l : Permutation l (isort key l).
  Proof.
    induction l as [|x r IH]; simpl; [constructor|].
    rewrite <- insert_perm. now constructor.
  Qed.

  Lemma insert_sorted x l :
    sorted l -> ~ In (key x) (map key l) -> sorted (insert key x l).
  Proof.
    intros Hs. induction Hs as [|y r Hr IH Hy]; intro Hn; simpl.
    - repeat constructor.
    - destruct (blt (key y) (key x)) eqn:E.
      + constructor.
        * apply IH. intro C. apply Hn. now right.
        * rewrite Forall_forall in *. intros z Hz.
          apply (Permutation_in _ (Permutation_sym (insert_perm x r))) in Hz.
          destruct Hz as [<-|Hz]; [exact E | now apply Hy].
      + assert (Hxy : lt x y).
        { destruct (blt_total (key x) (key y)) as [H|[H|H]]; [exact H| |unfold lt in *; congruence].
          exfalso. apply Hn. left. now symmetry. }
        constructor; [now constructor|].
        constructor; [exact Hxy|].
        rewrite Forall_forall in *. intros z Hz. unfold lt. eapply blt_trans; [exact Hxy|now apply Hy].
  Qed.

  Lemma isort_sorted l : NoDup (map key l) -> sorted (isort key l).
  Proof.
    induction l as [|x r IH]; simpl; intro Hn; [constructor|].
    inversion Hn as [|? ? Hx Hr]; subst.
    apply insert_sorted; [now apply IH|].
    intro C. apply Hx.
    eapply Permutation_in; [|exact C].
    apply Permutation_map, Permutation_sym, isort_perm.
  Qed.

  Lemma sorted_perm_eq l1 l2 : sorted l1 -> sorted l2 -> Permutation l1 l2 -> l1 = l2.
  Proof.
    intros H1; revert l2; induction H1 as [|x r1 Hr1 IH Hx]; intros l2 H2 Hp.
    - now apply Permutation_nil in Hp.
    - destruct l2 as [|y r2]; [now apply Permutation_sym, Permutation_nil in Hp|].
      inversion H2 as [|? ? Hr2 Hy]; subst.
      assert (x = y) as ->.
      { assert (Hin : In x (y :: r2)) by (eapply Permutation_in; [exact Hp|now left]).
        destruct Hin as [E|Hin]; [now symmetry|].
        assert (Hin' : In y (x :: r1)) by (eapply Permutation_in; [exact (Permutation_sym Hp)|now left]).
        destruct Hin' as [E|Hin']; [exact E|].
        rewrite Forall_forall in Hx, Hy.
        pose proof (Hx _ Hin') as L1. pose proof (Hy _ Hin) as L2. unfold lt in *.
        apply blt_asym in L1. congruence. }
      f_equal. apply IH; [exact Hr2|]. now apply Permutation_cons_inv in Hp.
  Qed.

  Theorem isort_canonical l l' :
    Permutation l l' -> NoDup (map key l) -> isort key l = isort key l'.
  Proof.
    intros Hp Hn.
    assert (Hn' : NoDup (map key l')).
    { eapply Permutation_NoDup; [|exact Hn]. now apply Permutation_map. }
    apply sorted_perm_eq; try now apply isort_sorted.
    rewrite <- (isort_perm l), <- (isort_perm l'). exact Hp.
  Qed.

  (* sorting does not change an already sorted list *)
  Lemma insert_lt_head x l : Forall (lt x) l -> insert key x l = x :: l.
  Proof.
    destruct l as [|y r]; simpl; [reflexivity|]. intro H. inversion H as [|? ? Hxy _]; subst.
    unfold lt in Hxy. now rewrite (blt_asym _ _ Hxy).
  Qed.

  Lemma isort_sorted_id l : sorted l -> isort key l = l.
  Proof.
    induction 1 as [|x r Hr IH Hx]; simpl; [reflexivity|]. rewrite IH. now apply insert_lt_head.
  Qed.

  Lemma isort_idem l : NoDup (map key l) -> isort key (isort key l) = isort key l.
  Proof. intro H. now apply isort_sorted_id, isort_sorted. Qed.
End SortFacts.

(* ------------------------------------------------------------------ *)
(* permutation invariance of the hash                                   *)
(* ------------------------------------------------------------------ *)

Lemma hash_obj_perm fuel fl E k fs fs' s :
  Permutation fs fs' -> NoDup (map fname fs) ->
  hash fuel fl E (TObj k fs) s = hash fuel fl E (TObj k fs') s.
Proof.
  intros Hp Hn. destruct fuel as [|n]; [reflexivity|]. simpl.
  now rewrite (isort_canonical fname fs fs' Hp Hn).
Qed.

Lemma hash_union_perm fuel fl E nm vs vs' s :
  Permutation vs vs' -> NoDup (map fname vs) ->
  hash fuel fl E (TUnion nm vs) s = hash fuel fl E (TUnion nm vs') s.
Proof.
  intros Hp Hn. destruct fuel as [|n]; [reflexivity|]. simpl.
  now rewrite (isort_canonical fname vs vs' Hp Hn).
Qed.

Lemma filter_perm {A} (f : A -> bool) l l' : Permutation l l' -> Permutation (filter f l) (filter f l').
Proof.
  induction 1; simpl; try constructor.
  - destruct (f x); [now constructor|assumption].
  - destruct (f x), (f y); try constructor; reflexivity.
  - etransitivity; eassumption.
Qed.

Lemma NoDup_map_filter {A B} (g : A -> B) (f : A -> bool) l : NoDup (map g l) -> NoDup (map g (filter f l)).
Proof.
  induction l as [|x r IH]; simpl; intro H; [constructor|].
  inversion H as [|? ? Hx Hr]; subst. destruct (f x); simpl; [|now apply IH].
  constructor; [|now apply IH]. intro C. apply Hx.
  apply in_map_iff in C as (y & Ey & Hy). apply filter_In in Hy as [Hy _].
  apply in_map_iff. now exists y.
Qed.

Lemma tags_perm m m' : Permutation m m' -> NoDup (map fst m) -> tags m = tags m'.
Proof.
  intros Hp Hn. unfold tags, tag_entries. f_equal.
  apply isort_canonical; [now apply filter_perm | now apply NoDup_map_filter].
Qed.

(* the meta of an attribute of an object, of the attribute of a user type *)
Definition set_meta (i : ainfo) (m : meta) : ainfo :=
  AI m (a_val i) (a_desc i) (a_docs i) (a_other i).

(* ------------------------------------------------------------------ *)
(* termination: the budget fuel_bound suffices for every guarded graph  *)
(* ------------------------------------------------------------------ *)

Lemma maxl_in x l : In x l -> x <= maxl l.
Proof. induction l as [|y r IH]; simpl; [easy|]. intros [->|H]; [lia|]. apply IH in H. lia. Qed.

Lemma maxl_le_bound l b : (forall x, In x l -> x <= b) -> maxl l <= b.
Proof.
  induction l as [|y r IH]; simpl; intro H; [lia|].
  assert (y <= b) by (apply H; now left). assert (maxl r <= b) by (apply IH; intros; apply H; now right). lia.
Qed.

Lemma maxl_incl {A} (g : A -> nat) l l' : incl l l' -> maxl (map g l) <= maxl (map g l').
Proof.
  intro H. apply maxl_le_bound. intros x Hx. apply in_map_iff in Hx as (a & <- & Ha).
  apply maxl_in, in_map, H, Ha.
Qed.

Lemma in_isort {A} (key : A -> bytes) x l : In x (isort key l) <-> In x l.
Proof.
  split; intro H.
  - eapply Permutation_in; [apply Permutation_sym, isort_perm|exact H].
  - eapply Permutation_in; [apply isort_perm|exact H].
Qed.

(* keys bound in a seen map *)
Definition is_seen (k : nat) (s : seen) : bool := match slookup k s with Some _ => true | None => false end.
Definition sub_seen (s s' : seen) : Prop := forall k, is_seen k s = true -> is_seen k s' = true.

Lemma sub_seen_refl s : sub_seen s s.
Proof. intros k H; exact H. Qed.
Lemma sub_seen_trans a b c : sub_seen a b -> sub_seen b c -> sub_seen a c.
Proof. intros H1 H2 k H. apply H2, H1, H. Qed.
Lemma sub_seen_cons k v s : sub_seen s ((k, v) :: s).
Proof. intros k' H. unfold is_seen in *. simpl. destruct (Nat.eqb k' k); [reflexivity|exact H]. Qed.

Definition unseen (U : list nat) (s : seen) : nat := length (filter (fun k => negb (is_seen k s)) U).

Lemma unseen_mono U s s' : sub_seen s s' -> unseen U s' <= unseen U s.
Proof.
  intro H. unfold unseen. induction U as [|k U IH]; simpl; [lia|].
  destruct (is_seen k s) eqn:E.
  - rewrite (H _ E). simpl. exact IH.
  - simpl. destruct (is_seen k s'); simpl; lia.
Qed.

Lemma unseen_cons_lt U k v s : In k U -> is_seen k s = false -> unseen U ((k, v) :: s) < unseen U s.
Proof.
  intros Hin Hk. unfold unseen. induction U as [|x U IH]; [easy|]. simpl.
  assert (Hle : length (filter (fun k0 => negb (is_seen k0 ((k, v) :: s))) U)
                <= length (filter (fun k0 => negb (is_seen k0 s)) U))
    by (apply (unseen_mono U), sub_seen_cons).
  destruct Hin as [->|Hin].
  - rewrite Hk. unfold is_seen at 1. simpl. rewrite Nat.eqb_refl. simpl. lia.
  - specialize (IH Hin).
    destruct (is_seen x s) eqn:E.
    + rewrite (sub_seen_cons k v s _ E). simpl. exact IH.
    + simpl. destruct (is_seen x ((k, v) :: s)); simpl; lia.
Qed.

(* unfolding equations of the two loops *)
Lemma hash_values_nil rec acc s : hash_values rec [] acc s = Some (acc, s).
Proof. reflexivity. Qed.
Lemma hash_values_cons rec f r acc s :
  hash_values rec (f :: r) acc s =
  match rec (ftype f) s with
  | None => None
  | Some (h, s') => hash_values rec r (acc ++ unionAttributePrefix ++ fname f ++ unionAttributeTypePrefix ++ h) s'
  end.
Proof. reflexivity. Qed.
Lemma hash_fields_nil rec k igt acc s : hash_fields rec k igt [] acc s = Some (acc, s).
Proof. reflexivity. Qed.
Lemma hash_fields_cons rec k igt f r acc s :
  hash_fields rec k igt (f :: r) acc s =
  match rec (ftype f) s with
  | None => None
  | Some (h, s') =>
    let acc' := acc ++ attributePrefix ++ fname f ++ attributeTypePrefix ++ h
                    ++ (if igt then [] else tags (a_meta (finfo f))) in
    hash_fields rec k igt r acc' ((k, acc') :: s')
  end.
Proof. reflexivity. Qed.

Arguments hash_values : simpl never.
Arguments hash_fields : simpl never.

(* induction over the nested type *)
Section TyInd.
  Variable P : ty -> Prop.
  Hypothesis Hp : forall p, P (TPrim p).
  Hypothesis Ha : forall i e, P e -> P (TArr i e).
  Hypothesis Hm : forall ki k ei e, P k -> P e -> P (TMap ki k ei e).
  Hypothesis Ho : forall key fs, Forall (fun f => P (ftype f)) fs -> P (TObj key fs).
  Hypothesis Hu : forall n vs, Forall (fun f => P (ftype f)) vs -> P (TUnion n vs).
  Hypothesis Hus : forall id, P (TUser id).
  Fixpoint ty_ind' (t : ty) : P t :=
    match t with
    | TPrim p => Hp p
    | TArr i e => Ha i e (ty_ind' e)
    | TMap ki k ei e => Hm ki k ei e (ty_ind' k) (ty_ind' e)
    | TObj key fs =>
      Ho key fs ((fix go (l : list (fld ty)) : Forall (fun f => P (ftype f)) l :=
                    match l with
                    | [] => Forall_nil _
                    | f :: r => Forall_cons f (ty_ind' (ftype f)) (go r)
                    end) fs)
    | TUnion n vs =>
      Hu n vs ((fix go (l : list (fld ty)) : Forall (fun f => P (ftype f)) l :=
                  match l with
                  | [] => Forall_nil _
                  | f :: r => Forall_cons f (ty_ind' (ftype f)) (go r)
                  end) vs)
    | TUser id => Hus id
    end.
End TyInd.

Lemma incl_flat_map {A B} (f g : A -> list B) l :
  (forall x, In x l -> incl (f x) (g x)) -> incl (flat_map f l) (flat_map g l).
Proof.
  intros H y Hy. apply in_flat_map in Hy as (x & Hx & Hy). apply in_flat_map. exists x. split; [exact Hx|]. now apply (H x Hx).
Qed.

Lemma open_users_sub t : incl (open_users t) (users_ty t).
Proof.
  induction t as [p|i e IH|ki k ei e IHk IHe|key fs IH|n vs IH|id] using ty_ind'; simpl; try easy.
  - now apply incl_app_app.
  - apply incl_flat_map. intros f Hf. rewrite Forall_forall in IH. now apply IH.
Qed.

Section Termination.
  Variables (E : env) (rank : nat -> nat) (U : list nat) (D R : nat).

  Definition rk (t : ty) : nat := maxl (map (fun v => S (rank v)) (open_users t)).
  Definition mu (t : ty) : nat := depth t + (S D) * rk t.
  Definition bigM : nat := S ((S D) * (S (S R))).

  Definition wf_ty (t : ty) : Prop :=
    depth t <= D /\ incl (keys_ty t) U /\
    (forall v, In v (users_ty t) -> elookup v E <> None /\ rank v <= R).

  Definition wf_env : Prop :=
    forall id d, elookup id E = Some d ->
      wf_ty (ut_type d) /\ (forall v, In v (open_users (ut_type d)) -> rank v < rank id).


  Lemma wf_ty_sub t t' :
    wf_ty t -> depth t' <= depth t -> incl (keys_ty t') (keys_ty t) -> incl (users_ty t') (users_ty t) -> wf_ty t'.
  Proof.
    intros (Hd & Hk & Hu) H1 H2 H3. split; [lia|]. split.
    - intros x Hx. apply Hk, H2, Hx.
    - intros v Hv. apply Hu, H3, Hv.
  Qed.

  (* sub-terms of a well-formed type are well formed and smaller *)
  Lemma wf_field_obj key fs f : wf_ty (TObj key fs) -> In f fs -> wf_ty (ftype f) /\ depth (ftype f) < depth (TObj key fs).
  Proof.
    intros (Hd & Hk & Hu) Hf. simpl in *.
    assert (Hdf : depth (ftype f) <= maxl (map (fun f => depth (ftype f)) fs))
      by (apply maxl_in, (in_map (fun f => depth (ftype f))), Hf).
    repeat split; try lia.
    - intros k Hin. apply Hk. right. apply in_flat_map. now exists f.
    - apply Hu. apply in_flat_map. now exists f.
    - apply Hu. apply in_flat_map. now exists f.
  Qed.

  Lemma wf_field_union n vs f : wf_ty (TUnion n vs) -> In f vs ->
    wf_ty (ftype f) /\ depth (ftype f) < depth (TUnion n vs) /\ rk (ftype f) <= rk (TUnion n vs).
  Proof.
    intros (Hd & Hk & Hu) Hf. simpl in *.
    assert (Hdf : depth (ftype f) <= maxl (map (fun f => depth (ftype f)) vs))
      by (apply maxl_in, (in_map (fun f => depth (ftype f))), Hf).
    repeat split; try lia.
    - intros k Hin. apply Hk. apply in_flat_map. now exists f.
    - apply Hu. apply in_flat_map. now exists f.
    - apply Hu. apply in_flat_map. now exists f.
    - unfold rk. apply maxl_incl. simpl. intros v Hv. apply in_flat_map. now exists f.
  Qed.

  Lemma rk_le t : wf_ty t -> rk t <= S R.
  Proof.
    intros (_ & _ & Hu). unfold rk. apply maxl_le_bound. intros x Hx.
    apply in_map_iff in Hx as (v & <- & Hv). apply open_users_sub in Hv. destruct (Hu v Hv). lia.
  Qed.

  Lemma mu_lt_bigM t : wf_ty t -> mu t < bigM.
  Proof.
    intro H. pose proof (rk_le t H) as Hr. destruct H as (Hd & _). unfold mu, bigM.
    assert (S D * rk t <= S D * S R) by (apply Nat.mul_le_mono_l; exact Hr). lia.
  Qed.

  Lemma hash_values_total (rec : ty -> seen -> hres) vs s0 :
    (forall f s, In f vs -> sub_seen s0 s -> exists h s', rec (ftype f) s = Some (h, s') /\ sub_seen s s') ->
    forall acc s, sub_seen s0 s -> exists h s', hash_values rec vs acc s = Some (h, s') /\ sub_seen s s'.
  Proof.
    induction vs as [|f r IH]; intros Hrec acc s Hs.
    - exists acc, s. split; [reflexivity|apply sub_seen_refl].
    - rewrite hash_values_cons. destruct (Hrec f s (or_introl eq_refl) Hs) as (h & s1 & -> & H1).
      destruct (IH (fun f' s' Hf' => Hrec f' s' (or_intror Hf'))
                   (acc ++ unionAttributePrefix ++ fname f ++ unionAttributeTypePrefix ++ h) s1
                   (sub_seen_trans _ _ _ Hs H1)) as (h2 & s2 & -> & H2).
      exists h2, s2. split; [reflexivity|]. eapply sub_seen_trans; eassumption.
  Qed.

  Lemma hash_fields_total (rec : ty -> seen -> hres) k igt fs s0 :
    (forall f s, In f fs -> sub_seen s0 s -> exists h s', rec (ftype f) s = Some (h, s') /\ sub_seen s s') ->
    forall acc s, sub_seen s0 s -> exists h s', hash_fields rec k igt fs acc s = Some (h, s') /\ sub_seen s s'.
  Proof.
    induction fs as [|f r IH]; intros Hrec acc s Hs.
    - exists acc, s. split; [reflexivity|apply sub_seen_refl].
    - rewrite hash_fields_cons. destruct (Hrec f s (or_introl eq_refl) Hs) as (h & s1 & -> & H1). cbv zeta.
      match goal with |- context [hash_fields rec k igt r ?a ?st] =>
        destruct (IH (fun f' s' Hf' => Hrec f' s' (or_intror Hf')) a st) as (h2 & s2 & -> & H2)
      end.
      { eapply sub_seen_trans; [exact Hs|]. eapply sub_seen_trans; [exact H1|apply sub_seen_cons]. }
      exists h2, s2. split; [reflexivity|].
      eapply sub_seen_trans; [exact H1|]. eapply sub_seen_trans; [apply sub_seen_cons|exact H2].
  Qed.

  Lemma mul_step a b m : a < b -> m < bigM -> a * bigM + m < b * bigM.
  Proof. intros H1 H2. assert (S a * bigM <= b * bigM) by (apply Nat.mul_le_mono_r; lia). lia. Qed.

  Lemma hash_total fl : wf_env ->
    forall fuel t s, wf_ty t -> fuel > unseen U s * bigM + mu t ->
      exists h s', hash fuel fl E t s = Some (h, s') /\ sub_seen s s'.
  Proof.
    intro HE. induction fuel as [|n IH]; intros t s Hwf Hfuel; [lia|].
    destruct t as [p|i e|ki k ei e|key fs|nm vs|id]; simpl.
    - exists (prim_name p), s. split; [reflexivity|apply sub_seen_refl].
    - (* array *)
      assert (Hwe : wf_ty e).
      { apply (wf_ty_sub _ _ Hwf); simpl; [lia|apply incl_refl|apply incl_refl]. }
      destruct (IH e s Hwe) as (h & s1 & -> & H1).
      { unfold mu, rk in *. simpl in *. lia. }
      eexists _, s1. split; [reflexivity|exact H1].
    - (* map *)
      assert (Hwk : wf_ty k).
      { apply (wf_ty_sub _ _ Hwf); simpl; [lia|apply incl_appl, incl_refl|apply incl_appl, incl_refl]. }
      assert (Hwe : wf_ty e).
      { apply (wf_ty_sub _ _ Hwf); simpl; [lia|apply incl_appr, incl_refl|apply incl_appr, incl_refl]. }
      assert (Hrk : rk k <= rk (TMap ki k ei e) /\ rk e <= rk (TMap ki k ei e)).
      { unfold rk. simpl. split; apply maxl_incl; intros x Hx; apply in_or_app; auto. }
      assert (Hmk : mu k < mu (TMap ki k ei e) /\ mu e < mu (TMap ki k ei e)).
      { unfold mu. simpl. destruct Hrk as [Ha Hb].
        assert (S D * rk k <= S D * rk (TMap ki k ei e)) by (apply Nat.mul_le_mono_l; exact Ha).
        assert (S D * rk e <= S D * rk (TMap ki k ei e)) by (apply Nat.mul_le_mono_l; exact Hb).
        simpl in *. lia. }
      destruct (IH k s Hwk) as (hk & s1 & -> & H1); [lia|].
      destruct (IH e s1 Hwe) as (he & s2 & -> & H2).
      { pose proof (unseen_mono U _ _ H1).
        assert (unseen U s1 * bigM <= unseen U s * bigM) by (apply Nat.mul_le_mono_r; assumption). lia. }
      eexists _, s2. split; [reflexivity|]. eapply sub_seen_trans; eassumption.
    - (* object *)
      destruct (slookup key s) as [str|] eqn:Hl.
      + exists str, s. split; [reflexivity|apply sub_seen_refl].
      + assert (Hkey : In key U) by (destruct Hwf as (_ & Hk & _); apply Hk; simpl; now left).
        assert (Hns : is_seen key s = false) by (unfold is_seen; now rewrite Hl).
        pose proof (unseen_cons_lt U key objectPrefix s Hkey Hns) as Hlt.
        destruct (hash_fields_total (hash n fl E) key (igT fl) (isort fname fs) ((key, objectPrefix) :: s))
          with (acc := objectPrefix) (s := (key, objectPrefix) :: s) as (h & s1 & -> & H1).
        * intros f s' Hf Hs'. apply in_isort in Hf.
          destruct (wf_field_obj key fs f Hwf Hf) as [Hwff _].
          apply IH; [exact Hwff|].
          pose proof (unseen_mono U _ _ Hs') as Hm.
          pose proof (mu_lt_bigM _ Hwff) as Hmu.
          assert (unseen U s' * bigM + mu (ftype f) < unseen U s * bigM) by (apply mul_step; lia).
          lia.
        * apply sub_seen_refl.
        * exists h, s1. split; [reflexivity|]. eapply sub_seen_trans; [apply sub_seen_cons|exact H1].
    - (* union *)
      match goal with |- context [hash_values ?r ?l ?a ?st] =>
        destruct (hash_values_total r l st) with (acc := a) (s := st) as (h & s1 & -> & H1) end.
      + intros f s' Hf Hs'. apply in_isort in Hf.
        destruct (wf_field_union nm vs f Hwf Hf) as (Hwff & Hdf & Hrf).
        apply IH; [exact Hwff|].
        pose proof (unseen_mono U _ _ Hs') as Hm.
        assert (unseen U s' * bigM <= unseen U s * bigM) by (apply Nat.mul_le_mono_r; assumption).
        assert (S D * rk (ftype f) <= S D * rk (TUnion nm vs)) by (apply Nat.mul_le_mono_l; exact Hrf).
        unfold mu in *. lia.
      + apply sub_seen_refl.
      + exists h, s1. split; [reflexivity|exact H1].
    - (* user type *)
      destruct Hwf as (Hd & Hk & Hu). destruct (Hu id (or_introl eq_refl)) as [Hdom Hr].
      destruct (elookup id E) as [d|] eqn:Hl; [|congruence].
      destruct (igF fl).
      + eexists _, s. split; [reflexivity|apply sub_seen_refl].
      + destruct (HE id d Hl) as [Hwb Hg].
        destruct (IH (ut_type d) s Hwb) as (hb & s1 & -> & H1).
        { assert (Hrb : rk (ut_type d) <= rank id).
          { unfold rk. apply maxl_le_bound. intros x Hx. apply in_map_iff in Hx as (v & <- & Hv).
            apply Hg in Hv. lia. }
          destruct Hwb as (Hdb & _).
          assert (S D * rk (ut_type d) <= S D * rank id) by (apply Nat.mul_le_mono_l; exact Hrb).
          unfold mu, rk in *. simpl in *. lia. }
        eexists _, s1. split; [reflexivity|exact H1].
  Qed.
End Termination.

Lemma filter_len_le {A} (f : A -> bool) l : length (filter f l) <= length l.
Proof. induction l as [|x r IH]; simpl; [lia|]. destruct (f x); simpl; lia. Qed.

(* closed statement with the budget of the model *)
Lemma fuel_of_bigM K D R : fuel_of K D R = S (S K * bigM D R).
Proof. reflexivity. Qed.

Lemma hash_terminates_lemma E rank R t fl :
  wf_env E rank (keys_ty t ++ env_keys E) (Nat.max (depth t) (env_depth E)) R ->
  wf_ty E rank (keys_ty t ++ env_keys E) (Nat.max (depth t) (env_depth E)) R t ->
  exists h, Hash (fuel_bound E t R) fl E t = Some h.
Proof.
  intros HE Ht. unfold Hash.
  destruct (hash_total E rank _ _ R fl HE (fuel_bound E t R) t [] Ht) as (h & s' & -> & _).
  - pose proof (mu_lt_bigM E rank _ _ R t Ht) as Hmu.
    unfold fuel_bound. rewrite fuel_of_bigM.
    pose proof (filter_len_le (fun k => negb (is_seen k [])) (keys_ty t ++ env_keys E)) as Hf.
    unfold unseen.
    generalize dependent (bigM (Nat.max (depth t) (env_depth E)) R). intros M Hmu.
    generalize dependent (length (filter (fun k => negb (is_seen k [])) (keys_ty t ++ env_keys E))).
    generalize (length (keys_ty t ++ env_keys E)). intros K a Ha.
    assert (a * M <= K * M) by (apply Nat.mul_le_mono_r; exact Ha). lia.
  - now exists h.
Qed.

(* ------------------------------------------------------------------ *)
(* more budget never changes an answer                                  *)
(* ------------------------------------------------------------------ *)

Definition rec_le (r r' : ty -> seen -> hres) : Prop := forall t s x, r t s = Some x -> r' t s = Some x.

Lemma hash_values_mono r r' : rec_le r r' -> forall vs acc s x,
  hash_values r vs acc s = Some x -> hash_values r' vs acc s = Some x.
Proof.
  intros Hr. induction vs as [|f vs IH]; intros acc s x; [easy|].
  rewrite !hash_values_cons. destruct (r (ftype f) s) as [[h s']|] eqn:E1; [|easy].
  rewrite (Hr _ _ _ E1). apply IH.
Qed.

Lemma hash_fields_mono r r' k igt : rec_le r r' -> forall fs acc s x,
  hash_fields r k igt fs acc s = Some x -> hash_fields r' k igt fs acc s = Some x.
Proof.
  intros Hr. induction fs as [|f fs IH]; intros acc s x; [easy|].
  rewrite !hash_fields_cons. destruct (r (ftype f) s) as [[h s']|] eqn:E1; [|easy].
  rewrite (Hr _ _ _ E1). cbv zeta. apply IH.
Qed.

Lemma hash_fuel_mono fl E : forall n m, n <= m -> rec_le (hash n fl E) (hash m fl E).
Proof.
  induction n as [|n IH]; intros m Hm t s x; [easy|].
  destruct m as [|m]; [lia|]. assert (Hnm : n <= m) by lia. specialize (IH m Hnm).
  destruct t as [p|i e|ki k ei e|key fs|nm vs|id]; simpl.
  - easy.
  - destruct (hash n fl E e s) as [[h s']|] eqn:E1; [|easy]. now rewrite (IH _ _ _ E1).
  - destruct (hash n fl E k s) as [[hk s1]|] eqn:E1; [|easy]. rewrite (IH _ _ _ E1).
    destruct (hash n fl E e s1) as [[he s2]|] eqn:E2; [|easy]. now rewrite (IH _ _ _ E2).
  - destruct (slookup key s); [easy|]. now apply hash_fields_mono.
  - now apply hash_values_mono.
  - destruct (elookup id E) as [d|]; [|easy]. destruct (igF fl); [easy|].
    destruct (hash n fl E (ut_type d) s) as [[hb s']|] eqn:E1; [|easy]. now rewrite (IH _ _ _ E1).
Qed.

Lemma Hash_fuel_mono fl E t n m h : n <= m -> Hash n fl E t = Some h -> Hash m fl E t = Some h.
Proof.
  intros Hnm. unfold Hash. destruct (hash n fl E t []) as [[h' s']|] eqn:E1; [|easy].
  rewrite (hash_fuel_mono fl E n m Hnm _ _ _ E1). easy.
Qed.

(* ------------------------------------------------------------------ *)
(* structurally equal graphs hash alike (completeness)                  *)
(* ------------------------------------------------------------------ *)

Section Complete.
  Variables (fl : flags) (ru rk : nat -> nat) (dom : nat -> Prop).
  Hypothesis rk_inj : forall a b, rk a = rk b -> a = b.

  Lemma slookup_map_seen k s : slookup (rk k) (map_seen rk s) = slookup k s.
  Proof.
    induction s as [|[k' v] s IH]; simpl; [reflexivity|].
    destruct (Nat.eqb k k') eqn:E.
    - apply Nat.eqb_eq in E. subst. now rewrite Nat.eqb_refl.
    - assert (Nat.eqb (rk k) (rk k') = false) as ->; [|exact IH].
      apply Nat.eqb_neq. intro C. apply rk_inj in C. apply Nat.eqb_neq in E. contradiction.
  Qed.

  Definition rec_rel (r r' : ty -> seen -> hres) : Prop :=
    forall t t' s h s1, teq fl ru rk dom t t' -> r t s = Some (h, s1) -> r' t' (map_seen rk s) = Some (h, map_seen rk s1).

  Lemma hash_values_rel r r' : rec_rel r r' -> forall vs vs',
    Forall2 (fun f f' => fname f = fname f' /\ teq fl ru rk dom (ftype f) (ftype f')) vs vs' ->
    forall acc s h s1, hash_values r vs acc s = Some (h, s1) ->
                       hash_values r' vs' acc (map_seen rk s) = Some (h, map_seen rk s1).
  Proof.
    intros Hr vs vs' HF. induction HF as [|f f' vs vs' (Hn & Ht) HF IH]; intros acc s h s1.
    - rewrite !hash_values_nil. now intros [= -> ->].
    - rewrite !hash_values_cons. destruct (r (ftype f) s) as [[h0 s0]|] eqn:E1; [|easy].
      rewrite (Hr _ _ _ _ _ Ht E1). rewrite <- Hn. apply IH.
  Qed.

  Lemma hash_fields_rel r r' key : rec_rel r r' -> forall fs fs',
    Forall2 (fun f f' => fname f = fname f' /\ tags_ok fl (a_meta (finfo f)) (a_meta (finfo f'))
                         /\ teq fl ru rk dom (ftype f) (ftype f')) fs fs' ->
    forall acc s h s1, hash_fields r key (igT fl) fs acc s = Some (h, s1) ->
                       hash_fields r' (rk key) (igT fl) fs' acc (map_seen rk s) = Some (h, map_seen rk s1).
  Proof.
    intros Hr fs fs' HF. induction HF as [|f f' fs fs' (Hn & Hg & Ht) HF IH]; intros acc s h s1.
    - rewrite !hash_fields_nil. now intros [= -> ->].
    - rewrite !hash_fields_cons. destruct (r (ftype f) s) as [[h0 s0]|] eqn:E1; [|easy].
      rewrite (Hr _ _ _ _ _ Ht E1). cbv zeta. rewrite <- Hn.
      assert (Htg : (if igT fl then [] else tags (a_meta (finfo f))) = (if igT fl then [] else tags (a_meta (finfo f')))).
      { destruct Hg as [-> | ->]; [reflexivity|]. reflexivity. }
      rewrite <- Htg. intro H. apply IH in H. exact H.
  Qed.

  Lemma hash_complete_lemma E E' : env_eq fl ru rk dom E E' ->
    forall fuel, rec_rel (hash fuel fl E) (hash fuel fl E').
  Proof.
    intros HE. induction fuel as [|n IH]; intros t t' s h s1 Ht; [easy|].
    inversion Ht as [p|i i' e e' He|ki ki' k k' ei ei' e e' Hk He|key fs fs' HF|nm vs vs' HF|id Hdom]; subst; simpl.
    - now intros [= -> ->].
    - destruct (hash n fl E e s) as [[h0 s0]|] eqn:E1; [|easy].
      rewrite (IH _ _ _ _ _ He E1). now intros [= -> ->].
    - destruct (hash n fl E k s) as [[hk s0]|] eqn:E1; [|easy]. rewrite (IH _ _ _ _ _ Hk E1).
      destruct (hash n fl E e s0) as [[he s2]|] eqn:E2; [|easy]. rewrite (IH _ _ _ _ _ He E2).
      now intros [= -> ->].
    - rewrite slookup_map_seen. destruct (slookup key s) as [str|]; [now intros [= -> ->]|].
      intro H. apply (hash_fields_rel _ _ key IH _ _ HF) in H. exact H.
    - intro H. apply (hash_values_rel _ _ IH _ _ HF) in H. exact H.
    - destruct (elookup id E) as [d|] eqn:El; [|easy].
      destruct (HE id d Hdom El) as (d' & -> & Hn & Hb).
      destruct (igF fl) eqn:EF.
      + rewrite orb_true_r in *. rewrite (Hn eq_refl). now intros [= -> ->].
      + destruct (Hb eq_refl) as [Hg Hty].
        assert (Hname : igN fl = false -> ut_display_name d' = ut_display_name d).
        { intro Ei. symmetry. apply Hn. now rewrite Ei. }
        assert (Htag : igT fl = false -> tags (a_meta (ut_info d')) = tags (a_meta (ut_info d))).
        { intro Ei. destruct Hg as [Hg|Hg]; [congruence|now symmetry]. }
        destruct (igN fl); [|rewrite (Hname eq_refl)]; (destruct (igT fl); [|rewrite (Htag eq_refl)]); simpl;
          (destruct (hash n fl E (ut_type d) s) as [[hb s0]|] eqn:E1; [|easy]);
          rewrite (IH _ _ _ _ _ Hty E1); now intros [= -> ->].
  Qed.
End Complete.

(* ------------------------------------------------------------------ *)
(* sorting related lists gives related lists                            *)
(* ------------------------------------------------------------------ *)

Section SortRel.
  Context {A B : Type} (key : A -> bytes) (key' : B -> bytes) (Rel : A -> B -> Prop).
  Hypothesis Rel_key : forall x y, Rel x y -> key x = key' y.

  Lemma insert_Forall2 x y l l' : Rel x y -> Forall2 Rel l l' -> Forall2 Rel (insert key x l) (insert key' y l').
  Proof.
    intros Hxy HF. induction HF as [|a b l l' Hab HF IH]; simpl; [now repeat constructor|].
    rewrite <- (Rel_key _ _ Hxy), <- (Rel_key _ _ Hab).
    destruct (blt (key a) (key x)); now repeat constructor.
  Qed.

  Lemma isort_Forall2 l l' : Forall2 Rel l l' -> Forall2 Rel (isort key l) (isort key' l').
  Proof. induction 1; simpl; [constructor|]. now apply insert_Forall2. Qed.
End SortRel.

Lemma Forall2_diag {A} (Rel : A -> A -> Prop) l : Forall (fun x => Rel x x) l -> Forall2 Rel l l.
Proof. induction 1; now constructor. Qed.

Lemma Forall_perm {A} (P : A -> Prop) l l' : Permutation l l' -> Forall P l -> Forall P l'.
Proof. intros Hp H. rewrite Forall_forall in *. intros x Hx. apply H. eapply Permutation_in; [apply Permutation_sym, Hp|exact Hx]. Qed.

Definition idn (x : nat) : nat := x.
Definition all_ids (x : nat) : Prop := True.

Lemma tags_ok_refl fl m : tags_ok fl m m.
Proof. now right. Qed.

Lemma teq_refl fl t : teq fl idn idn all_ids t t.
Proof.
  induction t as [p|i e IH|ki k ei e IHk IHe|key fs IH|n vs IH|id] using ty_ind'.
  - constructor.
  - now constructor.
  - now constructor.
  - change (teq fl idn idn all_ids (TObj key fs) (TObj (idn key) fs)). constructor.
    apply Forall2_diag. eapply Forall_perm; [apply isort_perm|].
    eapply Forall_impl; [|exact IH]. intros f Hf. split; [reflexivity|]. split; [apply tags_ok_refl|exact Hf].
  - constructor. apply Forall2_diag. eapply Forall_perm; [apply isort_perm|].
    eapply Forall_impl; [|exact IH]. intros f Hf. now split.
  - change (teq fl idn idn all_ids (TUser id) (TUser (idn id))). now constructor.
Qed.

Lemma env_eq_refl fl E : env_eq fl idn idn all_ids E E.
Proof.
  intros id d _ Hl. exists d. split; [exact Hl|]. split; [reflexivity|].
  intros _. split; [apply tags_ok_refl|apply teq_refl].
Qed.

Lemma map_seen_idn s : map_seen idn s = s.
Proof. induction s as [|[k v] s IH]; simpl; [reflexivity|]. now rewrite IH. Qed.

(* completeness, whole-graph form *)
Lemma hash_complete_top fl ru rk dom E E' t t' fuel h :
  (forall a b, rk a = rk b -> a = b) ->
  env_eq fl ru rk dom E E' -> teq fl ru rk dom t t' ->
  Hash fuel fl E t = Some h -> Hash fuel fl E' t' = Some h.
Proof.
  intros Hinj HE Ht. unfold Hash.
  destruct (hash fuel fl E t []) as [[h0 s0]|] eqn:E1; [|easy]. intros [= ->].
  pose proof (hash_complete_lemma fl ru rk dom Hinj E E' HE fuel t t' [] h s0 Ht E1) as H.
  simpl in H. now rewrite H.
Qed.

(* the order of the meta entries of one attribute of an object *)
Lemma hash_meta_order_field fuel fl E k fs1 n i t fs2 m m' h :
  Permutation m m' -> NoDup (map fst m) ->
  Hash fuel fl E (TObj k (fs1 ++ F n (set_meta i m) t :: fs2)) = Some h ->
  Hash fuel fl E (TObj k (fs1 ++ F n (set_meta i m') t :: fs2)) = Some h.
Proof.
  intros Hp Hn. apply (hash_complete_top fl idn idn all_ids E E); [auto|apply env_eq_refl|].
  change (teq fl idn idn all_ids (TObj k (fs1 ++ F n (set_meta i m) t :: fs2))
              (TObj (idn k) (fs1 ++ F n (set_meta i m') t :: fs2))).
  constructor. apply isort_Forall2; [now intros x y (H & _)|].
  apply Forall2_app; [|constructor].
  - apply Forall2_diag, Forall_forall. intros f _. split; [reflexivity|]. split; [apply tags_ok_refl|apply teq_refl].
  - split; [reflexivity|]. split; [right; simpl; now apply tags_perm|apply teq_refl].
  - apply Forall2_diag, Forall_forall. intros f _. split; [reflexivity|]. split; [apply tags_ok_refl|apply teq_refl].
Qed.

(* the order of the meta entries of the attribute of a user type *)
Definition set_user_meta (d : utdef) (m : meta) : utdef :=
  UT (ut_name d) (ut_uid d) (set_meta (ut_info d) m) (ut_type d) (ut_rt d).

Lemma mlookup_perm k m m' : Permutation m m' -> NoDup (map fst m) -> mlookup k m = mlookup k m'.
Proof.
  intros Hp. induction Hp as [|[a v] l l' Hp IH|[a v] [b w] l|l1 l2 l3 H1 IH1 H2 IH2]; intro Hn; simpl.
  - reflexivity.
  - inversion Hn; subst. destruct (beq k a); [reflexivity|auto].
  - destruct (beq k b) eqn:Eb, (beq k a) eqn:Ea; try reflexivity.
    apply beq_eq in Ea, Eb. subst. inversion Hn as [|? ? Hx _]; subst. exfalso. apply Hx. now left.
  - rewrite IH1 by exact Hn. apply IH2. eapply Permutation_NoDup; [|exact Hn]. now apply Permutation_map.
Qed.

Lemma hash_meta_order_user fuel fl E1 id d E2 m m' t h :
  Permutation m m' -> NoDup (map fst m) ->
  Hash fuel fl (E1 ++ (id, set_user_meta d m) :: E2) t = Some h ->
  Hash fuel fl (E1 ++ (id, set_user_meta d m') :: E2) t = Some h.
Proof.
  intros Hp Hn. apply (hash_complete_top fl idn idn all_ids); [auto| |apply teq_refl].
  intros x dx _. unfold idn. induction E1 as [|[i0 d0] E1 IH]; simpl.
  - destruct (Nat.eqb x id).
    + intros [= <-]. eexists; split; [reflexivity|]. split.
      * intros _. unfold ut_display_name. simpl. now rewrite (mlookup_perm _ _ _ Hp Hn).
      * intros _. split; [right; simpl; now apply tags_perm|apply teq_refl].
    + intro Hl. exists dx. split; [exact Hl|]. split; [reflexivity|]. intros _. split; [apply tags_ok_refl|apply teq_refl].
  - destruct (Nat.eqb x i0); [|exact IH].
    intros [= <-]. exists d0. split; [reflexivity|]. split; [reflexivity|]. intros _. split; [apply tags_ok_refl|apply teq_refl].
Qed.

(* the answer does not depend on the budget *)
Lemma Hash_budget_irrelevant fl E t n m h h' : Hash n fl E t = Some h -> Hash m fl E t = Some h' -> h = h'.
Proof.
  intros H1 H2. destruct (Nat.le_ge_cases n m) as [L|L].
  - rewrite (Hash_fuel_mono fl E t n m h L H1) in H2. now injection H2.
  - rewrite (Hash_fuel_mono fl E t m n h' L H2) in H1. now injection H1.
Qed.

(* ------------------------------------------------------------------ *)
(* the two recorded collisions of the hash                              *)
(* ------------------------------------------------------------------ *)

Definition ai_none : ainfo := AI [] None [] false [].
Definition tInt : ty := TPrim PInt.
(* {a: {b: int}, c: int}  and  {a: {b: int, c: int}} *)
Definition w_flat : ty := TObj 0 [F [97%N] ai_none (TObj 1 [F [98%N] ai_none tInt]); F [99%N] ai_none tInt].
Definition w_nested : ty := TObj 0 [F [97%N] ai_none (TObj 1 [F [98%N] ai_none tInt; F [99%N] ai_none tInt])].

Lemma w_same_hash : Hash 8 equal_flags [] w_flat = Hash 8 equal_flags [] w_nested /\ Hash 8 equal_flags [] w_flat <> None.
Proof. vm_compute. split; [reflexivity|discriminate]. Qed.

Lemma w_not_teq ru rk dom : ~ teq equal_flags ru rk dom w_flat w_nested.
Proof.
  intro H. inversion H as [| | |key fs fs' HF| |]; subst.
  vm_compute in HF. inversion HF as [|? ? ? ? _ HF']; subst. inversion HF'.
Qed.

(* T = {a: T}  and  T' = {a: U}, U = {} *)
Definition e_rec : env := [(0, UT [84%N] [] ai_none (TObj 0 [F [97%N] ai_none (TUser 0)]) None)].
Definition e_cut : env := [(0, UT [84%N] [] ai_none (TObj 0 [F [97%N] ai_none (TUser 1)]) None);
                           (1, UT [85%N] [] ai_none (TObj 1 []) None)].

Lemma rec_same_hash : Hash 8 equal_flags e_rec (TUser 0) = Hash 8 equal_flags e_cut (TUser 0)
                      /\ Hash 8 equal_flags e_rec (TUser 0) <> None.
Proof. vm_compute. split; [reflexivity|discriminate]. Qed.

Lemma teq_user_inv fl ru rk dom a t' : teq fl ru rk dom (TUser a) t' -> t' = TUser (ru a) /\ dom a.
Proof. inversion 1; auto. Qed.

Lemma rec_not_teq ru rk dom : ~ (teq equal_flags ru rk dom (TUser 0) (TUser 0) /\ env_eq equal_flags ru rk dom e_rec e_cut).
Proof.
  intros [Ht HE]. apply teq_user_inv in Ht as [Hru Hd]. injection Hru as Hru.
  destruct (HE 0 _ Hd eq_refl) as (d' & Hl & _ & Hb). rewrite <- Hru in Hl. simpl in Hl. injection Hl as <-.
  destruct (Hb eq_refl) as [_ Hty]. simpl in Hty.
  inversion Hty as [| | |key fs fs' HF| |]; subst. vm_compute in HF.
  inversion HF as [|? ? ? ? (_ & _ & Hu) _]; subst. simpl in Hu.
  apply teq_user_inv in Hu as [Hru' _]. congruence.
Qed.

(* ================================================================== *)
(* Dup                                                                  *)
(* ================================================================== *)

Arguments dup_fields : simpl never.
Arguments dup_values : simpl never.

Lemma dup_fields_nil rec st acc : dup_fields rec [] st acc = Some (st, acc).
Proof. reflexivity. Qed.
Lemma dup_fields_cons rec f r st acc :
  dup_fields rec (f :: r) st acc =
  match rec st (ftype f) with
  | None => None
  | Some (st', t') => dup_fields rec r st' (obj_set acc (fname f) (dup_info (finfo f)) t')
  end.
Proof. reflexivity. Qed.
Lemma dup_values_nil rec st : dup_values rec [] st = Some (st, []).
Proof. reflexivity. Qed.
Lemma dup_values_cons rec f r st :
  dup_values rec (f :: r) st =
  match rec st (ftype f) with
  | None => None
  | Some (st', t') => match dup_values rec r st' with
                      | None => None
                      | Some (st'', r') => Some (st'', F (fname f) (dup_info (finfo f)) t' :: r')
                      end
  end.
Proof. reflexivity. Qed.

Definition memo_ext (m m' : list (bytes * nat)) : Prop :=
  forall k v, memo_lookup k m = Some v -> memo_lookup k m' = Some v.

Lemma memo_ext_refl m : memo_ext m m.
Proof. intros k v H; exact H. Qed.
Lemma memo_ext_trans a b c : memo_ext a b -> memo_ext b c -> memo_ext a c.
Proof. intros H1 H2 k v H. apply H2, H1, H. Qed.
Lemma memo_ext_cons k v m : memo_lookup k m = None -> memo_ext m ((k, v) :: m).
Proof.
  intros Hn k' v' H. simpl. destruct (beq k' k) eqn:Eb; [|exact H].
  apply beq_eq in Eb. subst. congruence.
Qed.

Lemma elookup_In id d (E : env) : elookup id E = Some d -> In (id, d) E.
Proof.
  induction E as [|[i x] E IH]; simpl; [easy|].
  destruct (Nat.eqb id i) eqn:Ei.
  - apply Nat.eqb_eq in Ei. subst. intros [= ->]. now left.
  - intro H. right. now apply IH.
Qed.

Lemma filter_len_mono {A} (f f' : A -> bool) l :
  (forall x, f' x = true -> f x = true) -> length (filter f' l) <= length (filter f l).
Proof.
  intro H. induction l as [|x r IH]; simpl; [lia|].
  destruct (f' x) eqn:E1.
  - rewrite (H _ E1). simpl. lia.
  - destruct (f x); simpl; lia.
Qed.

Lemma filter_len_strict {A} (f f' : A -> bool) l x :
  (forall y, f' y = true -> f y = true) -> In x l -> f x = true -> f' x = false ->
  length (filter f' l) < length (filter f l).
Proof.
  intros H Hin Hx Hx'. induction l as [|y r IH]; [easy|]. simpl.
  pose proof (filter_len_mono f f' r H) as Hle.
  destruct Hin as [->|Hin].
  - rewrite Hx, Hx'. simpl. lia.
  - specialize (IH Hin). destruct (f' y) eqn:E1.
    + rewrite (H _ E1). simpl. lia.
    + destruct (f y); simpl; lia.
Qed.

(* ---- termination of Dup ---- *)
Section DupTermination.
  Variables (E : env) (offu offk D : nat).

  Definition memoised (m : list (bytes * nat)) (d : utdef) : bool :=
    match memo_lookup (ut_id d) m with Some _ => true | None => false end.
  Definition unmemo (m : list (bytes * nat)) : nat := length (filter (fun p => negb (memoised m (snd p))) E).

  Definition dwf (t : ty) : Prop := depth t <= D /\ forall v, In v (users_ty t) -> elookup v E <> None.
  Definition dwf_env : Prop := forall id d, elookup id E = Some d -> dwf (ut_type d).

  Lemma memoised_ext m m' d : memo_ext m m' -> negb (memoised m' d) = true -> negb (memoised m d) = true.
  Proof.
    intros H. unfold memoised. destruct (memo_lookup (ut_id d) m) as [v|] eqn:E1; [|easy].
    now rewrite (H _ _ E1).
  Qed.

  Lemma unmemo_mono m m' : memo_ext m m' -> unmemo m' <= unmemo m.
  Proof. intro H. apply filter_len_mono. intros [i d]. apply memoised_ext, H. Qed.

  Lemma unmemo_cons_lt m id d v :
    In (id, d) E -> memo_lookup (ut_id d) m = None -> unmemo ((ut_id d, v) :: m) < unmemo m.
  Proof.
    intros Hin Hn. pose proof (memo_ext_cons (ut_id d) v m Hn) as Hext.
    apply (filter_len_strict _ _ E (id, d)); [|exact Hin| |].
    - intros [i x]. apply memoised_ext, Hext.
    - unfold memoised. simpl. now rewrite Hn.
    - unfold memoised. simpl. now rewrite beq_refl.
  Qed.

  Lemma dwf_sub t t' : dwf t -> depth t' < depth t -> incl (users_ty t') (users_ty t) -> dwf t' /\ depth t' < depth t.
  Proof. intros [Hd Hu] H1 H2. repeat split; [lia| |exact H1]. intros v Hv. apply Hu, H2, Hv. Qed.

  Lemma depth_field f fs : In f fs -> depth (ftype f) <= maxl (map (fun f => depth (ftype f)) fs).
  Proof. intro H. apply maxl_in, (in_map (fun f => depth (ftype f))), H. Qed.

  Lemma users_field f (fs : list (fld ty)) : In f fs -> incl (users_ty (ftype f)) (flat_map (fun f => users_ty (ftype f)) fs).
  Proof. intros H v Hv. apply in_flat_map. now exists f. Qed.

  Definition dspec (rec : dstate -> ty -> dres ty) (bound : nat) (t : ty) : Prop :=
    forall st, unmemo (memo st) <= bound -> exists st' t', rec st t = Some (st', t') /\ memo_ext (memo st) (memo st').

  Lemma dup_values_total rec bound vs :
    (forall f, In f vs -> dspec rec bound (ftype f)) ->
    forall st, unmemo (memo st) <= bound ->
      exists st' vs', dup_values rec vs st = Some (st', vs') /\ memo_ext (memo st) (memo st').
  Proof.
    induction vs as [|f r IH]; intros Hrec st Hb.
    - exists st, []. split; [reflexivity|apply memo_ext_refl].
    - rewrite dup_values_cons. destruct (Hrec f (or_introl eq_refl) st Hb) as (st1 & t1 & -> & H1).
      destruct (IH (fun f' Hf' => Hrec f' (or_intror Hf')) st1) as (st2 & r' & -> & H2).
      { pose proof (unmemo_mono _ _ H1). lia. }
      eexists _, _. split; [reflexivity|]. eapply memo_ext_trans; eassumption.
  Qed.

  Lemma dup_fields_total rec bound fs :
    (forall f, In f fs -> dspec rec bound (ftype f)) ->
    forall st acc, unmemo (memo st) <= bound ->
      exists st' fs', dup_fields rec fs st acc = Some (st', fs') /\ memo_ext (memo st) (memo st').
  Proof.
    induction fs as [|f r IH]; intros Hrec st acc Hb.
    - exists st, acc. split; [reflexivity|apply memo_ext_refl].
    - rewrite dup_fields_cons. destruct (Hrec f (or_introl eq_refl) st Hb) as (st1 & t1 & -> & H1).
      destruct (IH (fun f' Hf' => Hrec f' (or_intror Hf')) st1 (obj_set acc (fname f) (dup_info (finfo f)) t1))
        as (st2 & r' & -> & H2).
      { pose proof (unmemo_mono _ _ H1). lia. }
      eexists _, _. split; [reflexivity|]. eapply memo_ext_trans; eassumption.
  Qed.

  Lemma dup_total : dwf_env ->
    forall fuel st t, dwf t -> fuel > unmemo (memo st) * S D + depth t ->
      exists st' t', dup_ty E offu offk fuel st t = Some (st', t') /\ memo_ext (memo st) (memo st').
  Proof.
    intro HE. induction fuel as [|n IH]; intros st t Hwf Hfuel; [lia|].
    assert (Hstep : forall t' , dwf t' -> depth t' < depth t -> dspec (dup_ty E offu offk n) (unmemo (memo st)) t').
    { intros t' Hw Hd st' Hb. apply IH; [exact Hw|].
      assert (unmemo (memo st') * S D <= unmemo (memo st) * S D) by (apply Nat.mul_le_mono_r; exact Hb). lia. }
    destruct t as [p|i e|ki k ei e|key fs|nm vs|id]; simpl.
    - eexists _, _. split; [reflexivity|apply memo_ext_refl].
    - destruct (dwf_sub _ e Hwf) as [Hwe Hde]; [simpl; lia|simpl; apply incl_refl|].
      destruct (Hstep e Hwe Hde st (Nat.le_refl _)) as (st1 & e' & -> & H1).
      eexists _, _. split; [reflexivity|exact H1].
    - destruct (dwf_sub _ k Hwf) as [Hwk Hdk]; [simpl; lia|simpl; apply incl_appl, incl_refl|].
      destruct (dwf_sub _ e Hwf) as [Hwe Hde]; [simpl; lia|simpl; apply incl_appr, incl_refl|].
      destruct (Hstep k Hwk Hdk st (Nat.le_refl _)) as (st1 & k' & -> & H1).
      destruct (Hstep e Hwe Hde st1 (unmemo_mono _ _ H1)) as (st2 & e' & -> & H2).
      eexists _, _. split; [reflexivity|]. eapply memo_ext_trans; eassumption.
    - destruct (dup_fields_total (dup_ty E offu offk n) (unmemo (memo st)) fs) with (st := st) (acc := @nil (fld ty))
        as (st1 & fs' & -> & H1); [|lia|].
      + intros f Hf. pose proof (depth_field f fs Hf).
        destruct (dwf_sub _ (ftype f) Hwf) as [Hwff Hdf]; [simpl; lia|simpl; now apply users_field|].
        now apply Hstep.
      + eexists _, _. split; [reflexivity|exact H1].
    - destruct (dup_values_total (dup_ty E offu offk n) (unmemo (memo st)) vs) with (st := st)
        as (st1 & vs' & -> & H1); [|lia|].
      + intros f Hf. pose proof (depth_field f vs Hf).
        destruct (dwf_sub _ (ftype f) Hwf) as [Hwff Hdf]; [simpl; lia|simpl; now apply users_field|].
        now apply Hstep.
      + eexists _, _. split; [reflexivity|exact H1].
    - destruct Hwf as [Hd Hu]. pose proof (Hu id (or_introl eq_refl)) as Hdom.
      destruct (elookup id E) as [d|] eqn:El; [|congruence].
      destruct (memo_lookup (ut_id d) (memo st)) as [nid|] eqn:Em.
      + eexists _, _. split; [reflexivity|apply memo_ext_refl].
      + pose proof (unmemo_cons_lt (memo st) id d (offu + id) (elookup_In _ _ _ El) Em) as Hlt.
        destruct (HE id d El) as [Hdb Hub].
        destruct (IH (DS ((ut_id d, offu + id) :: memo st) (copies st)) (ut_type d) (conj Hdb Hub)) as (st2 & t' & -> & H2).
        { simpl.
          assert (S (unmemo ((ut_id d, offu + id) :: memo st)) * S D <= unmemo (memo st) * S D)
            by (apply Nat.mul_le_mono_r; lia). simpl in *. lia. }
        eexists _, _. split; [reflexivity|]. simpl.
        eapply memo_ext_trans; [apply (memo_ext_cons _ (offu + id) _ Em)|exact H2].
  Qed.
End DupTermination.

Lemma dup_terminates_lemma E offu offk t :
  dwf_env E (Nat.max (depth t) (env_depth E)) -> dwf E (Nat.max (depth t) (env_depth E)) t ->
  exists E' t', Dup E offu offk (dup_fuel E t) t = Some (E', t').
Proof.
  intros HE Ht. unfold Dup.
  destruct (dup_total E offu offk _ HE (dup_fuel E t) (DS [] []) t Ht) as (st' & t' & -> & _).
  - unfold dup_fuel. simpl memo.
    assert (Hu : unmemo E [] <= length E) by apply filter_len_le.
    destruct Ht as [Hd _].
    set (D := Nat.max (depth t) (env_depth E)) in *.
    assert (unmemo E [] * S D <= length E * S D) by (apply Nat.mul_le_mono_r; exact Hu). lia.
  - now eexists _, _.
Qed.

(* ---- the result of Dup is the original with every pointer renamed ---- *)

Lemma obj_set_fresh acc n i t : ~ In n (map fname acc) -> obj_set acc n i t = acc ++ [F n i t].
Proof.
  induction acc as [|g r IH]; simpl; intro H; [reflexivity|].
  destruct (beq (fname g) n) eqn:Eb.
  - apply beq_eq in Eb. exfalso. apply H. now left.
  - f_equal. apply IH. intro C. apply H. now right.
Qed.

Lemma names_ok_fields fs : fold_right (fun f acc => names_ok (ftype f) /\ acc) True fs -> forall f, In f fs -> names_ok (ftype f).
Proof. induction fs as [|g r IH]; simpl; [easy|]. intros [H1 H2] f [<-|Hf]; [exact H1|now apply IH]. Qed.

Section DupShape.
  Variables (E : env) (offu offk : nat).
  Hypothesis uid_inj : forall id id' d d',
      elookup id E = Some d -> elookup id' E = Some d' -> ut_id d = ut_id d' -> id = id'.
  Hypothesis names_env : forall id d, elookup id E = Some d -> names_ok (ut_type d).

  Let sh := shift_ty offu offk.
  Let shf (f : fld ty) : fld ty := F (fname f) (dup_info (finfo f)) (sh (ftype f)).

  Definition memo_ok (m : list (bytes * nat)) : Prop :=
    forall id d nid, elookup id E = Some d -> memo_lookup (ut_id d) m = Some nid -> nid = offu + id.
  Definition is_memo (m : list (bytes * nat)) (id : nat) : Prop :=
    exists d, elookup id E = Some d /\ memo_lookup (ut_id d) m <> None.
  Definition completed (st : dstate) (id : nat) : Prop :=
    forall d, elookup id E = Some d ->
      elookup (offu + id) (copies st) = Some (shift_def offu offk d) /\
      forall v, In v (users_ty (ut_type d)) -> is_memo (memo st) v.
  Definition done_ok (stk : list nat) (st : dstate) : Prop :=
    forall id, is_memo (memo st) id -> In id stk \/ completed st id.
  Definition copies_ok (st : dstate) : Prop :=
    forall x d', In (x, d') (copies st) -> exists id d, x = offu + id /\ elookup id E = Some d /\ d' = shift_def offu offk d.
  Definition good (stk : list nat) (st : dstate) : Prop :=
    memo_ok (memo st) /\ done_ok stk st /\ copies_ok st.

  Lemma is_memo_ext m m' id : memo_ext m m' -> is_memo m id -> is_memo m' id.
  Proof.
    intros H (d & Hl & Hm). exists d. split; [exact Hl|].
    destruct (memo_lookup (ut_id d) m) as [v|] eqn:E1; [|congruence]. now rewrite (H _ _ E1).
  Qed.

  Definition step_spec (stk : list nat) (rec : dstate -> ty -> dres ty) (t : ty) : Prop :=
    forall st st' t', rec st t = Some (st', t') -> good stk st ->
      t' = sh t /\ good stk st' /\ memo_ext (memo st) (memo st') /\
      (forall v, In v (users_ty t) -> is_memo (memo st') v).

  Lemma dup_values_shape stk rec vs :
    (forall f, In f vs -> step_spec stk rec (ftype f)) ->
    forall st st' vs', dup_values rec vs st = Some (st', vs') -> good stk st ->
      vs' = map shf vs /\ good stk st' /\ memo_ext (memo st) (memo st') /\
      (forall f v, In f vs -> In v (users_ty (ftype f)) -> is_memo (memo st') v).
  Proof.
    induction vs as [|f r IH]; intros Hrec st st' vs'.
    - rewrite dup_values_nil. intros [= <- <-] Hg.
      split; [reflexivity|]. split; [exact Hg|]. split; [apply memo_ext_refl|]. intros f v [].
    - rewrite dup_values_cons. destruct (rec st (ftype f)) as [[st1 t1]|] eqn:E1; [|easy].
      destruct (dup_values rec r st1) as [[st2 r']|] eqn:E2; [|easy]. intros [= <- <-] Hg.
      destruct (Hrec f (or_introl eq_refl) _ _ _ E1 Hg) as (-> & Hg1 & Hx1 & Hu1).
      destruct (IH (fun f' Hf' => Hrec f' (or_intror Hf')) _ _ _ E2 Hg1) as (-> & Hg2 & Hx2 & Hu2).
      split; [reflexivity|]. split; [exact Hg2|]. split.
      + eapply memo_ext_trans; eassumption.
      + intros f' v [<-|Hf'] Hv; [eapply is_memo_ext; [exact Hx2|now apply Hu1]|now apply (Hu2 f')].
  Qed.

  Lemma dup_fields_shape stk rec fs :
    (forall f, In f fs -> step_spec stk rec (ftype f)) ->
    forall acc st st' fs', dup_fields rec fs st acc = Some (st', fs') -> good stk st ->
      NoDup (map fname acc ++ map fname fs) ->
      fs' = acc ++ map shf fs /\ good stk st' /\ memo_ext (memo st) (memo st') /\
      (forall f v, In f fs -> In v (users_ty (ftype f)) -> is_memo (memo st') v).
  Proof.
    induction fs as [|f r IH]; intros Hrec acc st st' fs'.
    - rewrite dup_fields_nil. intros [= <- <-] Hg _. rewrite app_nil_r.
      split; [reflexivity|]. split; [exact Hg|]. split; [apply memo_ext_refl|]. intros f v [].
    - rewrite dup_fields_cons. destruct (rec st (ftype f)) as [[st1 t1]|] eqn:E1; [|easy].
      intros E2 Hg Hnd.
      destruct (Hrec f (or_introl eq_refl) _ _ _ E1 Hg) as (-> & Hg1 & Hx1 & Hu1).
      assert (Hfresh : ~ In (fname f) (map fname acc)).
      { simpl in Hnd. apply NoDup_remove_2 in Hnd. intro C. apply Hnd. apply in_or_app. now left. }
      rewrite (obj_set_fresh _ _ _ _ Hfresh) in E2.
      destruct (IH (fun f' Hf' => Hrec f' (or_intror Hf')) _ _ _ _ E2 Hg1) as (-> & Hg2 & Hx2 & Hu2).
      { rewrite map_app. simpl. rewrite <- app_assoc. simpl. exact Hnd. }
      split; [rewrite <- app_assoc; reflexivity|]. split; [exact Hg2|]. split.
      + eapply memo_ext_trans; eassumption.
      + intros f' v [<-|Hf'] Hv; [eapply is_memo_ext; [exact Hx2|now apply Hu1]|now apply (Hu2 f')].
  Qed.

  Lemma completed_keep st st' id :
    copies st' = copies st -> memo_ext (memo st) (memo st') -> completed st id -> completed st' id.
  Proof.
    intros Hc Hm H d Hl. destruct (H d Hl) as [H1 H2]. rewrite Hc. split; [exact H1|].
    intros v Hv. eapply is_memo_ext; [exact Hm|now apply H2].
  Qed.

  Lemma dup_shape : forall fuel stk t, names_ok t -> step_spec stk (dup_ty E offu offk fuel) t.
  Proof.
    induction fuel as [|n IH]; intros stk t Hnames st st' t'; [easy|].
    destruct t as [p|i e|ki k ei e|key fs|nm vs|id]; simpl.
    - intros [= <- <-] Hg. split; [reflexivity|]. split; [exact Hg|]. split; [apply memo_ext_refl|]. intros v [].
    - destruct (dup_ty E offu offk n st e) as [[st1 e']|] eqn:E1; [|easy]. intros [= <- <-] Hg.
      destruct (IH stk e Hnames _ _ _ E1 Hg) as (-> & Hg1 & Hx1 & Hu1).
      split; [reflexivity|]. split; [exact Hg1|]. split; [exact Hx1|exact Hu1].
    - destruct Hnames as [Hnk Hne].
      destruct (dup_ty E offu offk n st k) as [[st1 k']|] eqn:E1; [|easy].
      destruct (dup_ty E offu offk n st1 e) as [[st2 e']|] eqn:E2; [|easy]. intros [= <- <-] Hg.
      destruct (IH stk k Hnk _ _ _ E1 Hg) as (-> & Hg1 & Hx1 & Hu1).
      destruct (IH stk e Hne _ _ _ E2 Hg1) as (-> & Hg2 & Hx2 & Hu2).
      split; [reflexivity|]. split; [exact Hg2|]. split.
      + eapply memo_ext_trans; eassumption.
      + intros v Hv. simpl in Hv. apply in_app_or in Hv as [Hv|Hv]; [eapply is_memo_ext; [exact Hx2|now apply Hu1]|now apply Hu2].
    - destruct Hnames as [Hnd Hnf].
      destruct (dup_fields (dup_ty E offu offk n) fs st []) as [[st1 fs']|] eqn:E1; [|easy]. intros [= <- <-] Hg.
      destruct (dup_fields_shape stk (dup_ty E offu offk n) fs) with (acc := @nil (fld ty)) (st := st) (st' := st1) (fs' := fs')
        as (-> & Hg1 & Hx1 & Hu1); try assumption.
      + intros f Hf. apply IH. now apply (names_ok_fields fs Hnf).
      + split; [reflexivity|]. split; [exact Hg1|]. split; [exact Hx1|].
        intros v Hv. simpl in Hv. apply in_flat_map in Hv as (f & Hf & Hv). now apply (Hu1 f).
    - destruct (dup_values (dup_ty E offu offk n) vs st) as [[st1 vs']|] eqn:E1; [|easy]. intros [= <- <-] Hg.
      destruct (dup_values_shape stk (dup_ty E offu offk n) vs) with (st := st) (st' := st1) (vs' := vs')
        as (-> & Hg1 & Hx1 & Hu1); try assumption.
      + intros f Hf. apply IH. now apply (names_ok_fields vs Hnames).
      + split; [reflexivity|]. split; [exact Hg1|]. split; [exact Hx1|].
        intros v Hv. simpl in Hv. apply in_flat_map in Hv as (f & Hf & Hv). now apply (Hu1 f).
    - destruct (elookup id E) as [d|] eqn:El; [|easy].
      destruct (memo_lookup (ut_id d) (memo st)) as [nid|] eqn:Em.
      + intros [= <- <-] Hg. pose proof Hg as (Hmo & Hdo & Hco).
        rewrite (Hmo id d nid El Em). split; [reflexivity|]. split; [exact Hg|]. split; [apply memo_ext_refl|].
        intros v [<-|[]]. exists d. split; [exact El|congruence].
      + destruct (dup_ty E offu offk n (DS ((ut_id d, offu + id) :: memo st) (copies st)) (ut_type d)) as [[st2 tb]|] eqn:E1; [|easy].
        intros [= <- <-] (Hmo & Hdo & Hco).
        pose proof (memo_ext_cons (ut_id d) (offu + id) (memo st) Em) as Hext1.
        assert (Hg1 : good (id :: stk) (DS ((ut_id d, offu + id) :: memo st) (copies st))).
        { split; [|split].
          - intros id' d' nid' Hl'. simpl. destruct (beq (ut_id d') (ut_id d)) eqn:Eb.
            + apply beq_eq in Eb. intros [= <-]. f_equal. exact (uid_inj _ _ _ _ El Hl' (eq_sym Eb)).
            + apply Hmo. exact Hl'.
          - intros x (dx & Hlx & Hmx). simpl in Hmx. destruct (beq (ut_id dx) (ut_id d)) eqn:Eb.
            + apply beq_eq in Eb. left. left. exact (uid_inj _ _ _ _ El Hlx (eq_sym Eb)).
            + destruct (Hdo x) as [Hs|Hc]; [now exists dx|left; now right|].
              right. eapply completed_keep; [| |exact Hc]; [reflexivity|exact Hext1].
          - exact Hco. }
        destruct (IH (id :: stk) (ut_type d) (names_env id d El) _ _ _ E1 Hg1) as (-> & (Hmo2 & Hdo2 & Hco2) & Hx2 & Hu2).
        simpl in Hx2.
        split; [reflexivity|]. split; [split; [|split]|split].
        * exact Hmo2.
        * (* done_ok *)
          intros x Hx. simpl in Hx.
          destruct (Nat.eq_dec x id) as [->|Hne].
          { right. intros d0 Hl0. rewrite El in Hl0. injection Hl0 as <-. simpl. rewrite Nat.eqb_refl.
            split; [reflexivity|]. intros v Hv. now apply Hu2. }
          destruct (Hdo2 x Hx) as [[Heq|Hs]|Hc]; [congruence|now left|].
          right. intros dx Hlx. destruct (Hc dx Hlx) as [H1 H2]. simpl.
          assert (Nat.eqb (offu + x) (offu + id) = false) as -> by (apply Nat.eqb_neq; lia).
          split; [exact H1|exact H2].
        * (* copies_ok *)
          intros x d' [Heq|Hin]; [|now apply Hco2].
          injection Heq as <- <-. exists id, d. repeat split. exact El.
        * simpl. eapply memo_ext_trans; [exact Hext1|exact Hx2].
        * simpl. intros v [<-|[]]. exists d. split; [exact El|].
          assert (memo_lookup (ut_id d) ((ut_id d, offu + id) :: memo st) = Some (offu + id)) as Hnew by (simpl; now rewrite beq_refl).
          rewrite (Hx2 _ _ Hnew). congruence.
  Qed.
End DupShape.

(* ---- consequences: the copy hashes like the original, is fresh, shares only views ---- *)

Section DupFacts.
  Variables (E : env) (offu offk : nat).
  Let ru (id : nat) : nat := offu + id.
  Let rk (k : nat) : nat := offk + k.
  Let sh := shift_ty offu offk.

  Lemma teq_shift fl (dom : nat -> Prop) t :
    (forall v, In v (users_ty t) -> dom v) -> teq fl ru rk dom t (sh t).
  Proof.
    induction t as [p|i e IH|ki k ei e IHk IHe|key fs IH|n vs IH|id] using ty_ind'; intro Hu; simpl.
    - constructor.
    - constructor. now apply IH.
    - constructor; [apply IHk|apply IHe]; intros v Hv; apply Hu; simpl; apply in_or_app; auto.
    - change (teq fl ru rk dom (TObj key fs)
                  (TObj (rk key) (map (fun f => F (fname f) (dup_info (finfo f)) (shift_ty offu offk (ftype f))) fs))).
      constructor. apply isort_Forall2; [now intros x y (H & _)|].
      rewrite Forall_forall in IH. simpl in Hu. clear key.
      induction fs as [|f r IHr]; simpl; constructor.
      + split; [reflexivity|]. split; [now right|].
        apply IH; [now left|]. intros v Hv. apply Hu. simpl. apply in_or_app. now left.
      + apply IHr; [intros g Hg; apply IH; now right|]. intros v Hv. apply Hu. simpl. apply in_or_app. now right.
    - constructor. apply isort_Forall2; [now intros x y (H & _)|].
      rewrite Forall_forall in IH. simpl in Hu.
      induction vs as [|f r IHr]; simpl; constructor.
      + split; [reflexivity|].
        apply IH; [now left|]. intros v Hv. apply Hu. simpl. apply in_or_app. now left.
      + apply IHr; [intros g Hg; apply IH; now right|]. intros v Hv. apply Hu. simpl. apply in_or_app. now right.
    - change (teq fl ru rk dom (TUser id) (TUser (ru id))). constructor. apply Hu. now left.
  Qed.

  Lemma display_name_shift d : ut_display_name (shift_def offu offk d) = ut_display_name d.
  Proof. unfold ut_display_name, shift_def. simpl. destruct (ut_rt d); reflexivity. Qed.

  Hypothesis uid_inj : forall id id' d d',
      elookup id E = Some d -> elookup id' E = Some d' -> ut_id d = ut_id d' -> id = id'.
  Hypothesis names_env : forall id d, elookup id E = Some d -> names_ok (ut_type d).

  Lemma good_init : good E offu offk [] (DS [] []).
  Proof.
    split; [|split].
    - intros id d nid _ H. discriminate H.
    - intros id (d & _ & H). now contradiction H.
    - intros x d' [].
  Qed.

  (* everything that follows from a successful Dup *)
  Lemma dup_result fuel t E' t' :
    names_ok t -> Dup E offu offk fuel t = Some (E', t') ->
    t' = sh t /\
    exists dom : nat -> Prop,
      (forall v, In v (users_ty t) -> dom v) /\
      (forall id d, dom id -> elookup id E = Some d ->
         elookup (offu + id) E' = Some (shift_def offu offk d) /\ forall v, In v (users_ty (ut_type d)) -> dom v) /\
      (forall x d', In (x, d') E' -> exists id d, x = offu + id /\ elookup id E = Some d /\ d' = shift_def offu offk d).
  Proof.
    intros Hn. unfold Dup. destruct (dup_ty E offu offk fuel (DS [] []) t) as [[st t1]|] eqn:E1; [|easy].
    intros [= <- <-].
    destruct (dup_shape E offu offk uid_inj names_env fuel [] t Hn _ _ _ E1 good_init) as (-> & (Hmo & Hdo & Hco) & _ & Hu).
    split; [reflexivity|]. exists (is_memo E (memo st)). split; [exact Hu|]. split; [|exact Hco].
    intros id d Hdom Hl. destruct (Hdo id Hdom) as [[]|Hc]. exact (Hc d Hl).
  Qed.

  Lemma dup_equal_lemma fl fuel f t E' t' h :
    names_ok t -> Dup E offu offk fuel t = Some (E', t') ->
    Hash f fl E t = Some h -> Hash f fl E' t' = Some h.
  Proof.
    intros Hn Hd. destruct (dup_result fuel t E' t' Hn Hd) as (-> & dom & Hroot & Henv & _).
    apply (hash_complete_top fl ru rk dom E E').
    - intros a b. unfold rk. lia.
    - intros id d Hdom Hl. destruct (Henv id d Hdom Hl) as [Hc Hu].
      exists (shift_def offu offk d). split; [exact Hc|]. split.
      + intros _. symmetry. apply display_name_shift.
      + intros _. split; [now right|]. simpl. now apply teq_shift.
    - now apply teq_shift.
  Qed.

  (* pointers of a shifted type *)
  Lemma users_shift t v : In v (users_ty (sh t)) -> offu <= v.
  Proof.
    induction t as [p|i e IH|ki k ei e IHk IHe|key fs IH|n vs IH|id] using ty_ind'; simpl; try easy.
    - intro H. apply in_app_or in H as [H|H]; auto.
    - rewrite Forall_forall in IH. intro H. apply in_flat_map in H as (g & Hg & Hv).
      apply in_map_iff in Hg as (f & <- & Hf). simpl in Hv. now apply (IH f).
    - rewrite Forall_forall in IH. intro H. apply in_flat_map in H as (g & Hg & Hv).
      apply in_map_iff in Hg as (f & <- & Hf). simpl in Hv. now apply (IH f).
    - intros [<-|[]]. lia.
  Qed.

  Lemma keys_shift t k : In k (keys_ty (sh t)) -> offk <= k.
  Proof.
    induction t as [p|i e IH|ki kt ei e IHk IHe|key fs IH|n vs IH|id] using ty_ind'; simpl; try easy.
    - intro H. apply in_app_or in H as [H|H]; auto.
    - rewrite Forall_forall in IH. intros [<-|H]; [lia|]. apply in_flat_map in H as (g & Hg & Hv).
      apply in_map_iff in Hg as (f & <- & Hf). simpl in Hv. now apply (IH f).
    - rewrite Forall_forall in IH. intro H. apply in_flat_map in H as (g & Hg & Hv).
      apply in_map_iff in Hg as (f & <- & Hf). simpl in Hv. now apply (IH f).
  Qed.

  Lemma dup_fresh_lemma fuel t E' t' :
    names_ok t -> Dup E offu offk fuel t = Some (E', t') ->
    (forall v, In v (users_ty t') -> offu <= v) /\ (forall k, In k (keys_ty t') -> offk <= k) /\
    (forall x d', In (x, d') E' ->
       offu <= x /\ (forall v, In v (users_ty (ut_type d')) -> offu <= v) /\ (forall k, In k (keys_ty (ut_type d')) -> offk <= k)).
  Proof.
    intros Hn Hd. destruct (dup_result fuel t E' t' Hn Hd) as (-> & dom & _ & _ & Hco).
    split; [apply users_shift|]. split; [apply keys_shift|].
    intros x d' Hin. destruct (Hco x d' Hin) as (id & d & -> & _ & ->). split; [lia|]. simpl.
    split; [apply users_shift|apply keys_shift].
  Qed.

  (* views: the copy of a result type points to the views of the original *)
  Lemma dup_views_lemma fuel t E' t' :
    names_ok t -> Dup E offu offk fuel t = Some (E', t') -> incl (views_of E') (views_of E).
  Proof.
    intros Hn Hd. destruct (dup_result fuel t E' t' Hn Hd) as (_ & dom & _ & _ & Hco).
    intros v Hv. unfold views_of in *. apply in_flat_map in Hv as ([x d'] & Hin & Hv).
    destruct (Hco x d' Hin) as (id & d & -> & Hl & ->). simpl in Hv.
    apply in_flat_map. exists (id, d). split; [now apply elookup_In|]. simpl.
    destruct (ut_rt d); exact Hv.
  Qed.
End DupFacts.

(* writes through the copy (any change of the user types the copy owns) are invisible
   at the pointers of the original *)
Lemma elookup_app_fresh (E E'' : env) off id :
  (forall x d, In (x, d) E'' -> off <= x) -> id < off -> elookup id (E'' ++ E) = elookup id E.
Proof.
  intros H Hid. induction E'' as [|[x d] r IH]; simpl; [reflexivity|].
  assert (off <= x) by (apply (H x d); now left).
  assert (Nat.eqb id x = false) as -> by (apply Nat.eqb_neq; lia).
  apply IH. intros y dy Hy. apply (H y dy). now right.
Qed.

(* the view finding: a result type with one view; the copy reaches the same view *)
Definition e_views : env :=
  [(0, UT [82%N] [] ai_none (TObj 0 [F [105;100]%N ai_none tInt]) (Some (RT [114%N] [] [0])))].

Lemma views_shared_example :
  exists E' t', Dup e_views 1 1 (dup_fuel e_views (TUser 0)) (TUser 0) = Some (E', t') /\
                In 0 (views_of E') /\ In 0 (views_of e_views).
Proof. vm_compute. eexists _, _. split; [reflexivity|]. split; now left. Qed.

(* every field of an attribute is kept *)
Lemma dup_info_id i : dup_info i = i.
Proof. now destruct i. Qed.
(* the field of a result type Dup does not copy *)
Lemma dup_rt_id r : (forall x, r = Some x -> rt_ctype x = []) -> dup_rt r = r.
Proof. destruct r as [[i c v]|]; simpl; [|reflexivity]. intro H. specialize (H _ eq_refl). simpl in H. now subst. Qed.
Lemma dup_rt_ctype_lost : exists r, dup_rt r <> r.
Proof. exists (Some (RT [] [1%N] [])). discriminate. Qed.

(* a sequence of writes at fresh pointers is invisible at the pointers of the original *)
Lemma apply_writes_fresh ws (H : env) off id :
  Forall (fun w => off <= fst w) ws -> id < off -> elookup id (apply_writes ws H) = elookup id H.
Proof.
  revert H. induction ws as [|[x d] ws IH]; intros H Hf Hid; simpl; [reflexivity|].
  inversion Hf as [|? ? Hx Hr]; subst. simpl in Hx. rewrite IH by assumption. simpl.
  assert (Nat.eqb id x = false) as -> by (apply Nat.eqb_neq; lia). reflexivity.
Qed.

Lemma dup_writes_invisible E offu offk fuel t E' t' :
  (forall id id' d d', elookup id E = Some d -> elookup id' E = Some d' -> ut_id d = ut_id d' -> id = id') ->
  (forall id d, elookup id E = Some d -> names_ok (ut_type d)) ->
  names_ok t -> Dup E offu offk fuel t = Some (E', t') ->
  (forall id d, elookup id E = Some d -> id < offu) ->
  forall ws, Forall (fun w => offu <= fst w) ws ->
  forall id d, elookup id E = Some d -> elookup id (apply_writes ws (E' ++ E)) = Some d.
Proof.
  intros H1 H2 Hn Hd Hlt ws Hws id d Hl.
  rewrite (apply_writes_fresh ws (E' ++ E) offu id Hws (Hlt id d Hl)).
  rewrite (elookup_app_fresh E E' offu id); [exact Hl| |exact (Hlt id d Hl)].
  intros x dx Hin. destruct (dup_fresh_lemma E offu offk H1 H2 fuel t E' t' Hn Hd) as (_ & _ & Hc).
  now destruct (Hc x dx Hin).
Qed.

(* ---- Equal: two independent hashes (each operand with its own seen map) ---- *)
Lemma beq_sym a b : beq a b = beq b a.
Proof.
  destruct (beq a b) eqn:E1, (beq b a) eqn:E2; try reflexivity.
  - apply beq_eq in E1. subst. now rewrite beq_refl in E2.
  - apply beq_eq in E2. subst. now rewrite beq_refl in E1.
Qed.

Lemma Equal_sym fuel E1 t1 E2 t2 : Equal fuel E1 t1 E2 t2 = Equal fuel E2 t2 E1 t1.
Proof.
  unfold Equal. destruct (Hash fuel equal_flags E1 t1), (Hash fuel equal_flags E2 t2); try reflexivity.
  now rewrite beq_sym.
Qed.

Lemma Equal_refl fuel E t h : Hash fuel equal_flags E t = Some h -> Equal fuel E t E t = Some true.
Proof. intro H. unfold Equal. rewrite H. now rewrite beq_refl. Qed.

(* replacing both operands by (separate) copies does not change the answer *)
Lemma Equal_copies E offu offk offu' offk' fa fb fuel a b Ea a' Eb b' v :
  (forall id id' d d', elookup id E = Some d -> elookup id' E = Some d' -> ut_id d = ut_id d' -> id = id') ->
  (forall id d, elookup id E = Some d -> names_ok (ut_type d)) ->
  names_ok a -> names_ok b ->
  Dup E offu offk fa a = Some (Ea, a') -> Dup E offu' offk' fb b = Some (Eb, b') ->
  Equal fuel E a E b = Some v -> Equal fuel Ea a' Eb b' = Some v.
Proof.
  intros H1 H2 Ha Hb Da Db. unfold Equal.
  destruct (Hash fuel equal_flags E a) as [ha|] eqn:Eha; [|discriminate].
  destruct (Hash fuel equal_flags E b) as [hb|] eqn:Ehb; [|discriminate].
  rewrite (dup_equal_lemma E offu offk H1 H2 equal_flags fa fuel a Ea a' ha Ha Da Eha).
  rewrite (dup_equal_lemma E offu' offk' H1 H2 equal_flags fb fuel b Eb b' hb Hb Db Ehb).
  trivial.
Qed.

(* ================================================================== *)
(* Required slices: a copy made by Dup owns its array                   *)
(* ================================================================== *)

Section RequiredSlices.
  Variables (A0 : arrays) (next0 : nat) (so : gslice).
  Hypothesis so_old : g_arr so < next0.

  (* st / c: the store and the copy's slice at some point of a run of mutators on the copy *)
  Definition owns (st : sstate) (c : gslice) : Prop :=
    next0 <= ss_next st /\
    alookup (g_arr so) (ss_arrays st) = alookup (g_arr so) A0 /\
    (g_cap c = 0 \/ (next0 <= g_arr c /\ g_arr c < ss_next st)) /\
    g_len c <= g_cap c.

  Lemma alookup_other id id' cells A : id <> id' -> alookup id ((id', cells) :: A) = alookup id A.
  Proof. intro H. simpl. apply Nat.eqb_neq in H. now rewrite H. Qed.

  Lemma index_of_nil x : index_of x [] = None.
  Proof. reflexivity. Qed.

  Lemma owns_add st c x : owns st c -> let (st', c') := add_required st c x in owns st' c'.
  Proof.
    intros (Hn & Ha & Hc & Hl). unfold add_required.
    destruct (index_of x (sread (ss_arrays st) c)); [repeat split; assumption|].
    unfold sappend. destruct (Nat.ltb (g_len c) (g_cap c)) eqn:E; unfold owns; cbn [ss_arrays ss_next g_arr g_len g_cap].
    - apply Nat.ltb_lt in E. destruct Hc as [Hc|[Hc1 Hc2]]; [lia|].
      split; [exact Hn|]. split; [rewrite alookup_other by lia; exact Ha|]. split; [right; split; assumption|lia].
    - apply Nat.ltb_ge in E.
      split; [lia|]. split; [rewrite alookup_other by lia; exact Ha|]. split; [right; split; lia|lia].
  Qed.

  Lemma owns_remove st c x : owns st c -> let (st', c') := remove_required st c x in owns st' c'.
  Proof.
    intros (Hn & Ha & Hc & Hl). unfold remove_required.
    destruct (index_of x (sread (ss_arrays st) c)) as [i|] eqn:Ei; [|repeat split; assumption].
    unfold owns; cbn [ss_arrays ss_next g_arr g_len g_cap]. destruct Hc as [Hc|[Hc1 Hc2]].
    - assert (H0 : g_len c = 0) by lia. unfold sread in Ei. rewrite H0 in Ei. simpl in Ei. discriminate Ei.
    - split; [exact Hn|]. split; [rewrite alookup_other by lia; exact Ha|]. split; [right; split; assumption|lia].
  Qed.

  Lemma owns_run ops : forall st c, owns st c -> let (st', c') := run_rops ops st c in owns st' c'.
  Proof.
    induction ops as [|[x|x] ops IH]; intros st c H; simpl; [exact H| |].
    - pose proof (owns_add st c x H) as H1. destruct (add_required st c x) as [st1 c1]. now apply IH.
    - pose proof (owns_remove st c x H) as H1. destruct (remove_required st c x) as [st1 c1]. now apply IH.
  Qed.

  Lemma owns_dup : let (st, c) := required_dup (SS A0 next0) so in owns st c.
  Proof.
    unfold required_dup. destruct (g_len so) eqn:E; unfold owns; cbn [ss_arrays ss_next g_arr g_len g_cap].
    - split; [lia|]. split; [reflexivity|]. split; [now left|lia].
    - split; [lia|]. split; [apply alookup_other; lia|]. split; [right; lia|lia].
  Qed.

  Lemma required_dup_reads : let (st, c) := required_dup (SS A0 next0) so in sread (ss_arrays st) c = sread A0 so.
  Proof.
    unfold required_dup. destruct (g_len so) eqn:E; cbn [ss_arrays ss_next].
    - unfold sread. cbn [g_len]. now rewrite E.
    - unfold sread. cbn [g_arr g_len alookup]. rewrite Nat.eqb_refl, E, firstn_firstn. now rewrite Nat.min_id.
  Qed.

  (* whatever AddRequired / RemoveRequired do to the copy, the original reads what it read *)
  Lemma required_independent ops :
    let (st1, c) := required_dup (SS A0 next0) so in
    let (st2, c') := run_rops ops st1 c in
    sread (ss_arrays st2) so = sread A0 so.
  Proof.
    pose proof owns_dup as H. destruct (required_dup (SS A0 next0) so) as [st1 c].
    pose proof (owns_run ops st1 c H) as H2. destruct (run_rops ops st1 c) as [st2 c'].
    destruct H2 as (_ & Ha & _). unfold sread. now rewrite Ha.
  Qed.
End RequiredSlices.

(* without the copy of the array (the slice header copied, as a struct copy of the
   ValidationExpr would do) RemoveRequired through the alias changes what the original reads *)
Lemma required_alias_leaks :
  exists A s x, let (st, _) := remove_required (SS A 1) s x in sread (ss_arrays st) s <> sread A s.
Proof.
  exists [(0, [[97%N]; [98%N]])], (GS 0 2 2), [97%N]. vm_compute. discriminate.
Qed.
