(* TypeGraph engine — proofs. *)
From TypeGraph Require Import Model.
From Coq Require Import Lia Permutation Sorted ZifyBool ZifyNat ZifyN.

(* ------------------------------------------------------------------ *)
(* byte strings: < is a strict total order                              *)
(* ------------------------------------------------------------------ *)

Lemma beq_eq a b : beq a b = true <-> a = b.
Proof.
  revert b; induction a as [|x a IH]; destruct b as [|y b]; simpl; split; intro H; try easy.
  - apply andb_true_iff in H as [H1 H2]. apply N.eqb_eq in H1. apply IH in H2. now subst.
  - inversion H; subst. apply andb_true_iff; split; [apply N.eqb_refl | now apply IH].
Qed.

Lemma beq_refl a : beq a a = true.
Proof. now apply beq_eq. Qed.

Lemma blt_irrefl a : blt a a = false.
Proof.
  induction a as [|x a IH]; simpl; [reflexivity|].
  rewrite N.ltb_irrefl, N.eqb_refl. exact IH.
Qed.

Lemma blt_trans a b c : blt a b = true -> blt b c = true -> blt a c = true.
Proof.
  revert b c; induction a as [|x a IH]; intros [|y b] [|z c]; simpl; try easy.
  destruct (N.ltb x y) eqn:Hxy.
  - destruct (N.ltb y z) eqn:Hyz.
    + intros _ _. assert (N.ltb x z = true) as -> by lia. reflexivity.
    + destruct (N.eqb y z) eqn:Eyz; [|easy]. intros _ _.
      assert (N.ltb x z = true) as -> by lia. reflexivity.
  - destruct (N.eqb x y) eqn:Exy; [|easy]. apply N.eqb_eq in Exy; subst y.
    destruct (N.ltb x z) eqn:Hxz; [easy|].
    destruct (N.eqb x z) eqn:Exz; [|easy]. apply IH.
Qed.

Lemma blt_total a b : blt a b = true \/ a = b \/ blt b a = true.
Proof.
  revert b; induction a as [|x a IH]; intros [|y b]; simpl; auto.
  destruct (N.ltb x y) eqn:Hxy; [auto|].
  destruct (N.eqb x y) eqn:Exy.
  - apply N.eqb_eq in Exy; subst y. rewrite N.ltb_irrefl, N.eqb_refl.
    destruct (IH b) as [H|[H|H]]; auto. subst; auto.
  - right; right. assert (N.ltb y x = true) as -> by lia. reflexivity.
Qed.

Lemma blt_asym a b : blt a b = true -> blt b a = false.
Proof.
  intro H. destruct (blt b a) eqn:E; [|reflexivity].
  pose proof (blt_trans _ _ _ H E) as C. now rewrite blt_irrefl in C.
Qed.

(* ------------------------------------------------------------------ *)
(* sorting a list with pairwise distinct keys is canonical              *)
(* ------------------------------------------------------------------ *)

Section SortFacts.
  Context {A : Type} (key : A -> bytes).
  Let lt (x y : A) : Prop := blt (key x) (key y) = true.
  Let sorted := StronglySorted lt.

  Lemma insert_perm x l : Permutation (x :: l) (insert key x l).
  Proof.
    induction l as [|y r IH]; simpl; [reflexivity|].
    destruct (blt (key y) (key x)); [|reflexivity].
    rewrite perm_swap. now constructor.
  Qed.

  Lemma isort_perm l : Permutation l (isort key l).
  Proof.
    induction l as [|x r IH]; simpl; [constructor|].
    rewrite <- insert_perm. now constructor.
  Qed.

  Lemma insert_sorted x l :
    sorted l -> ~ In (key x) (map key l) -> sorted (insert key x l).
  Proof.
    intros Hs. induction Hs as [|y r Hr IH Hy]; intro Hn; simpl.
    - repeat constructor.
    - destruct (blt (key y) (key x)) eqn:E.
      + constructor.
        * apply IH. intro C. apply Hn. now right.
        * rewrite Forall_forall in *. intros z Hz.
          apply (Permutation_in _ (Permutation_sym (insert_perm x r))) in Hz.
          destruct Hz as [<-|Hz]; [exact E | now apply Hy].
      + assert (Hxy : lt x y).
        { destruct (blt_total (key x) (key y)) as [H|[H|H]]; [exact H| |unfold lt in *; congruence].
          exfalso. apply Hn. left. now symmetry. }
        constructor; [now constructor|].
        constructor; [exact Hxy|].
        rewrite Forall_forall in *. intros z Hz. unfold lt. eapply blt_trans; [exact Hxy|now apply Hy].
  Qed.

  Lemma isort_sorted l : NoDup (map key l) -> sorted (isort key l).
  Proof.
    induction l as [|x r IH]; simpl; intro Hn; [constructor|].
    inversion Hn as [|? ? Hx Hr]; subst.
    apply insert_sorted; [now apply IH|].
    intro C. apply Hx.
    eapply Permutation_in; [|exact C].
    apply Permutation_map, Permutation_sym, isort_perm.
  Qed.

  Lemma sorted_perm_eq l1 l2 : sorted l1 -> sorted l2 -> Permutation l1 l2 -> l1 = l2.
  Proof.
    intros H1; revert l2; induction H1 as [|x r1 Hr1 IH Hx]; intros l2 H2 Hp.
    - now apply Permutation_nil in Hp.
    - destruct l2 as [|y r2]; [now apply Permutation_sym, Permutation_nil in Hp|].
      inversion H2 as [|? ? Hr2 Hy]; subst.
      assert (x = y) as ->.
      { assert (Hin : In x (y :: r2)) by (eapply Permutation_in; [exact Hp|now left]).
        destruct Hin as [E|Hin]; [now symmetry|].
        assert (Hin' : In y (x :: r1)) by (eapply Permutation_in; [exact (Permutation_sym Hp)|now left]).
        destruct Hin' as [E|Hin']; [exact E|].
        rewrite Forall_forall in Hx, Hy.
        pose proof (Hx _ Hin') as L1. pose proof (Hy _ Hin) as L2. unfold lt in *.
        apply blt_asym in L1. congruence. }
      f_equal. apply IH; [exact Hr2|]. now apply Permutation_cons_inv in Hp.
  Qed.

  Theorem isort_canonical l l' :
    Permutation l l' -> NoDup (map key l) -> isort key l = isort key l'.
  Proof.
    intros Hp Hn.
    assert (Hn' : NoDup (map key l')).
    { eapply Permutation_NoDup; [|exact Hn]. now apply Permutation_map. }
    apply sorted_perm_eq; try now apply isort_sorted.
    rewrite <- (isort_perm l), <- (isort_perm l'). exact Hp.
  Qed.

  (* sorting does not change an already sorted list *)
  Lemma insert_lt_head x l : Forall (lt x) l -> insert key x l = x :: l.
  Proof.
    destruct l as [|y r]; simpl; [reflexivity|]. intro H. inversion H as [|? ? Hxy _]; subst.
    unfold lt in Hxy. now rewrite (blt_asym _ _ Hxy).
  Qed.

  Lemma isort_sorted_id l : sorted l -> isort key l = l.
  Proof.
    induction 1 as [|x r Hr IH Hx]; simpl; [reflexivity|]. rewrite IH. now apply insert_lt_head.
  Qed.

  Lemma isort_idem l : NoDup (map key l) -> isort key (isort key l) = isort key l.
  Proof. intro H. now apply isort_sorted_id, isort_sorted. Qed.
End SortFacts.

(* ------------------------------------------------------------------ *)
(* permutation invariance of the hash                                   *)
(* ------------------------------------------------------------------ *)

Lemma hash_obj_perm fuel fl E k fs fs' s :
  Permutation fs fs' -> NoDup (map fname fs) ->
  hash fuel fl E (TObj k fs) s = hash fuel fl E (TObj k fs') s.
Proof.
  intros Hp Hn. destruct fuel as [|n]; [reflexivity|]. simpl.
  now rewrite (isort_canonical fname fs fs' Hp Hn).
Qed.

Lemma hash_union_perm fuel fl E nm vs vs' s :
  Permutation vs vs' -> NoDup (map fname vs) ->
  hash fuel fl E (TUnion nm vs) s = hash fuel fl E (TUnion nm vs') s.
Proof.
  intros Hp Hn. destruct fuel as [|n]; [reflexivity|]. simpl.
  now rewrite (isort_canonical fname vs vs' Hp Hn).
Qed.

Lemma filter_perm {A} (f : A -> bool) l l' : Permutation l l' -> Permutation (filter f l) (filter f l').
Proof.
  induction 1; simpl; try constructor.
  - destruct (f x); [now constructor|assumption].
  - destruct (f x), (f y); try constructor; reflexivity.
  - etransitivity; eassumption.
Qed.

Lemma NoDup_map_filter {A B} (g : A -> B) (f : A -> bool) l : NoDup (map g l) -> NoDup (map g (filter f l)).
Proof.
  induction l as [|x r IH]; simpl; intro H; [constructor|].
  inversion H as [|? ? Hx Hr]; subst. destruct (f x); simpl; [|now apply IH].
  constructor; [|now apply IH]. intro C. apply Hx.
  apply in_map_iff in C as (y & Ey & Hy). apply filter_In in Hy as [Hy _].
  apply in_map_iff. now exists y.
Qed.

Lemma tags_perm m m' : Permutation m m' -> NoDup (map fst m) -> tags m = tags m'.
Proof.
  intros Hp Hn. unfold tags, tag_entries. f_equal.
  apply isort_canonical; [now apply filter_perm | now apply NoDup_map_filter].
Qed.

(* the meta of an attribute of an object, of the attribute of a user type *)
Definition set_meta (i : ainfo) (m : meta) : ainfo :=
  AI m (a_val i) (a_desc i) (a_docs i) (a_other i).

(* ------------------------------------------------------------------ *)
(* termination: the budget fuel_bound suffices for every guarded graph  *)
(* ------------------------------------------------------------------ *)

Lemma maxl_in x l : In x l -> x <= maxl l.
Proof. induction l as [|y r IH]; simpl; [easy|]. intros [->|H]; [lia|]. apply IH in H. lia. Qed.

Lemma maxl_le_bound l b : (forall x, In x l -> x <= b) -> maxl l <= b.
Proof.
  induction l as [|y r IH]; simpl; intro H; [lia|].
  assert (y <= b) by (apply H; now left). assert (maxl r <= b) by (apply IH; intros; apply H; now right). lia.
Qed.

Lemma maxl_incl {A} (g : A -> nat) l l' : incl l l' -> maxl (map g l) <= maxl (map g l').
Proof.
  intro H. apply maxl_le_bound. intros x Hx. apply in_map_iff in Hx as (a & <- & Ha).
  apply maxl_in, in_map, H, Ha.
Qed.

Lemma in_isort {A} (key : A -> bytes) x l : In x (isort key l) <-> In x l.
Proof.
  split; intro H.
  - eapply Permutation_in; [apply Permutation_sym, isort_perm|exact H].
  - eapply Permutation_in; [apply isort_perm|exact H].
Qed.

(* keys bound in a seen map *)
Definition is_seen (k : nat) (s : seen) : bool := match slookup k s with Some _ => true | None => false end.
Definition sub_seen (s s' : seen) : Prop := forall k, is_seen k s = true -> is_seen k s' = true.

Lemma sub_seen_refl s : sub_seen s s.
Proof. intros k H; exact H. Qed.
Lemma sub_seen_trans a b c : sub_seen a b -> sub_seen b c -> sub_seen a c.
Proof. intros H1 H2 k H. apply H2, H1, H. Qed.
Lemma sub_seen_cons k v s : sub_seen s ((k, v) :: s).
Proof. intros k' H. unfold is_seen in *. simpl. destruct (Nat.eqb k' k); [reflexivity|exact H]. Qed.

Definition unseen (U : list nat) (s : seen) : nat := length (filter (fun k => negb (is_seen k s)) U).

Lemma unseen_mono U s s' : sub_seen s s' -> unseen U s' <= unseen U s.
Proof.
  intro H. unfold unseen. induction U as [|k U IH]; simpl; [lia|].
  destruct (is_seen k s) eqn:E.
  - rewrite (H _ E). simpl. exact IH.
  - simpl. destruct (is_seen k s'); simpl; lia.
Qed.

Lemma unseen_cons_lt U k v s : In k U -> is_seen k s = false -> unseen U ((k, v) :: s) < unseen U s.
Proof.
  intros Hin Hk. unfold unseen. induction U as [|x U IH]; [easy|]. simpl.
  assert (Hle : length (filter (fun k0 => negb (is_seen k0 ((k, v) :: s))) U)
                <= length (filter (fun k0 => negb (is_seen k0 s)) U))
    by (apply (unseen_mono U), sub_seen_cons).
  destruct Hin as [->|Hin].
  - rewrite Hk. unfold is_seen at 1. simpl. rewrite Nat.eqb_refl. simpl. lia.
  - specialize (IH Hin).
    destruct (is_seen x s) eqn:E.
    + rewrite (sub_seen_cons k v s _ E). simpl. exact IH.
    + simpl. destruct (is_seen x ((k, v) :: s)); simpl; lia.
Qed.

(* unfolding equations of the two loops *)
Lemma hash_values_nil rec acc s : hash_values rec [] acc s = Some (acc, s).
Proof. reflexivity. Qed.
Lemma hash_values_cons rec f r acc s :
  hash_values rec (f :: r) acc s =
  match rec (ftype f) s with
  | None => None
  | Some (h, s') => hash_values rec r (acc ++ unionAttributePrefix ++ fname f ++ unionAttributeTypePrefix ++ h) s'
  end.
Proof. reflexivity. Qed.
Lemma hash_fields_nil rec k igt acc s : hash_fields rec k igt [] acc s = Some (acc, s).
Proof. reflexivity. Qed.
Lemma hash_fields_cons rec k igt f r acc s :
  hash_fields rec k igt (f :: r) acc s =
  match rec (ftype f) s with
  | None => None
  | Some (h, s') =>
    let acc' := acc ++ attributePrefix ++ fname f ++ attributeTypePrefix ++ h
                    ++ (if igt then [] else tags (a_meta (finfo f))) in
    hash_fields rec k igt r acc' ((k, acc') :: s')
  end.
Proof. reflexivity. Qed.

Arguments hash_values : simpl never.
Arguments hash_fields : simpl never.

(* induction over the nested type *)
Section TyInd.
  Variable P : ty -> Prop.
  Hypothesis Hp : forall p, P (TPrim p).
  Hypothesis Ha : forall i e, P e -> P (TArr i e).
  Hypothesis Hm : forall ki k ei e, P k -> P e -> P (TMap ki k ei e).
  Hypothesis Ho : forall key fs, Forall (fun f => P (ftype f)) fs -> P (TObj key fs).
  Hypothesis Hu : forall n vs, Forall (fun f => P (ftype f)) vs -> P (TUnion n vs).
  Hypothesis Hus : forall id, P (TUser id).
  Fixpoint ty_ind' (t : ty) : P t :=
    match t with
    | TPrim p => Hp p
    | TArr i e => Ha i e (ty_ind' e)
    | TMap ki k ei e => Hm ki k ei e (ty_ind' k) (ty_ind' e)
    | TObj key fs =>
      Ho key fs ((fix go (l : list (fld ty)) : Forall (fun f => P (ftype f)) l :=
                    match l with
                    | [] => Forall_nil _
                    | f :: r => Forall_cons f (ty_ind' (ftype f)) (go r)
                    end) fs)
    | TUnion n vs =>
      Hu n vs ((fix go (l : list (fld ty)) : Forall (fun f => P (ftype f)) l :=
                  match l with
                  | [] => Forall_nil _
                  | f :: r => Forall_cons f (ty_ind' (ftype f)) (go r)
                  end) vs)
    | TUser id => Hus id
    end.
End TyInd.

Lemma incl_flat_map {A B} (f g : A -> list B) l :
  (forall x, In x l -> incl (f x) (g x)) -> incl (flat_map f l) (flat_map g l).
Proof.
  intros H y Hy. apply in_flat_map in Hy as (x & Hx & Hy). apply in_flat_map. exists x. split; [exact Hx|]. now apply (H x Hx).
Qed.

Lemma open_users_sub t : incl (open_users t) (users_ty t).
Proof.
  induction t as [p|i e IH|ki k ei e IHk IHe|key fs IH|n vs IH|id] using ty_ind'; simpl; try easy.
  - now apply incl_app_app.
  - apply incl_flat_map. intros f Hf. rewrite Forall_forall in IH. now apply IH.
Qed.

Section Termination.
  Variables (E : env) (rank : nat -> nat) (U : list nat) (D R : nat).

  Definition rk (t : ty) : nat := maxl (map (fun v => S (rank v)) (open_users t)).
  Definition mu (t : ty) : nat := depth t + (S D) * rk t.
  Definition bigM : nat := S ((S D) * (S (S R))).

  Definition wf_ty (t : ty) : Prop :=
    depth t <= D /\ incl (keys_ty t) U /\
    (forall v, In v (users_ty t) -> elookup v E <> None /\ rank v <= R).

  Definition wf_env : Prop :=
    forall id d, elookup id E = Some d ->
      wf_ty (ut_type d) /\ (forall v, In v (open_users (ut_type d)) -> rank v < rank id).


  Lemma wf_ty_sub t t' :
    wf_ty t -> depth t' <= depth t -> incl (keys_ty t') (keys_ty t) -> incl (users_ty t') (users_ty t) -> wf_ty t'.
  Proof.
    intros (Hd & Hk & Hu) H1 H2 H3. split; [lia|]. split.
    - intros x Hx. apply Hk, H2, Hx.
    - intros v Hv. apply Hu, H3, Hv.
  Qed.

  (* sub-terms of a well-formed type are well formed and smaller *)
  Lemma wf_field_obj key fs f : wf_ty (TObj key fs) -> In f fs -> wf_ty (ftype f) /\ depth (ftype f) < depth (TObj key fs).
  Proof.
    intros (Hd & Hk & Hu) Hf. simpl in *.
    assert (Hdf : depth (ftype f) <= maxl (map (fun f => depth (ftype f)) fs))
      by (apply maxl_in, (in_map (fun f => depth (ftype f))), Hf).
    repeat split; try lia.
    - intros k Hin. apply Hk. right. apply in_flat_map. now exists f.
    - apply Hu. apply in_flat_map. now exists f.
    - apply Hu. apply in_flat_map. now exists f.
  Qed.

  Lemma wf_field_union n vs f : wf_ty (TUnion n vs) -> In f vs ->
    wf_ty (ftype f) /\ depth (ftype f) < depth (TUnion n vs) /\ rk (ftype f) <= rk (TUnion n vs).
  Proof.
    intros (Hd & Hk & Hu) Hf. simpl in *.
    assert (Hdf : depth (ftype f) <= maxl (map (fun f => depth (ftype f)) vs))
      by (apply maxl_in, (in_map (fun f => depth (ftype f))), Hf).
    repeat split; try lia.
    - intros k Hin. apply Hk. apply in_flat_map. now exists f.
    - apply Hu. apply in_flat_map. now exists f.
    - apply Hu. apply in_flat_map. now exists f.
    - unfold rk. apply maxl_incl. simpl. intros v Hv. apply in_flat_map. now exists f.
  Qed.

  Lemma rk_le t : wf_ty t -> rk t <= S R.
  Proof.
    intros (_ & _ & Hu). unfold rk. apply maxl_le_bound. intros x Hx.
    apply in_map_iff in Hx as (v & <- & Hv). apply open_users_sub in Hv. destruct (Hu v Hv). lia.
  Qed.

  Lemma mu_lt_bigM t : wf_ty t -> mu t < bigM.
  Proof.
    intro H. pose proof (rk_le t H) as Hr. destruct H as (Hd & _). unfold mu, bigM.
    assert (S D * rk t <= S D * S R) by (apply Nat.mul_le_mono_l; exact Hr). lia.
  Qed.

  Lemma hash_values_total (rec : ty -> seen -> hres) vs s0 :
    (forall f s, In f vs -> sub_seen s0 s -> exists h s', rec (ftype f) s = Some (h, s') /\ sub_seen s s') ->
    forall acc s, sub_seen s0 s -> exists h s', hash_values rec vs acc s = Some (h, s') /\ sub_seen s s'.
  Proof.
    induction vs as [|f r IH]; intros Hrec acc s Hs.
    - exists acc, s. split; [reflexivity|apply sub_seen_refl].
    - rewrite hash_values_cons. destruct (Hrec f s (or_introl eq_refl) Hs) as (h & s1 & -> & H1).
      destruct (IH (fun f' s' Hf' => Hrec f' s' (or_intror Hf'))
                   (acc ++ unionAttributePrefix ++ fname f ++ unionAttributeTypePrefix ++ h) s1
                   (sub_seen_trans _ _ _ Hs H1)) as (h2 & s2 & -> & H2).
      exists h2, s2. split; [reflexivity|]. eapply sub_seen_trans; eassumption.
  Qed.

  Lemma hash_fields_total (rec : ty -> seen -> hres) k igt fs s0 :
    (forall f s, In f fs -> sub_seen s0 s -> exists h s', rec (ftype f) s = Some (h, s') /\ sub_seen s s') ->
    forall acc s, sub_seen s0 s -> exists h s', hash_fields rec k igt fs acc s = Some (h, s') /\ sub_seen s s'.
  Proof.
    induction fs as [|f r IH]; intros Hrec acc s Hs.
    - exists acc, s. split; [reflexivity|apply sub_seen_refl].
    - rewrite hash_fields_cons. destruct (Hrec f s (or_introl eq_refl) Hs) as (h & s1 & -> & H1). cbv zeta.
      match goal with |- context [hash_fields rec k igt r ?a ?st] =>
        destruct (IH (fun f' s' Hf' => Hrec f' s' (or_intror Hf')) a st) as (h2 & s2 & -> & H2)
      end.
      { eapply sub_seen_trans; [exact Hs|]. eapply sub_seen_trans; [exact H1|apply sub_seen_cons]. }
      exists h2, s2. split; [reflexivity|].
      eapply sub_seen_trans; [exact H1|]. eapply sub_seen_trans; [apply sub_seen_cons|exact H2].
  Qed.

  Lemma mul_step a b m : a < b -> m < bigM -> a * bigM + m < b * bigM.
  Proof. intros H1 H2. assert (S a * bigM <= b * bigM) by (apply Nat.mul_le_mono_r; lia). lia. Qed.

  Lemma hash_total fl : wf_env ->
    forall fuel t s, wf_ty t -> fuel > unseen U s * bigM + mu t ->
      exists h s', hash fuel fl E t s = Some (h, s') /\ sub_seen s s'.
  Proof.
    intro HE. induction fuel as [|n IH]; intros t s Hwf Hfuel; [lia|].
    destruct t as [p|i e|ki k ei e|key fs|nm vs|id]; simpl.
    - exists (prim_name p), s. split; [reflexivity|apply sub_seen_refl].
    - (* array *)
      assert (Hwe : wf_ty e).
      { apply (wf_ty_sub _ _ Hwf); simpl; [lia|apply incl_refl|apply incl_refl]. }
      destruct (IH e s Hwe) as (h & s1 & -> & H1).
      { unfold mu, rk in *. simpl in *. lia. }
      eexists _, s1. split; [reflexivity|exact H1].
    - (* map *)
      assert (Hwk : wf_ty k).
      { apply (wf_ty_sub _ _ Hwf); simpl; [lia|apply incl_appl, incl_refl|apply incl_appl, incl_refl]. }
      assert (Hwe : wf_ty e).
      { apply (wf_ty_sub _ _ Hwf); simpl; [lia|apply incl_appr, incl_refl|apply incl_appr, incl_refl]. }
      assert (Hrk : rk k <= rk (TMap ki k ei e) /\ rk e <= rk (TMap ki k ei e)).
      { unfold rk. simpl. split; apply maxl_incl; intros x Hx; apply in_or_app; auto. }
      assert (Hmk : mu k < mu (TMap ki k ei e) /\ mu e < mu (TMap ki k ei e)).
      { unfold mu. simpl. destruct Hrk as [Ha Hb].
        assert (S D * rk k <= S D * rk (TMap ki k ei e)) by (apply Nat.mul_le_mono_l; exact Ha).
        assert (S D * rk e <= S D * rk (TMap ki k ei e)) by (apply Nat.mul_le_mono_l; exact Hb).
        simpl in *. lia. }
      destruct (IH k s Hwk) as (hk & s1 & -> & H1); [lia|].
      destruct (IH e s1 Hwe) as (he & s2 & -> & H2).
      { pose proof (unseen_mono U _ _ H1).
        assert (unseen U s1 * bigM <= unseen U s * bigM) by (apply Nat.mul_le_mono_r; assumption). lia. }
      eexists _, s2. split; [reflexivity|]. eapply sub_seen_trans; eassumption.
    - (* object *)
      destruct (slookup key s) as [str|] eqn:Hl.
      + exists str, s. split; [reflexivity|apply sub_seen_refl].
      + assert (Hkey : In key U) by (destruct Hwf as (_ & Hk & _); apply Hk; simpl; now left).
        assert (Hns : is_seen key s = false) by (unfold is_seen; now rewrite Hl).
        pose proof (unseen_cons_lt U key objectPrefix s Hkey Hns) as Hlt.
        destruct (hash_fields_total (hash n fl E) key (igT fl) (isort fname fs) ((key, objectPrefix) :: s))
          with (acc := objectPrefix) (s := (key, objectPrefix) :: s) as (h & s1 & -> & H1).
        * intros f s' Hf Hs'. apply in_isort in Hf.
          destruct (wf_field_obj key fs f Hwf Hf) as [Hwff _].
          apply IH; [exact Hwff|].
          pose proof (unseen_mono U _ _ Hs') as Hm.
          pose proof (mu_lt_bigM _ Hwff) as Hmu.
          assert (unseen U s' * bigM + mu (ftype f) < unseen U s * bigM) by (apply mul_step; lia).
          lia.
        * apply sub_seen_refl.
        * exists h, s1. split; [reflexivity|]. eapply sub_seen_trans; [apply sub_seen_cons|exact H1].
    - (* union *)
      match goal with |- context [hash_values ?r ?l ?a ?st] =>
        destruct (hash_values_total r l st) with (acc := a) (s := st) as (h & s1 & -> & H1) end.
      + intros f s' Hf Hs'. apply in_isort in Hf.
        destruct (wf_field_union nm vs f Hwf Hf) as (Hwff & Hdf & Hrf).
        apply IH; [exact Hwff|].
        pose proof (unseen_mono U _ _ Hs') as Hm.
        assert (unseen U s' * bigM <= unseen U s * bigM) by (apply Nat.mul_le_mono_r; assumption).
        assert (S D * rk (ftype f) <= S D * rk (TUnion nm vs)) by (apply Nat.mul_le_mono_l; exact Hrf).
        unfold mu in *. lia.
      + apply sub_seen_refl.
      + exists h, s1. split; [reflexivity|exact H1].
    - (* user type *)
      destruct Hwf as (Hd & Hk & Hu). destruct (Hu id (or_introl eq_refl)) as [Hdom Hr].
      destruct (elookup id E) as [d|] eqn:Hl; [|congruence].
      destruct (igF fl).
      + eexists _, s. split; [reflexivity|apply sub_seen_refl].
      + destruct (HE id d Hl) as [Hwb Hg].
        destruct (IH (ut_type d) s Hwb) as (hb & s1 & -> & H1).
        { assert (Hrb : rk (ut_type d) <= rank id).
          { unfold rk. apply maxl_le_bound. intros x Hx. apply in_map_iff in Hx as (v & <- & Hv).
            apply Hg in Hv. lia. }
          destruct Hwb as (Hdb & _).
          assert (S D * rk (ut_type d) <= S D * rank id) by (apply Nat.mul_le_mono_l; exact Hrb).
          unfold mu, rk in *. simpl in *. lia. }
        eexists _, s1. split; [reflexivity|exact H1].
  Qed.
End Termination.

(* closed statement with the budget of the model *)
Lemma hash_terminates_lemma E rank R t fl :
  wf_env E rank (keys_ty t ++ env_keys E) (Nat.max (depth t) (env_depth E)) R ->
  wf_ty E rank (keys_ty t ++ env_keys E) (Nat.max (depth t) (env_depth E)) R t ->
  exists h, Hash (fuel_bound E t R) fl E t = Some h.
Proof.
  intros HE Ht. unfold Hash.
  destruct (hash_total E rank _ _ R fl HE (fuel_bound E t R) t [] Ht) as (h & s' & -> & _).
  - pose proof (mu_lt_bigM E rank _ _ R t Ht) as Hmu.
    unfold fuel_bound, fuel_of. fold (bigM (Nat.max (depth t) (env_depth E)) R).
    unfold unseen. simpl.
    assert (Hf : length (filter (fun k => negb (is_seen k [])) (keys_ty t ++ env_keys E)) <= length (keys_ty t ++ env_keys E))
      by apply filter_length_le.
    set (K := length (keys_ty t ++ env_keys E)) in *.
    set (M := bigM (Nat.max (depth t) (env_depth E)) R) in *.
    assert (length (filter (fun k => negb (is_seen k [])) (keys_ty t ++ env_keys E)) * M <= K * M)
      by (apply Nat.mul_le_mono_r; exact Hf).
    simpl. lia.
  - now exists h.
Qed.
