(* Correspondence glue: the observations the harness makes of the Go code, the same
   observations computed from the model, and the comparisons evaluated by vm_compute on
   the cases the harness wrote. Go strings arrive packed 7 bytes per primitive integer
   (long literals of list N elaborate slowly). *)
From TypeGraph Require Import Model.
From Coq Require Export Uint63.
From Coq Require Import ZArith.

Definition ai0 : ainfo := AI [] None [] false [].

Record packed := P { plen : int; pchunks : list int }.

Definition int_of_byte (b : N) : int := Uint63.of_Z (Z.of_N b).

(* little endian, 7 bytes per integer *)
Fixpoint pack_chunks (bs : bytes) : list int :=
  match bs with
  | [] => []
  | [a] => [int_of_byte a]
  | [a; b] => [int_of_byte a + (int_of_byte b << 8)]%uint63
  | [a; b; c] => [int_of_byte a + (int_of_byte b << 8) + (int_of_byte c << 16)]%uint63
  | [a; b; c; d] => [int_of_byte a + (int_of_byte b << 8) + (int_of_byte c << 16) + (int_of_byte d << 24)]%uint63
  | [a; b; c; d; e] =>
    [int_of_byte a + (int_of_byte b << 8) + (int_of_byte c << 16) + (int_of_byte d << 24) + (int_of_byte e << 32)]%uint63
  | [a; b; c; d; e; f] =>
    [int_of_byte a + (int_of_byte b << 8) + (int_of_byte c << 16) + (int_of_byte d << 24) + (int_of_byte e << 32)
     + (int_of_byte f << 40)]%uint63
  | a :: b :: c :: d :: e :: f :: g :: r =>
    (int_of_byte a + (int_of_byte b << 8) + (int_of_byte c << 16) + (int_of_byte d << 24) + (int_of_byte e << 32)
     + (int_of_byte f << 40) + (int_of_byte g << 48))%uint63 :: pack_chunks r
  end.

Fixpoint ints_eqb (a b : list int) : bool :=
  match a, b with
  | [], [] => true
  | x :: a', y :: b' => Uint63.eqb x y && ints_eqb a' b'
  | _, _ => false
  end.

Definition same_string (model : bytes) (obs : packed) : bool :=
  Uint63.eqb (Uint63.of_Z (Z.of_nat (length model))) (plen obs) && ints_eqb (pack_chunks model) (pchunks obs).

Definition all_flags : list flags :=
  [FL false false false; FL false false true; FL false true false; FL false true true;
   FL true false false; FL true false true; FL true true false; FL true true true].

(* the budget the harness runs the model with: the bound of hash_terminates with the
   number of user types standing for the largest rank *)
Definition run_fuel (E : env) (t : ty) : nat := fuel_bound E t (length E).

(* what the harness reports about one observed string: the string itself; or, for a
   string of more than 512 bytes, its length, a rolling checksum and its first 511
   bytes; or that it is identical to an earlier string of the same case *)
Inductive obs :=
| X (p : packed)
| D (len : int) (roll : int) (prefix : packed)
| R (k : nat).

Definition roll_of (bs : bytes) : int :=
  fold_left (fun h b => (h * 1000003 + int_of_byte b)%uint63) bs 0%uint63.

Definition same_obs (models : list (option bytes)) (model : option bytes) (o : obs) : bool :=
  match model with
  | None => false
  | Some h =>
    match o with
    | X p => same_string h p
    | D len roll prefix =>
      Uint63.eqb (Uint63.of_Z (Z.of_nat (length h))) len && Uint63.eqb (roll_of h) roll
      && same_string (firstn 511 h) prefix
    | R k => match nth_error models k with Some (Some h') => beq h h' | _ => false end
    end
  end.

Fixpoint all_same (models rest : list (option bytes)) (os : list obs) : bool :=
  match rest, os with
  | [], [] => true
  | m :: rest', o :: os' => same_obs models m o && all_same models rest' os'
  | _, _ => false
  end.

(* eight flag vectors of expr.Hash, then the Hash method of the type *)
Definition hash_mismatches (cs : list (nat * env * ty * list obs)) : list nat :=
  flat_map (fun c => match c with (i, E, t, os) =>
     let fuel := run_fuel E t in
     let models := map (fun fl => Hash fuel fl E t) (all_flags ++ [method_flags]) in
     if all_same models models os then [] else [i] end) cs.

Definition equal_mismatches (cs : list (nat * env * ty * env * ty * bool)) : list nat :=
  flat_map (fun c => match c with (i, E1, t1, E2, t2, eq) =>
     match Equal (Nat.max (run_fuel E1 t1) (run_fuel E2 t2)) E1 t1 E2 t2 with
     | Some b => if Bool.eqb b eq then [] else [i]
     | None => [i]
     end end) cs.
