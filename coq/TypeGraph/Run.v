(* Correspondence glue: the observations the harness makes of the Go code, the same
   observations computed from the model, and the comparisons evaluated by vm_compute on
   the cases the harness wrote.

   Case files are large, and elaborating a term costs time per node, so the harness
   writes a compact "wire" form — monomorphic constructors, primitive integers for
   pointers and indexes, Go strings packed 7 bytes per primitive integer — which is
   converted here to the types of Model.v before the model is run. *)
From TypeGraph Require Import Model.
From Coq Require Export Uint63.
From Coq Require Import ZArith.

Definition nat_of_int (i : int) : nat := Z.to_nat (Uint63.to_Z i).
Definition int_of_byte (b : N) : int := Uint63.of_Z (Z.of_N b).

(* ---- wire form ---- *)
Inductive ints := IN | IC (x : int) (r : ints).
Inductive wstrs := SN | SC (s : bytes) (r : wstrs).
Inductive wmeta := MN | MC (k : bytes) (vs : wstrs) (r : wmeta).
(* attribute info: I0 nothing set; IM only a meta; IF everything
   (hasval: Validation != nil, then req / vother are its Required and the rest) *)
Inductive winfo :=
| I0
| IM (m : wmeta)
| IF (m : wmeta) (hasval : bool) (req : wstrs) (vother desc : bytes) (docs : bool) (other : bytes).

Inductive wty :=
| Wp (p : prim)
| Wa (i : winfo) (e : wty)
| Wm (ki : winfo) (k : wty) (ei : winfo) (e : wty)
| Wo (key : int) (fs : wfs)
| Wu (n : bytes) (fs : wfs)
| Wr (id : int)
with wfs := FN | FC (n : bytes) (i : winfo) (t : wty) (r : wfs).

Inductive wrt := RN | RS (ident ctype : bytes) (views : ints).
Inductive wenv := EN | EC (id : int) (name uid : bytes) (i : winfo) (t : wty) (rt : wrt) (r : wenv).

Fixpoint strs_of (w : wstrs) : list bytes := match w with SN => [] | SC s r => s :: strs_of r end.
Fixpoint meta_of (w : wmeta) : meta := match w with MN => [] | MC k vs r => (k, strs_of vs) :: meta_of r end.
Fixpoint nats_of (w : ints) : list nat := match w with IN => [] | IC x r => nat_of_int x :: nats_of r end.
Fixpoint ints_of (w : ints) : list int := match w with IN => [] | IC x r => x :: ints_of r end.

Definition info_of (w : winfo) : ainfo :=
  match w with
  | I0 => AI [] None [] false []
  | IM m => AI (meta_of m) None [] false []
  | IF m hv req vo desc docs other =>
    AI (meta_of m) (if hv then Some (Val (strs_of req) vo) else None) desc docs other
  end.

Fixpoint ty_of (w : wty) : ty :=
  match w with
  | Wp p => TPrim p
  | Wa i e => TArr (info_of i) (ty_of e)
  | Wm ki k ei e => TMap (info_of ki) (ty_of k) (info_of ei) (ty_of e)
  | Wo key fs => TObj (nat_of_int key) (fs_of fs)
  | Wu n fs => TUnion n (fs_of fs)
  | Wr id => TUser (nat_of_int id)
  end
with fs_of (w : wfs) : list (fld ty) :=
  match w with
  | FN => []
  | FC n i t r => F n (info_of i) (ty_of t) :: fs_of r
  end.

Definition rt_of (w : wrt) : option rtinfo :=
  match w with RN => None | RS ident ctype views => Some (RT ident ctype (nats_of views)) end.

Fixpoint env_of (w : wenv) : env :=
  match w with
  | EN => []
  | EC id name uid i t rt r => (nat_of_int id, UT name uid (info_of i) (ty_of t) (rt_of rt)) :: env_of r
  end.

(* ---- observed strings ---- *)

(* little endian, 7 bytes per integer *)
Fixpoint pack_chunks (bs : bytes) : list int :=
  match bs with
  | [] => []
  | [a] => [int_of_byte a]
  | [a; b] => [int_of_byte a + (int_of_byte b << 8)]%uint63
  | [a; b; c] => [int_of_byte a + (int_of_byte b << 8) + (int_of_byte c << 16)]%uint63
  | [a; b; c; d] => [int_of_byte a + (int_of_byte b << 8) + (int_of_byte c << 16) + (int_of_byte d << 24)]%uint63
  | [a; b; c; d; e] =>
    [int_of_byte a + (int_of_byte b << 8) + (int_of_byte c << 16) + (int_of_byte d << 24) + (int_of_byte e << 32)]%uint63
  | [a; b; c; d; e; f] =>
    [int_of_byte a + (int_of_byte b << 8) + (int_of_byte c << 16) + (int_of_byte d << 24) + (int_of_byte e << 32)
     + (int_of_byte f << 40)]%uint63
  | a :: b :: c :: d :: e :: f :: g :: r =>
    (int_of_byte a + (int_of_byte b << 8) + (int_of_byte c << 16) + (int_of_byte d << 24) + (int_of_byte e << 32)
     + (int_of_byte f << 40) + (int_of_byte g << 48))%uint63 :: pack_chunks r
  end.

Fixpoint ints_eqb (a b : list int) : bool :=
  match a, b with
  | [], [] => true
  | x :: a', y :: b' => Uint63.eqb x y && ints_eqb a' b'
  | _, _ => false
  end.

Definition same_string (model : bytes) (len : int) (chunks : ints) : bool :=
  Uint63.eqb (Uint63.of_Z (Z.of_nat (length model))) len && ints_eqb (pack_chunks model) (ints_of chunks).

Definition roll_of (bs : bytes) : int :=
  fold_left (fun h b => (h * 1000003 + int_of_byte b)%uint63) bs 0%uint63.

(* what the harness reports about the observed strings of a case, in order: the string
   itself (OX); for a string of more than 512 bytes its length, a rolling checksum and
   its first 511 bytes (OD); or that it is identical to the k-th string of the case (OR) *)
Inductive wobs :=
| ON
| OX (len : int) (chunks : ints) (r : wobs)
| OD (len : int) (roll : int) (plen : int) (prefix : ints) (r : wobs)
| OR (k : int) (r : wobs).

Definition all_flags : list flags :=
  [FL false false false; FL false false true; FL false true false; FL false true true;
   FL true false false; FL true false true; FL true true false; FL true true true].

(* the budget the harness runs the model with: the bound of hash_terminates with the
   number of user types standing for the largest rank *)
Definition run_fuel (E : env) (t : ty) : nat := fuel_bound E t (length E).

Fixpoint all_same (models rest : list (option bytes)) (os : wobs) : bool :=
  match rest, os with
  | [], ON => true
  | Some h :: rest', OX len chunks os' => same_string h len chunks && all_same models rest' os'
  | Some h :: rest', OD len roll plen prefix os' =>
    Uint63.eqb (Uint63.of_Z (Z.of_nat (length h))) len && Uint63.eqb (roll_of h) roll
    && same_string (firstn 511 h) plen prefix && all_same models rest' os'
  | Some h :: rest', OR k os' =>
    match nth_error models (nat_of_int k) with Some (Some h') => beq h h' | _ => false end
    && all_same models rest' os'
  | _, _ => false
  end.

(* eight flag vectors of expr.Hash, then the Hash method of the type *)
Definition hash_ok (E : env) (t : ty) (os : wobs) : bool :=
  let fuel := run_fuel E t in
  let models := map (fun fl => Hash fuel fl E t) (all_flags ++ [method_flags]) in
  all_same models models os.

(* ---- shape of Dup's result ---- *)

Fixpoint list_eqb {A} (eqb : A -> A -> bool) (a b : list A) : bool :=
  match a, b with
  | [], [] => true
  | x :: a', y :: b' => eqb x y && list_eqb eqb a' b'
  | _, _ => false
  end.

Definition meta_eqb (a b : meta) : bool :=
  list_eqb (fun x y => beq (fst x) (fst y) && list_eqb beq (snd x) (snd y)) a b.

Definition val_eqb (a b : option validation) : bool :=
  match a, b with
  | None, None => true
  | Some x, Some y => list_eqb beq (v_required x) (v_required y) && beq (v_other x) (v_other y)
  | _, _ => false
  end.

Definition ainfo_eqb (a b : ainfo) : bool :=
  meta_eqb (a_meta a) (a_meta b) && val_eqb (a_val a) (a_val b) && beq (a_desc a) (a_desc b)
  && Bool.eqb (a_docs a) (a_docs b) && beq (a_other a) (a_other b).

Definition prim_eqb (a b : prim) : bool := beq (prim_name a) (prim_name b).

Fixpoint ty_eqb (a b : ty) : bool :=
  match a, b with
  | TPrim p, TPrim q => prim_eqb p q
  | TArr i e, TArr i' e' => ainfo_eqb i i' && ty_eqb e e'
  | TMap ki k ei e, TMap ki' k' ei' e' => ainfo_eqb ki ki' && ty_eqb k k' && ainfo_eqb ei ei' && ty_eqb e e'
  | TObj key fs, TObj key' fs' =>
    Nat.eqb key key' &&
    (fix go (l l' : list (fld ty)) : bool :=
       match l, l' with
       | [], [] => true
       | f :: r, f' :: r' => beq (fname f) (fname f') && ainfo_eqb (finfo f) (finfo f') && ty_eqb (ftype f) (ftype f') && go r r'
       | _, _ => false
       end) fs fs'
  | TUnion n vs, TUnion n' vs' =>
    beq n n' &&
    (fix go (l l' : list (fld ty)) : bool :=
       match l, l' with
       | [], [] => true
       | f :: r, f' :: r' => beq (fname f) (fname f') && ainfo_eqb (finfo f) (finfo f') && ty_eqb (ftype f) (ftype f') && go r r'
       | _, _ => false
       end) vs vs'
  | TUser id, TUser id' => Nat.eqb id id'
  | _, _ => false
  end.

Definition rt_eqb (a b : option rtinfo) : bool :=
  match a, b with
  | None, None => true
  | Some x, Some y => beq (rt_ident x) (rt_ident y) && beq (rt_ctype x) (rt_ctype y) && list_eqb Nat.eqb (rt_views x) (rt_views y)
  | _, _ => false
  end.

Definition utdef_eqb (a b : utdef) : bool :=
  beq (ut_name a) (ut_name b) && beq (ut_uid a) (ut_uid b) && ainfo_eqb (ut_info a) (ut_info b)
  && ty_eqb (ut_type a) (ut_type b) && rt_eqb (ut_rt a) (ut_rt b).

(* the observed user types of the copy are exactly the ones the model allocates *)
Definition env_same (model obs : env) : bool :=
  Nat.eqb (length model) (length obs) &&
  forallb (fun p => match elookup (fst p) model with Some d => utdef_eqb d (snd p) | None => false end) obs.

(* what Dup returned: the offsets that name fresh pointers, the user types reachable
   from the copy and its root; DN: not observed for this case *)
Inductive wdup := DN | DC (offu offk : int) (E' : wenv) (t' : wty).

Definition dup_ok (E : env) (t : ty) (d : wdup) : bool :=
  match d with
  | DN => true
  | DC offu offk E' t' =>
    match Dup E (nat_of_int offu) (nat_of_int offk) (dup_fuel E t) t with
    | Some (Em, tm) => ty_eqb tm (ty_of t') && env_same Em (env_of E')
    | None => false
    end
  end.

(* ---- cases ---- *)

(* one graph: index, user types, root, observed strings, observed copy *)
Inductive gcase := GC (idx : int) (E : wenv) (t : wty) (os : wobs) (d : wdup).

Definition graph_mismatches (cs : list gcase) : list nat :=
  flat_map (fun c => match c with GC i wE wt os d =>
     let E := env_of wE in let t := ty_of wt in
     if hash_ok E t os && dup_ok E t d then [] else [nat_of_int i] end) cs.

(* one pair: index, two graphs, observed expr.Equal *)
Inductive pcase := PC (idx : int) (E1 : wenv) (t1 : wty) (E2 : wenv) (t2 : wty) (eq : bool).

Definition equal_mismatches (cs : list pcase) : list nat :=
  flat_map (fun c => match c with PC i wE1 wt1 wE2 wt2 eq =>
     let E1 := env_of wE1 in let t1 := ty_of wt1 in let E2 := env_of wE2 in let t2 := ty_of wt2 in
     match Equal (Nat.max (run_fuel E1 t1) (run_fuel E2 t2)) E1 t1 E2 t2 with
     | Some b => if Bool.eqb b eq then [] else [nat_of_int i]
     | None => [nat_of_int i]
     end end) cs.

(* ---- Required slices under AddRequired / RemoveRequired ---- *)
Inductive wrops := RO | RA (x : bytes) (r : wrops) | RR (x : bytes) (r : wrops).
Fixpoint rops_of (w : wrops) : list rop :=
  match w with RO => [] | RA x r => RAdd x :: rops_of r | RR x r => RRemove x :: rops_of r end.

(* one case: the Required slice of a validation (contents, capacity), a sequence of
   mutator calls, and what was read afterwards — from the original and from the copy when
   the calls went to the copy DupAtt made; from the original and from the alias when they
   went to a second ValidationExpr holding the same slice *)
Inductive rcase := RC (idx : int) (orig : wstrs) (cap : int) (ops : wrops) (o_dup c_dup o_alias c_alias : wstrs).

Definition strs_eqb (a b : list bytes) : bool := list_eqb beq a b.

Definition required_ok (orig : list bytes) (cap : nat) (ops : list rop) (o_dup c_dup o_alias c_alias : list bytes) : bool :=
  let A0 : arrays := [(0, orig ++ repeat [] (cap - length orig))] in
  let so := GS 0 (length orig) cap in
  let st0 := SS A0 1 in
  let (st1, c) := required_dup st0 so in
  let (st2, c') := run_rops ops st1 c in
  let (st3, a') := run_rops ops st0 so in
  strs_eqb (sread (ss_arrays st2) so) o_dup && strs_eqb (sread (ss_arrays st2) c') c_dup
  && strs_eqb (sread (ss_arrays st3) so) o_alias && strs_eqb (sread (ss_arrays st3) a') c_alias.

Definition required_mismatches (cs : list rcase) : list nat :=
  flat_map (fun c => match c with RC i orig cap ops od cd oa ca =>
     if required_ok (strs_of orig) (nat_of_int cap) (rops_of ops) (strs_of od) (strs_of cd) (strs_of oa) (strs_of ca)
     then [] else [nat_of_int i] end) cs.
