(* TypeGraph engine — executable model of
     expr/hasher.go   Hash / hash / hashArray / hashMap / hashUnion / hashUserType /
                      hashObject / sortedTagKeys / sorted
     expr/types.go    Equal, Primitive.Name, the Hash methods
     expr/user_type.go, expr/result_type.go   Name / ID / Dup
     expr/dup.go      Dup / DupAtt / dupper.DupAttribute / dupper.DupType
     expr/attribute.go ValidationExpr.Dup, expr/root.go MetaExpr.Dup
   Definitions only; proofs are in Lemmas.v, property statements in Properties.v.

   Go strings are byte strings: [bytes] = list N (one N per byte).
   Pointer identity is modelled exactly where the code keys on it or where sharing
   can be observed: user types (id), objects (key, the seen map of the hasher is
   keyed by the Object pointer), views (vid). Every other node is a value. *)
From Coq Require Export List Bool NArith Arith.
Export ListNotations.

Definition bytes := list N.

(* ---- Go string operations ---- *)

(* a < b on Go strings: bytewise lexicographic *)
Fixpoint blt (a b : bytes) : bool :=
  match a, b with
  | _, [] => false
  | [], _ :: _ => true
  | x :: a', y :: b' => if N.ltb x y then true else if N.eqb x y then blt a' b' else false
  end.

Fixpoint beq (a b : bytes) : bool :=
  match a, b with
  | [], [] => true
  | x :: a', y :: b' => N.eqb x y && beq a' b'
  | _, _ => false
  end.

(* strings.HasPrefix s p *)
Fixpoint has_prefix (p s : bytes) : bool :=
  match p, s with
  | [], _ => true
  | x :: p', y :: s' => N.eqb x y && has_prefix p' s'
  | _ :: _, [] => false
  end.

(* strings.Join *)
Fixpoint join (sep : bytes) (l : list bytes) : bytes :=
  match l with
  | [] => []
  | [x] => x
  | x :: r => x ++ sep ++ join sep r
  end.

(* sort.Slice / sort.Strings on at most 12 elements is this stable insertion sort;
   with pairwise distinct keys every correct sort returns the same list *)
Section Sort.
  Context {A : Type} (key : A -> bytes).
  Fixpoint insert (x : A) (l : list A) : list A :=
    match l with
    | [] => [x]
    | y :: r => if blt (key y) (key x) then y :: insert x r else x :: l
    end.
  Fixpoint isort (l : list A) : list A :=
    match l with [] => [] | x :: r => insert x (isort r) end.
End Sort.

(* ---- the constants of hasher.go ---- *)
Definition arrayPrefix : bytes := [95;97;95]%N.               (* "_a_" *)
Definition attributePrefix : bytes := [45]%N.                 (* "-" *)
Definition attributeTypePrefix : bytes := [47]%N.             (* "/" *)
Definition mapElemPrefix : bytes := [58]%N.                   (* ":" *)
Definition mapPrefix : bytes := [95;109;95]%N.                (* "_m_" *)
Definition unionTypePrefix : bytes := [95;117;95]%N.          (* "_u_" *)
Definition unionAttributePrefix : bytes := [95;42;95]%N.      (* "_*_" *)
Definition unionAttributeTypePrefix : bytes := [95;124;95]%N. (* "_|_" *)
Definition objectPrefix : bytes := [95;111;95]%N.             (* "_o_" *)
Definition tagPrefix : bytes := [43]%N.                       (* "+" *)
Definition userTypeHashPrefix : bytes := [33]%N.              (* "!" *)
Definition userTypePrefix : bytes := [95;116;95]%N.           (* "_t_" *)
Definition structFieldPrefix : bytes :=                       (* "struct:field:" *)
  [115;116;114;117;99;116;58;102;105;101;108;100;58]%N.
Definition structTypeName : bytes :=                          (* "struct:type:name" *)
  [115;116;114;117;99;116;58;116;121;112;101;58;110;97;109;101]%N.

Inductive prim := PBoolean | PInt | PInt32 | PInt64 | PUInt | PUInt32 | PUInt64
                | PFloat32 | PFloat64 | PString | PBytes | PAny.

(* Primitive.Name *)
Definition prim_name (p : prim) : bytes :=
  match p with
  | PBoolean => [98;111;111;108;101;97;110]
  | PInt => [105;110;116]
  | PInt32 => [105;110;116;51;50]
  | PInt64 => [105;110;116;54;52]
  | PUInt => [117;105;110;116]
  | PUInt32 => [117;105;110;116;51;50]
  | PUInt64 => [117;105;110;116;54;52]
  | PFloat32 => [102;108;111;97;116;51;50]
  | PFloat64 => [102;108;111;97;116;54;52]
  | PString => [115;116;114;105;110;103]
  | PBytes => [98;121;116;101;115]
  | PAny => [97;110;121]
  end%N.

(* ---- types ---- *)

(* MetaExpr: a Go map from string to []string, given as the list of its entries in
   some order (keys pairwise distinct) *)
Definition meta := list (bytes * list bytes).

(* ValidationExpr: the Required slice, and everything else (Values, Format, Pattern,
   the bounds) as one opaque dump — Dup copies those fields by assignment *)
Record validation := Val { v_required : list bytes; v_other : bytes }.

(* the non-type part of an AttributeExpr. a_docs: Docs != nil; a_other: dump of
   DefaultValue and UserExamples *)
Record ainfo := AI { a_meta : meta; a_val : option validation; a_desc : bytes;
                     a_docs : bool; a_other : bytes }.

(* NamedAttributeExpr *)
Record fld (T : Type) := F { fname : bytes; finfo : ainfo; ftype : T }.
Arguments F {T}. Arguments fname {T}. Arguments finfo {T}. Arguments ftype {T}.

Inductive ty :=
| TPrim (p : prim)
| TArr (ei : ainfo) (e : ty)                           (* Array{ElemType} *)
| TMap (ki : ainfo) (k : ty) (ei : ainfo) (e : ty)     (* Map{KeyType, ElemType} *)
| TObj (key : nat) (fs : list (fld ty))                (* the Object with pointer identity key *)
| TUnion (n : bytes) (vs : list (fld ty))              (* Union{TypeName, Values} *)
| TUser (id : nat).                                    (* a UserTypeExpr / ResultTypeExpr pointer *)

(* ResultTypeExpr adds an identifier, a content type and a slice of view pointers *)
Record rtinfo := RT { rt_ident : bytes; rt_ctype : bytes; rt_views : list nat }.

(* what a user type pointer points to *)
Record utdef := UT { ut_name : bytes; ut_uid : bytes; ut_info : ainfo; ut_type : ty;
                     ut_rt : option rtinfo }.

Definition env := list (nat * utdef).

Fixpoint elookup (id : nat) (E : env) : option utdef :=
  match E with
  | [] => None
  | (i, d) :: r => if Nat.eqb id i then Some d else elookup id r
  end.

Fixpoint mlookup (k : bytes) (m : meta) : option (list bytes) :=
  match m with
  | [] => None
  | (k', v) :: r => if beq k k' then Some v else mlookup k r
  end.

(* UserTypeExpr.Name honours the struct:type:name meta, ResultTypeExpr.Name does not.
   (an empty value slice makes the Go code panic; such metas are outside the envelope) *)
Definition ut_display_name (d : utdef) : bytes :=
  match ut_rt d with
  | Some _ => ut_name d
  | None => match mlookup structTypeName (a_meta (ut_info d)) with
            | Some (v :: _) => v
            | _ => ut_name d
            end
  end.

(* UserTypeExpr.ID / ResultTypeExpr.ID *)
Definition ut_id (d : utdef) : bytes :=
  match ut_rt d with
  | Some r => rt_ident r
  | None => match ut_uid d with [] => ut_display_name d | u => u end
  end.

(* ---- the hasher ---- *)

Record flags := FL { igF : bool; igN : bool; igT : bool }.  (* ignoreFields, ignoreNames, ignoreTags *)

(* fmt.Sprintf("%s", []string{...}) *)
Definition fmt_vals (vs : list bytes) : bytes := ([91]%N ++ join [32]%N vs ++ [93]%N).

(* sortedTagKeys: the struct:field: entries in key order *)
Definition tag_entries (m : meta) : meta :=
  isort fst (filter (fun kv => has_prefix structFieldPrefix (fst kv)) m).

Definition tags (m : meta) : bytes :=
  flat_map (fun kv => tagPrefix ++ fst kv ++ fmt_vals (snd kv)) (tag_entries m).

(* seen: the map from Object pointer to (pointer to) the string built so far; the
   most recent binding of a key is the current content of that string *)
Definition seen := list (nat * bytes).
Fixpoint slookup (k : nat) (s : seen) : option bytes :=
  match s with
  | [] => None
  | (k', v) :: r => if Nat.eqb k k' then Some v else slookup k r
  end.

Definition hres := option (bytes * seen).      (* None: recursion budget exhausted *)

(* the loop of hashObject over the sorted attributes *)
Definition hash_fields (rec : ty -> seen -> hres) (k : nat) (igt : bool)
  : list (fld ty) -> bytes -> seen -> hres :=
  fix go fs acc s :=
    match fs with
    | [] => Some (acc, s)
    | f :: r =>
      match rec (ftype f) s with
      | None => None
      | Some (h, s') =>
        let acc' := acc ++ attributePrefix ++ fname f ++ attributeTypePrefix ++ h
                        ++ (if igt then [] else tags (a_meta (finfo f))) in
        go r acc' ((k, acc') :: s')
      end
    end.

(* the loop of hashUnion over the sorted values *)
Definition hash_values (rec : ty -> seen -> hres) : list (fld ty) -> bytes -> seen -> hres :=
  fix go vs acc s :=
    match vs with
    | [] => Some (acc, s)
    | f :: r =>
      match rec (ftype f) s with
      | None => None
      | Some (h, s') => go r (acc ++ unionAttributePrefix ++ fname f ++ unionAttributeTypePrefix ++ h) s'
      end
    end.

Fixpoint hash (fuel : nat) (fl : flags) (E : env) (t : ty) (s : seen) : hres :=
  match fuel with
  | O => None
  | S n =>
    match t with
    | TPrim p => Some (prim_name p, s)
    | TArr _ e =>
      match hash n fl E e s with
      | None => None
      | Some (h, s') => Some (arrayPrefix ++ h, s')
      end
    | TMap _ k _ e =>
      match hash n fl E k s with
      | None => None
      | Some (hk, s1) =>
        match hash n fl E e s1 with
        | None => None
        | Some (he, s2) => Some (mapPrefix ++ hk ++ mapElemPrefix ++ he, s2)
        end
      end
    | TUnion nm vs => hash_values (hash n fl E) (isort fname vs) (unionTypePrefix ++ nm) s
    | TUser id =>
      match elookup id E with
      | None => None
      | Some d =>
        let h := userTypePrefix ++ (if negb (igN fl) || igF fl then ut_display_name d else []) in
        if igF fl then Some (h, s)
        else
          let h := h ++ (if igT fl then [] else tags (a_meta (ut_info d))) in
          match hash n fl E (ut_type d) s with
          | None => None
          | Some (hb, s') => Some (h ++ userTypeHashPrefix ++ hb, s')
          end
      end
    | TObj k fs =>
      match slookup k s with
      | Some str => Some (str, s)
      | None => hash_fields (hash n fl E) k (igT fl) (isort fname fs) objectPrefix ((k, objectPrefix) :: s)
      end
    end
  end.

(* expr.Hash(dt, ignoreFields, ignoreNames, ignoreTags): a fresh seen map *)
Definition Hash (fuel : nat) (fl : flags) (E : env) (t : ty) : option bytes :=
  match hash fuel fl E t [] with Some (h, _) => Some h | None => None end.

Definition equal_flags : flags := FL false true true.
Definition method_flags : flags := FL true false true.      (* the Hash() methods *)

(* expr.Equal *)
Definition Equal (fuel : nat) (E1 : env) (t1 : ty) (E2 : env) (t2 : ty) : option bool :=
  match Hash fuel equal_flags E1 t1, Hash fuel equal_flags E2 t2 with
  | Some a, Some b => Some (beq a b)
  | _, _ => None
  end.

(* ---- measures used by the termination theorem and to choose the budget ---- *)

Definition maxl (l : list nat) : nat := fold_right Nat.max 0 l.

Fixpoint depth (t : ty) : nat :=
  match t with
  | TPrim _ => 1
  | TUser _ => 1
  | TArr _ e => S (depth e)
  | TMap _ k _ e => S (Nat.max (depth k) (depth e))
  | TObj _ fs => S (maxl (map (fun f => depth (ftype f)) fs))
  | TUnion _ fs => S (maxl (map (fun f => depth (ftype f)) fs))
  end.

(* the Object pointers occurring in t *)
Fixpoint keys_ty (t : ty) : list nat :=
  match t with
  | TPrim _ => []
  | TUser _ => []
  | TArr _ e => keys_ty e
  | TMap _ k _ e => keys_ty k ++ keys_ty e
  | TObj key fs => key :: flat_map (fun f => keys_ty (ftype f)) fs
  | TUnion _ fs => flat_map (fun f => keys_ty (ftype f)) fs
  end.

(* the user type pointers occurring in t *)
Fixpoint users_ty (t : ty) : list nat :=
  match t with
  | TPrim _ => []
  | TUser id => [id]
  | TArr _ e => users_ty e
  | TMap _ k _ e => users_ty k ++ users_ty e
  | TObj _ fs => flat_map (fun f => users_ty (ftype f)) fs
  | TUnion _ fs => flat_map (fun f => users_ty (ftype f)) fs
  end.

(* the user type pointers occurring in t outside every object: following one of them
   does not pass through hashObject *)
Fixpoint open_users (t : ty) : list nat :=
  match t with
  | TPrim _ => []
  | TUser id => [id]
  | TArr _ e => open_users e
  | TMap _ k _ e => open_users k ++ open_users e
  | TObj _ _ => []
  | TUnion _ fs => flat_map (fun f => open_users (ftype f)) fs
  end.

Definition env_keys (E : env) : list nat := flat_map (fun p => keys_ty (ut_type (snd p))) E.
Definition env_depth (E : env) : nat := maxl (map (fun p => depth (ut_type (snd p))) E).

(* recursion budget that suffices when K bounds the number of distinct objects, D the
   depth of the root and of every user type body, and R the rank of every user type *)
Definition fuel_of (K D R : nat) : nat := S ((S K) * (S ((S D) * (S (S R))))).

Definition fuel_bound (E : env) (t : ty) (R : nat) : nat :=
  fuel_of (length (keys_ty t ++ env_keys E)) (Nat.max (depth t) (env_depth E)) R.

(* ---- structural equality under the documented rules of Hash, for a flag vector ----
   ru / rk: the correspondence between the user type pointers and between the Object
   pointers of the two graphs (what differs between a graph and a copy of it); dom: the
   user type pointers of the first graph that take part (all of them: fun _ => True).
   Attribute
   and value lists are compared after sorting by name, so declaration order is
   irrelevant; struct:field tags are compared unless ignoreTags; user type names unless
   ignoreNames (and always when ignoreFields); user type bodies unless ignoreFields. *)
Section StructEq.
  Variables (fl : flags) (ru : nat -> nat) (rk : nat -> nat) (dom : nat -> Prop).

  Definition tags_ok (m m' : meta) : Prop := igT fl = true \/ tags m = tags m'.

  Inductive teq : ty -> ty -> Prop :=
  | te_prim p : teq (TPrim p) (TPrim p)
  | te_arr i i' e e' : teq e e' -> teq (TArr i e) (TArr i' e')
  | te_map ki ki' k k' ei ei' e e' : teq k k' -> teq e e' -> teq (TMap ki k ei e) (TMap ki' k' ei' e')
  | te_obj key fs fs' :
      Forall2 (fun f f' => fname f = fname f' /\ tags_ok (a_meta (finfo f)) (a_meta (finfo f'))
                           /\ teq (ftype f) (ftype f'))
              (isort fname fs) (isort fname fs') ->
      teq (TObj key fs) (TObj (rk key) fs')
  | te_union n vs vs' :
      Forall2 (fun f f' => fname f = fname f' /\ teq (ftype f) (ftype f'))
              (isort fname vs) (isort fname vs') ->
      teq (TUnion n vs) (TUnion n vs')
  | te_user id : dom id -> teq (TUser id) (TUser (ru id)).

  Definition def_eq (d d' : utdef) : Prop :=
    (negb (igN fl) || igF fl = true -> ut_display_name d = ut_display_name d') /\
    (igF fl = false -> tags_ok (a_meta (ut_info d)) (a_meta (ut_info d')) /\ teq (ut_type d) (ut_type d')).

  Definition env_eq (E E' : env) : Prop :=
    forall id d, dom id -> elookup id E = Some d -> exists d', elookup (ru id) E' = Some d' /\ def_eq d d'.

  Definition map_seen (s : seen) : seen := map (fun kv => (rk (fst kv), snd kv)) s.
End StructEq.

(* ---- Dup ----
   A copy lives at fresh pointers. Which fresh pointer a Go allocation returns cannot
   be observed, so the model names the copy of user type id as offu + id and the copy of
   Object key as offk + key (offu, offk: beyond every pointer of the original). What can
   be observed, and is modelled literally, is which nodes are allocated anew, which are
   shared, and the memo of the dupper keyed by ID(): a user type whose ID() was already
   seen is replaced by the copy made for that ID. *)

(* DupAttribute: every field copied by assignment (Validation and Meta through their
   own Dup, which copy the Required slice and the map; the Docs pointer is kept) *)
Definition dup_info (i : ainfo) : ainfo := AI (a_meta i) (a_val i) (a_desc i) (a_docs i) (a_other i).

(* ResultTypeExpr.Dup: Identifier and the Views slice (the same view pointers) are
   kept, ContentType is not copied *)
Definition dup_rt (r : option rtinfo) : option rtinfo :=
  match r with Some r => Some (RT (rt_ident r) [] (rt_views r)) | None => None end.

(* Object.Set *)
Fixpoint obj_set (fs : list (fld ty)) (n : bytes) (i : ainfo) (t : ty) : list (fld ty) :=
  match fs with
  | [] => [F n i t]
  | g :: r => if beq (fname g) n then F (fname g) i t :: r else g :: obj_set r n i t
  end.

Record dstate := DS { memo : list (bytes * nat); copies : env }.

Fixpoint memo_lookup (k : bytes) (m : list (bytes * nat)) : option nat :=
  match m with
  | [] => None
  | (k', v) :: r => if beq k k' then Some v else memo_lookup k r
  end.

Definition dres (A : Type) := option (dstate * A).

Definition dup_fields (rec : dstate -> ty -> dres ty) : list (fld ty) -> dstate -> list (fld ty) -> dres (list (fld ty)) :=
  fix go fs st acc :=
    match fs with
    | [] => Some (st, acc)
    | f :: r => match rec st (ftype f) with
                | None => None
                | Some (st', t') => go r st' (obj_set acc (fname f) (dup_info (finfo f)) t')
                end
    end.

Definition dup_values (rec : dstate -> ty -> dres ty) : list (fld ty) -> dstate -> dres (list (fld ty)) :=
  fix go vs st :=
    match vs with
    | [] => Some (st, [])
    | f :: r => match rec st (ftype f) with
                | None => None
                | Some (st', t') => match go r st' with
                                    | None => None
                                    | Some (st'', r') => Some (st'', F (fname f) (dup_info (finfo f)) t' :: r')
                                    end
                end
    end.

Section Dup.
  Variables (E : env) (offu offk : nat).

  (* dupper.DupType *)
  Fixpoint dup_ty (fuel : nat) (st : dstate) (t : ty) : dres ty :=
    match fuel with
    | O => None
    | S n =>
      match t with
      | TPrim p => Some (st, TPrim p)
      | TArr i e =>
        match dup_ty n st e with
        | None => None
        | Some (st', e') => Some (st', TArr (dup_info i) e')
        end
      | TMap ki k ei e =>
        match dup_ty n st k with
        | None => None
        | Some (st1, k') =>
          match dup_ty n st1 e with
          | None => None
          | Some (st2, e') => Some (st2, TMap (dup_info ki) k' (dup_info ei) e')
          end
        end
      | TObj key fs =>
        match dup_fields (dup_ty n) fs st [] with
        | None => None
        | Some (st', fs') => Some (st', TObj (offk + key) fs')
        end
      | TUnion nm vs =>
        match dup_values (dup_ty n) vs st with
        | None => None
        | Some (st', vs') => Some (st', TUnion nm vs')
        end
      | TUser id =>
        match elookup id E with
        | None => None
        | Some d =>
          match memo_lookup (ut_id d) (memo st) with
          | Some nid => Some (st, TUser nid)
          | None =>
            let nid := offu + id in
            match dup_ty n (DS ((ut_id d, nid) :: memo st) (copies st)) (ut_type d) with
            | None => None
            | Some (st2, t') =>
              Some (DS (memo st2)
                       ((nid, UT (ut_name d) (ut_uid d) (dup_info (ut_info d)) t' (dup_rt (ut_rt d))) :: copies st2),
                    TUser nid)
            end
          end
        end
      end
    end.

  (* expr.Dup(t): a fresh dupper *)
  Definition Dup (fuel : nat) (t : ty) : option (env * ty) :=
    match dup_ty fuel (DS [] []) t with
    | Some (st, t') => Some (copies st, t')
    | None => None
    end.
End Dup.

(* budget for Dup: every user type is entered at most once *)
Definition dup_fuel (E : env) (t : ty) : nat := S ((S (length E)) * (S (Nat.max (depth t) (env_depth E)))).

(* ---- what a copy must be: the original with every pointer renamed ---- *)
Section Shift.
  Variables (offu offk : nat).

  Fixpoint shift_ty (t : ty) : ty :=
    match t with
    | TPrim p => TPrim p
    | TArr i e => TArr (dup_info i) (shift_ty e)
    | TMap ki k ei e => TMap (dup_info ki) (shift_ty k) (dup_info ei) (shift_ty e)
    | TObj key fs => TObj (offk + key) (map (fun f => F (fname f) (dup_info (finfo f)) (shift_ty (ftype f))) fs)
    | TUnion n vs => TUnion n (map (fun f => F (fname f) (dup_info (finfo f)) (shift_ty (ftype f))) vs)
    | TUser id => TUser (offu + id)
    end.

  Definition shift_def (d : utdef) : utdef :=
    UT (ut_name d) (ut_uid d) (dup_info (ut_info d)) (shift_ty (ut_type d)) (dup_rt (ut_rt d)).
End Shift.

(* attribute names of every object are pairwise distinct (the envelope of the property) *)
Fixpoint names_ok (t : ty) : Prop :=
  match t with
  | TPrim _ => True
  | TUser _ => True
  | TArr _ e => names_ok e
  | TMap _ k _ e => names_ok k /\ names_ok e
  | TObj _ fs => NoDup (map fname fs) /\ fold_right (fun f acc => names_ok (ftype f) /\ acc) True fs
  | TUnion _ vs => fold_right (fun f acc => names_ok (ftype f) /\ acc) True vs
  end.

(* views: what ResultTypeExpr.Views points to. Dup never reads them; they matter for
   what a copy shares with its original *)
Record viewdef := VW { vw_name : bytes; vw_info : ainfo; vw_type : ty; vw_parent : nat }.

(* the view pointers a set of user types can reach (and therefore write through) *)
Definition views_of (E : env) : list nat :=
  flat_map (fun p => match ut_rt (snd p) with Some r => rt_views r | None => [] end) E.

(* ---- the class in which equal hashes imply equal structure (hash_sound_partial) ----
   For types without user types the hash under the flags of Equal is the first
   component of hp; the second says how the string ends: (dash, star) = it ends with the
   attribute list of an object / the value list of a union, neither of which has a
   closing delimiter. *)
Definition last_ends (l : list (bytes * (bytes * (bool * bool)))) : bool * bool :=
  match rev l with [] => (false, false) | (_, (_, e)) :: _ => e end.

Fixpoint hp (t : ty) : bytes * (bool * bool) :=
  match t with
  | TPrim p => (prim_name p, (false, false))
  | TArr _ e => (arrayPrefix ++ fst (hp e), snd (hp e))
  | TMap _ k _ e => (mapPrefix ++ fst (hp k) ++ mapElemPrefix ++ fst (hp e), snd (hp e))
  | TObj _ fs =>
    let l := isort fst (map (fun f => (fname f, hp (ftype f))) fs) in
    (objectPrefix ++ flat_map (fun p => attributePrefix ++ fst p ++ attributeTypePrefix ++ fst (snd p)) l,
     (true, snd (last_ends l)))
  | TUnion nm vs =>
    let l := isort fst (map (fun f => (fname f, hp (ftype f))) vs) in
    (unionTypePrefix ++ nm ++ flat_map (fun p => unionAttributePrefix ++ fst p ++ unionAttributeTypePrefix ++ fst (snd p)) l,
     (fst (last_ends l), true))
  | TUser _ => ([], (false, false))
  end.

Definition hpure (t : ty) : bytes := fst (hp t).

(* all entries but the last satisfy P *)
Fixpoint all_but_last {A} (P : A -> Prop) (l : list A) : Prop :=
  match l with
  | [] => True
  | [_] => True
  | x :: r => P x /\ all_but_last P r
  end.

Definition no_byte (c : N) (s : bytes) : Prop := ~ In c s.

(* attribute names do not contain '/'; union value names do not contain '|'; union type
   names contain none of '-' ':' '_' *)
Definition union_name_ok (n : bytes) : Prop := no_byte 45 n /\ no_byte 58 n /\ no_byte 95 n.

Fixpoint cls (t : ty) : Prop :=
  match t with
  | TPrim _ => True
  | TUser _ => False
  | TArr _ e => cls e
  | TMap _ k _ e => cls k /\ cls e
  | TObj _ fs =>
    NoDup (map fname fs) /\
    fold_right (fun f acc => (no_byte 47 (fname f) /\ cls (ftype f)) /\ acc) True fs /\
    (* an attribute followed by a sibling does not end with an open attribute list *)
    all_but_last (fun p => fst (snd (snd p)) = false) (isort fst (map (fun f => (fname f, hp (ftype f))) fs))
  | TUnion nm vs =>
    union_name_ok nm /\ NoDup (map fname vs) /\
    fold_right (fun f acc => (no_byte 124 (fname f) /\ cls (ftype f)) /\ acc) True vs /\
    (* a value followed by a sibling does not end with an open value list *)
    all_but_last (fun p => snd (snd (snd p)) = false) (isort fst (map (fun f => (fname f, hp (ftype f))) vs))
  end.

(* structural equality of types without user types, up to declaration order and pointer
   identity (the documented rules of Equal) *)
Inductive tsim : ty -> ty -> Prop :=
| ts_prim p : tsim (TPrim p) (TPrim p)
| ts_arr i i' e e' : tsim e e' -> tsim (TArr i e) (TArr i' e')
| ts_map ki ki' k k' ei ei' e e' : tsim k k' -> tsim e e' -> tsim (TMap ki k ei e) (TMap ki' k' ei' e')
| ts_obj key key' fs fs' :
    Forall2 (fun f f' => fname f = fname f' /\ tsim (ftype f) (ftype f')) (isort fname fs) (isort fname fs') ->
    tsim (TObj key fs) (TObj key' fs')
| ts_union n vs vs' :
    Forall2 (fun f f' => fname f = fname f' /\ tsim (ftype f) (ftype f')) (isort fname vs) (isort fname vs') ->
    tsim (TUnion n vs) (TUnion n vs').

(* ---- writes through a copy ----
   A write through a copy reaches a user type the copy points to (SetAttribute, Rename,
   or any edit of its attribute tree, which is a value of the model): the heap gets a new
   binding for that pointer. *)
Definition write := (nat * utdef)%type.
Definition apply_writes (ws : list write) (H : env) : env := fold_left (fun h w => w :: h) ws H.

(* ---- Go slices: ValidationExpr.Required under AddRequired / RemoveRequired / Dup ----
   These mutators write the backing array in place (RemoveRequired always, AddRequired
   when there is spare capacity), so whether a copy is independent depends on whether it
   owns its array. A slice is (array, len, cap); an array is a list of cells whose length
   is its capacity; arrays live in a store with a bump allocator. *)
Record gslice := GS { g_arr : nat; g_len : nat; g_cap : nat }.
Definition arrays := list (nat * list bytes).
Record sstate := SS { ss_arrays : arrays; ss_next : nat }.

Fixpoint alookup (id : nat) (A : arrays) : list bytes :=
  match A with
  | [] => []
  | (i, c) :: r => if Nat.eqb id i then c else alookup id r
  end.

(* what a slice reads: the first len cells of its array *)
Definition sread (A : arrays) (s : gslice) : list bytes := firstn (g_len s) (alookup (g_arr s) A).

Fixpoint set_nth {X} (i : nat) (x : X) (l : list X) : list X :=
  match l, i with
  | [], _ => []
  | _ :: r, O => x :: r
  | y :: r, S j => y :: set_nth j x r
  end.

(* append(s, x): in place when len < cap, otherwise a new array (its capacity is the
   runtime's choice and cannot be read through either slice; any value >= len+1 will do) *)
Definition sappend (st : sstate) (s : gslice) (x : bytes) : sstate * gslice :=
  let A := ss_arrays st in
  if Nat.ltb (g_len s) (g_cap s) then
    (SS ((g_arr s, set_nth (g_len s) x (alookup (g_arr s) A)) :: A) (ss_next st),
     GS (g_arr s) (S (g_len s)) (g_cap s))
  else
    let newcap := S (2 * g_cap s) in
    (SS ((ss_next st, sread A s ++ x :: repeat [] (newcap - S (g_len s))) :: A) (S (ss_next st)),
     GS (ss_next st) (S (g_len s)) newcap).

Fixpoint index_of (x : bytes) (l : list bytes) : option nat :=
  match l with
  | [] => None
  | y :: r => if beq x y then Some 0 else match index_of x r with Some i => Some (S i) | None => None end
  end.

(* ValidationExpr.AddRequired, one name *)
Definition add_required (st : sstate) (s : gslice) (x : bytes) : sstate * gslice :=
  match index_of x (sread (ss_arrays st) s) with
  | Some _ => (st, s)
  | None => sappend st s x
  end.

(* ValidationExpr.RemoveRequired: v.Required = append(v.Required[:i], v.Required[i+1:]...)
   moves the cells i+1 .. len-1 one position down in the same array; cell len-1 keeps its
   old content *)
Definition remove_required (st : sstate) (s : gslice) (x : bytes) : sstate * gslice :=
  let A := ss_arrays st in
  match index_of x (sread A s) with
  | None => (st, s)
  | Some i =>
    let cells := alookup (g_arr s) A in
    let cells' := firstn i cells ++ firstn (g_len s - S i) (skipn (S i) cells) ++ skipn (g_len s - 1) cells in
    (SS ((g_arr s, cells') :: A) (ss_next st), GS (g_arr s) (g_len s - 1) (g_cap s))
  end.

(* ValidationExpr.Dup on the Required slice: nil when empty, else make + copy *)
Definition required_dup (st : sstate) (s : gslice) : sstate * gslice :=
  match g_len s with
  | O => (st, GS 0 0 0)
  | _ => (SS ((ss_next st, sread (ss_arrays st) s) :: ss_arrays st) (S (ss_next st)),
          GS (ss_next st) (g_len s) (g_len s))
  end.

Inductive rop := RAdd (x : bytes) | RRemove (x : bytes).

Fixpoint run_rops (ops : list rop) (st : sstate) (s : gslice) : sstate * gslice :=
  match ops with
  | [] => (st, s)
  | RAdd x :: r => let (st', s') := add_required st s x in run_rops r st' s'
  | RRemove x :: r => let (st', s') := remove_required st s x in run_rops r st' s'
  end.
