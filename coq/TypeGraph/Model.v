(* TypeGraph engine — executable model of
     expr/hasher.go   Hash / hash / hashArray / hashMap / hashUnion / hashUserType /
                      hashObject / sortedTagKeys / sorted
     expr/types.go    Equal, Primitive.Name, the Hash methods
     expr/user_type.go, expr/result_type.go   Name / ID / Dup
     expr/dup.go      Dup / DupAtt / dupper.DupAttribute / dupper.DupType
     expr/attribute.go ValidationExpr.Dup, expr/root.go MetaExpr.Dup
   Definitions only; proofs are in Lemmas.v, property statements in Properties.v.

   Go strings are byte strings: [bytes] = list N (one N per byte).
   Pointer identity is modelled exactly where the code keys on it or where sharing
   can be observed: user types (id), objects (key, the seen map of the hasher is
   keyed by the Object pointer), views (vid). Every other node is a value. *)
From Coq Require Export List Bool NArith Arith.
Export ListNotations.

Definition bytes := list N.

(* ---- Go string operations ---- *)

(* a < b on Go strings: bytewise lexicographic *)
Fixpoint blt (a b : bytes) : bool :=
  match a, b with
  | _, [] => false
  | [], _ :: _ => true
  | x :: a', y :: b' => if N.ltb x y then true else if N.eqb x y then blt a' b' else false
  end.

Fixpoint beq (a b : bytes) : bool :=
  match a, b with
  | [], [] => true
  | x :: a', y :: b' => N.eqb x y && beq a' b'
  | _, _ => false
  end.

(* strings.HasPrefix s p *)
Fixpoint has_prefix (p s : bytes) : bool :=
  match p, s with
  | [], _ => true
  | x :: p', y :: s' => N.eqb x y && has_prefix p' s'
  | _ :: _, [] => false
  end.

(* strings.Join *)
Fixpoint join (sep : bytes) (l : list bytes) : bytes :=
  match l with
  | [] => []
  | [x] => x
  | x :: r => x ++ sep ++ join sep r
  end.

(* sort.Slice / sort.Strings on at most 12 elements is this stable insertion sort;
   with pairwise distinct keys every correct sort returns the same list *)
Section Sort.
  Context {A : Type} (key : A -> bytes).
  Fixpoint insert (x : A) (l : list A) : list A :=
    match l with
    | [] => [x]
    | y :: r => if blt (key y) (key x) then y :: insert x r else x :: l
    end.
  Fixpoint isort (l : list A) : list A :=
    match l with [] => [] | x :: r => insert x (isort r) end.
End Sort.

(* ---- the constants of hasher.go ---- *)
Definition arrayPrefix : bytes := [95;97;95]%N.               (* "_a_" *)
Definition attributePrefix : bytes := [45]%N.                 (* "-" *)
Definition attributeTypePrefix : bytes := [47]%N.             (* "/" *)
Definition mapElemPrefix : bytes := [58]%N.                   (* ":" *)
Definition mapPrefix : bytes := [95;109;95]%N.                (* "_m_" *)
Definition unionTypePrefix : bytes := [95;117;95]%N.          (* "_u_" *)
Definition unionAttributePrefix : bytes := [95;42;95]%N.      (* "_*_" *)
Definition unionAttributeTypePrefix : bytes := [95;124;95]%N. (* "_|_" *)
Definition objectPrefix : bytes := [95;111;95]%N.             (* "_o_" *)
Definition tagPrefix : bytes := [43]%N.                       (* "+" *)
Definition userTypeHashPrefix : bytes := [33]%N.              (* "!" *)
Definition userTypePrefix : bytes := [95;116;95]%N.           (* "_t_" *)
Definition structFieldPrefix : bytes :=                       (* "struct:field:" *)
  [115;116;114;117;99;116;58;102;105;101;108;100;58]%N.
Definition structTypeName : bytes :=                          (* "struct:type:name" *)
  [115;116;114;117;99;116;58;116;121;112;101;58;110;97;109;101]%N.

Inductive prim := PBoolean | PInt | PInt32 | PInt64 | PUInt | PUInt32 | PUInt64
                | PFloat32 | PFloat64 | PString | PBytes | PAny.

(* Primitive.Name *)
Definition prim_name (p : prim) : bytes :=
  match p with
  | PBoolean => [98;111;111;108;101;97;110]
  | PInt => [105;110;116]
  | PInt32 => [105;110;116;51;50]
  | PInt64 => [105;110;116;54;52]
  | PUInt => [117;105;110;116]
  | PUInt32 => [117;105;110;116;51;50]
  | PUInt64 => [117;105;110;116;54;52]
  | PFloat32 => [102;108;111;97;116;51;50]
  | PFloat64 => [102;108;111;97;116;54;52]
  | PString => [115;116;114;105;110;103]
  | PBytes => [98;121;116;101;115]
  | PAny => [97;110;121]
  end%N.

(* ---- types ---- *)

(* MetaExpr: a Go map from string to []string, given as the list of its entries in
   some order (keys pairwise distinct) *)
Definition meta := list (bytes * list bytes).

(* ValidationExpr: the Required slice, and everything else (Values, Format, Pattern,
   the bounds) as one opaque dump — Dup copies those fields by assignment *)
Record validation := Val { v_required : list bytes; v_other : bytes }.

(* the non-type part of an AttributeExpr. a_docs: Docs != nil; a_other: dump of
   DefaultValue and UserExamples *)
Record ainfo := AI { a_meta : meta; a_val : option validation; a_desc : bytes;
                     a_docs : bool; a_other : bytes }.

(* NamedAttributeExpr *)
Record fld (T : Type) := F { fname : bytes; finfo : ainfo; ftype : T }.
Arguments F {T}. Arguments fname {T}. Arguments finfo {T}. Arguments ftype {T}.

Inductive ty :=
| TPrim (p : prim)
| TArr (ei : ainfo) (e : ty)                           (* Array{ElemType} *)
| TMap (ki : ainfo) (k : ty) (ei : ainfo) (e : ty)     (* Map{KeyType, ElemType} *)
| TObj (key : nat) (fs : list (fld ty))                (* the Object with pointer identity key *)
| TUnion (n : bytes) (vs : list (fld ty))              (* Union{TypeName, Values} *)
| TUser (id : nat).                                    (* a UserTypeExpr / ResultTypeExpr pointer *)

(* ResultTypeExpr adds an identifier, a content type and a slice of view pointers *)
Record rtinfo := RT { rt_ident : bytes; rt_ctype : bytes; rt_views : list nat }.

(* what a user type pointer points to *)
Record utdef := UT { ut_name : bytes; ut_uid : bytes; ut_info : ainfo; ut_type : ty;
                     ut_rt : option rtinfo }.

Definition env := list (nat * utdef).

Fixpoint elookup (id : nat) (E : env) : option utdef :=
  match E with
  | [] => None
  | (i, d) :: r => if Nat.eqb id i then Some d else elookup id r
  end.

Fixpoint mlookup (k : bytes) (m : meta) : option (list bytes) :=
  match m with
  | [] => None
  | (k', v) :: r => if beq k k' then Some v else mlookup k r
  end.

(* UserTypeExpr.Name honours the struct:type:name meta, ResultTypeExpr.Name does not.
   (an empty value slice makes the Go code panic; such metas are outside the envelope) *)
Definition ut_display_name (d : utdef) : bytes :=
  match ut_rt d with
  | Some _ => ut_name d
  | None => match mlookup structTypeName (a_meta (ut_info d)) with
            | Some (v :: _) => v
            | _ => ut_name d
            end
  end.

(* UserTypeExpr.ID / ResultTypeExpr.ID *)
Definition ut_id (d : utdef) : bytes :=
  match ut_rt d with
  | Some r => rt_ident r
  | None => match ut_uid d with [] => ut_display_name d | u => u end
  end.

(* ---- the hasher ---- *)

Record flags := FL { igF : bool; igN : bool; igT : bool }.  (* ignoreFields, ignoreNames, ignoreTags *)

(* fmt.Sprintf("%s", []string{...}) *)
Definition fmt_vals (vs : list bytes) : bytes := ([91]%N ++ join [32]%N vs ++ [93]%N).

(* sortedTagKeys: the struct:field: entries in key order *)
Definition tag_entries (m : meta) : meta :=
  isort fst (filter (fun kv => has_prefix structFieldPrefix (fst kv)) m).

Definition tags (m : meta) : bytes :=
  flat_map (fun kv => tagPrefix ++ fst kv ++ fmt_vals (snd kv)) (tag_entries m).

(* seen: the map from Object pointer to (pointer to) the string built so far; the
   most recent binding of a key is the current content of that string *)
Definition seen := list (nat * bytes).
Fixpoint slookup (k : nat) (s : seen) : option bytes :=
  match s with
  | [] => None
  | (k', v) :: r => if Nat.eqb k k' then Some v else slookup k r
  end.

Definition hres := option (bytes * seen).      (* None: recursion budget exhausted *)

(* the loop of hashObject over the sorted attributes *)
Definition hash_fields (rec : ty -> seen -> hres) (k : nat) (igt : bool)
  : list (fld ty) -> bytes -> seen -> hres :=
  fix go fs acc s :=
    match fs with
    | [] => Some (acc, s)
    | f :: r =>
      match rec (ftype f) s with
      | None => None
      | Some (h, s') =>
        let acc' := acc ++ attributePrefix ++ fname f ++ attributeTypePrefix ++ h
                        ++ (if igt then [] else tags (a_meta (finfo f))) in
        go r acc' ((k, acc') :: s')
      end
    end.

(* the loop of hashUnion over the sorted values *)
Definition hash_values (rec : ty -> seen -> hres) : list (fld ty) -> bytes -> seen -> hres :=
  fix go vs acc s :=
    match vs with
    | [] => Some (acc, s)
    | f :: r =>
      match rec (ftype f) s with
      | None => None
      | Some (h, s') => go r (acc ++ unionAttributePrefix ++ fname f ++ unionAttributeTypePrefix ++ h) s'
      end
    end.

Fixpoint hash (fuel : nat) (fl : flags) (E : env) (t : ty) (s : seen) : hres :=
  match fuel with
  | O => None
  | S n =>
    match t with
    | TPrim p => Some (prim_name p, s)
    | TArr _ e =>
      match hash n fl E e s with
      | None => None
      | Some (h, s') => Some (arrayPrefix ++ h, s')
      end
    | TMap _ k _ e =>
      match hash n fl E k s with
      | None => None
      | Some (hk, s1) =>
        match hash n fl E e s1 with
        | None => None
        | Some (he, s2) => Some (mapPrefix ++ hk ++ mapElemPrefix ++ he, s2)
        end
      end
    | TUnion nm vs => hash_values (hash n fl E) (isort fname vs) (unionTypePrefix ++ nm) s
    | TUser id =>
      match elookup id E with
      | None => None
      | Some d =>
        let h := userTypePrefix ++ (if negb (igN fl) || igF fl then ut_display_name d else []) in
        if igF fl then Some (h, s)
        else
          let h := h ++ (if igT fl then [] else tags (a_meta (ut_info d))) in
          match hash n fl E (ut_type d) s with
          | None => None
          | Some (hb, s') => Some (h ++ userTypeHashPrefix ++ hb, s')
          end
      end
    | TObj k fs =>
      match slookup k s with
      | Some str => Some (str, s)
      | None => hash_fields (hash n fl E) k (igT fl) (isort fname fs) objectPrefix ((k, objectPrefix) :: s)
      end
    end
  end.

(* expr.Hash(dt, ignoreFields, ignoreNames, ignoreTags): a fresh seen map *)
Definition Hash (fuel : nat) (fl : flags) (E : env) (t : ty) : option bytes :=
  match hash fuel fl E t [] with Some (h, _) => Some h | None => None end.

Definition equal_flags : flags := FL false true true.
Definition method_flags : flags := FL true false true.      (* the Hash() methods *)

(* expr.Equal *)
Definition Equal (fuel : nat) (E1 : env) (t1 : ty) (E2 : env) (t2 : ty) : option bool :=
  match Hash fuel equal_flags E1 t1, Hash fuel equal_flags E2 t2 with
  | Some a, Some b => Some (beq a b)
  | _, _ => None
  end.

(* ---- measures used by the termination theorem and to choose the budget ---- *)

Definition maxl (l : list nat) : nat := fold_right Nat.max 0 l.

Fixpoint depth (t : ty) : nat :=
  match t with
  | TPrim _ => 1
  | TUser _ => 1
  | TArr _ e => S (depth e)
  | TMap _ k _ e => S (Nat.max (depth k) (depth e))
  | TObj _ fs => S (maxl (map (fun f => depth (ftype f)) fs))
  | TUnion _ fs => S (maxl (map (fun f => depth (ftype f)) fs))
  end.

(* the Object pointers occurring in t *)
Fixpoint keys_ty (t : ty) : list nat :=
  match t with
  | TPrim _ => []
  | TUser _ => []
  | TArr _ e => keys_ty e
  | TMap _ k _ e => keys_ty k ++ keys_ty e
  | TObj key fs => key :: flat_map (fun f => keys_ty (ftype f)) fs
  | TUnion _ fs => flat_map (fun f => keys_ty (ftype f)) fs
  end.

(* the user type pointers occurring in t *)
Fixpoint users_ty (t : ty) : list nat :=
  match t with
  | TPrim _ => []
  | TUser id => [id]
  | TArr _ e => users_ty e
  | TMap _ k _ e => users_ty k ++ users_ty e
  | TObj _ fs => flat_map (fun f => users_ty (ftype f)) fs
  | TUnion _ fs => flat_map (fun f => users_ty (ftype f)) fs
  end.

(* the user type pointers occurring in t outside every object: following one of them
   does not pass through hashObject *)
Fixpoint open_users (t : ty) : list nat :=
  match t with
  | TPrim _ => []
  | TUser id => [id]
  | TArr _ e => open_users e
  | TMap _ k _ e => open_users k ++ open_users e
  | TObj _ _ => []
  | TUnion _ fs => flat_map (fun f => open_users (ftype f)) fs
  end.

Definition env_keys (E : env) : list nat := flat_map (fun p => keys_ty (ut_type (snd p))) E.
Definition env_depth (E : env) : nat := maxl (map (fun p => depth (ut_type (snd p))) E).

(* recursion budget that suffices when K bounds the number of distinct objects, D the
   depth of the root and of every user type body, and R the rank of every user type *)
Definition fuel_of (K D R : nat) : nat := S ((S K) * (S ((S D) * (S (S R))))).

Definition fuel_bound (E : env) (t : ty) (R : nat) : nat :=
  fuel_of (length (keys_ty t ++ env_keys E)) (Nat.max (depth t) (env_depth E)) R.
