(* Correspondence glue: the comparisons evaluated by vm_compute on the cases the
   harness wrote (what the real goa code did on the same designs / calls). *)
From DSL Require Import Model Generated_contexts.
From Coq Require Import NArith.

Definition err_eq_dec (a b : err) : {a = b} + {a <> b}.
Proof. decide equality; apply Nat.eq_dec. Defined.

Definition err_mem (e : err) (l : list err) : bool := existsb (fun x => if err_eq_dec e x then true else false) l.
Definition err_subset (a b : list err) : bool := forallb (fun e => err_mem e b) a.
Definition same_errs (a b : list err) : bool := err_subset a b && err_subset b a.
Definition is_nil {A} (l : list A) : bool := match l with [] => true | _ => false end.

(* near-valid stream: index, design, covered (the single mutation is of a kind the
   model covers, or there is none), accepted by eval.RunDSL, the errors goa reported
   (modelled kinds only, names interned) *)
(* case indexes are binary numbers: a mismatching index is printed, and a unary 50000 is too deep *)
Definition ref_case := (N * design * bool * bool * list err)%type.

Definition ref_ok (c : ref_case) : bool :=
  match c with
  | (_, d, covered, accepted, obs) =>
      let me := validate d in
      if covered then (if accepted then is_nil me else negb (is_nil me) && same_errs me obs)
      else (if accepted then is_nil me else true)     (* whatever the model rejects, goa rejects *)
  end.

Definition ref_mismatches (cs : list ref_case) : list N :=
  flat_map (fun c => if ref_ok c then [] else match c with (i, _, _, _, _) => [i] end) cs.

(* grid: one DSL function called with benign arguments in one context *)
Inductive gobs :=
| GNone       (* no error recorded during the call *)
| GIncompat   (* "invalid use of F" recorded *)
| GOther      (* some other error recorded *)
| GBoth
| GPanic.     (* the call panicked: a failing input of the property, reported by the direct oracle *)

Definition has_incompat (o : gobs) : bool := match o with GIncompat | GBoth => true | _ => false end.

(* the "invalid use of" message as the harness read it: position of the function it names in
   [table], index of its " in ..." suffix in the run's table of observed suffixes *)
Definition grid_case := (N * nat * ctx * gobs * option (nat * nat))%type.   (* index, position of the function in [table], context, observation *)

Definition grid_ok (c : grid_case) : bool :=
  match c with
  | (_, fi, cx, o, _) =>
      match o with
      | GPanic => true
      | _ =>
          match nth_error table fi with
          | None => false
          | Some e =>
              match f_kind e with
              | KUnknown => false
              | KAny => negb (has_incompat o)
              | KSilent => if allowed e cx then negb (has_incompat o) else match o with GNone => true | _ => false end
              | KStrict =>
                  match eval_call cx e with
                  | [] => f_nested e || negb (has_incompat o)
                  | Incompatible _ :: _ => has_incompat o
                  | _ => match o with GNone => false | _ => true end   (* refused data type: some error is reported *)
                  end
              end
          end
      end
  end.

(* the message names the function that was called and the expression it was called in:
   it is incompatible_msg (f_name e) (ctx_path cx) *)
Definition msg_ok (sfx : list string) (c : grid_case) : bool :=
  match c with
  | (_, fi, cx, o, m) =>
      match m with
      | None => negb (has_incompat o)
      | Some (fi', si) =>
          has_incompat o && Nat.eqb fi fi' &&
          match nth_error sfx si with
          | Some s => String.eqb s (report_suffix (ctx_path cx))
          | None => false
          end
      end
  end.

Definition grid_mismatches_s (sfx : list string) (cs : list grid_case) : list N :=
  flat_map (fun c => if grid_ok c && msg_ok sfx c then [] else match c with (i, _, _, _, _) => [i] end) cs.

(* the dynamic type of eval.Current() (and the interfaces it implements) per context *)
Definition ctx_case := (N * ctx * list etype * option dkind)%type.

Definition dkind_eq_dec (a b : dkind) : {a = b} + {a <> b}.
Proof. decide equality. Defined.

Definition ctx_ok (c : ctx_case) : bool :=
  match c with
  | (_, cx, obs, dt) =>
      forallb (fun t => tmem t obs) (ctx_types cx) && forallb (fun t => tmem t (ctx_types cx)) obs &&
      match ctx_dtype cx, dt with
      | Some a, Some b => if dkind_eq_dec a b then true else false
      | None, _ => true          (* not an attribute context: the data type plays no role *)
      | Some _, None => false
      end
  end.

Definition ctx_mismatches (cs : list ctx_case) : list N :=
  flat_map (fun c => if ctx_ok c then [] else match c with (i, _, _, _) => [i] end) cs.
