(* C12 - property statements only. Every theorem is closed by a lemma of Lemmas.v
   and followed by Print Assumptions. *)
From DSL Require Import Model Generated_contexts Lemmas.

(* ---- Part 1: reference integrity of accepted designs ---- *)

(* A design the model accepts has no dangling reference of any kind: mapped path /
   query / header / cookie / body / MapParams names are payload attributes, response
   header / cookie / body names and Tag attributes are result attributes (in every view,
   or in the fixed view), error responses name declared errors and attributes of their
   types, requirements name registered schemes, their scopes and find their credential
   attributes, views and view attributes exist, Required names are attributes Find
   reaches - also below maps. (Full: since the Tag check and the descent of Validate
   into maps were added to goa, no reference kind is left out.) *)
Theorem accepted_refs_resolve d :
  validate d = [] -> forall r, In r (refs d) -> resolves r.
Proof. exact (refs_resolve d). Qed.
Print Assumptions accepted_refs_resolve.

(* the converse, for the transport mappings: every error the HTTP endpoint validation
   reports (missing path / query / header / cookie / body / MapParams attribute, response
   header / cookie / body / Tag attribute, undeclared error, error header) is about a
   reference of that endpoint that really dangles - no false alarm *)
Theorem transport_error_has_a_dangling_reference d s m h e :
  In e (validate_http d s m h) -> exists r, In r (http_refs d s m h) /\ ~ resolves r.
Proof. exact (http_errors_dangling d s m h e). Qed.
Print Assumptions transport_error_has_a_dangling_reference.

(* hence, once the DSL phase reported nothing for the endpoint, its validation is silent
   exactly when every one of its references resolves *)
Theorem transport_accepted_iff_refs_resolve d s m h : dsl_errors_http m h = [] ->
  (validate_http d s m h = [] <-> forall r, In r (http_refs d s m h) -> resolves r).
Proof. exact (http_refs_iff d s m h). Qed.
Print Assumptions transport_accepted_iff_refs_resolve.

(* every reference is checked, not only the first per type: the `validated` memo is keyed
   by the attribute, so EVERY attribute that can be reached from a method payload / result
   through object fields and array elements is visited, and an accepted design has no
   attribute - first, middle or last of several of the same result type - whose View names
   a view its type does not define *)
Theorem every_reachable_attribute_is_visited g roots n :
  reach (validate_children g) roots n -> In n (reachable_nodes g roots).
Proof. exact (reachable_complete g roots n). Qed.
Print Assumptions every_reachable_attribute_is_visited.

Theorem accepted_attribute_views_resolve d :
  validate d = [] ->
  forall n a v, reach (validate_children (d_graph d)) (d_roots d) n ->
    nth_error (d_attrs d) n = Some a -> a_view a = Some v -> resolves (RAttrView (d_attrs d) n v).
Proof. exact (reachable_attr_checked d). Qed.
Print Assumptions accepted_attribute_views_resolve.

(* with the memo keyed by the TYPE of the attribute ("validate a user type only once")
   the recursion still stops but the second attribute of a result type is never looked
   at: its undefined view goes unreported, while the attribute-keyed traversal reports it *)
Theorem type_keyed_memo_skips_refuted :
  exists g ats roots,
    flat_map (attr_errors ats) (visited_keyed (type_key g) g roots) = [] /\
    flat_map (attr_errors ats) (reachable_nodes g roots) <> [].
Proof.
  exists twice_graph, twice_attrs, [0]. destruct type_keyed_memo_skips as [H1 [_ H3]].
  split; [exact H1|]. rewrite H3. discriminate.
Qed.
Print Assumptions type_keyed_memo_skips_refuted.

(* errors recorded while the DSL runs end the evaluation before validation *)
Theorem errors_stop_validation d : dsl_errors d <> [] -> validate d = dsl_errors d.
Proof. unfold validate. destruct (dsl_errors d); [congruence|reflexivity]. Qed.
Print Assumptions errors_stop_validation.

(* ---- Part 2: the traversals terminate on every attribute graph, cyclic or not ---- *)

(* AttributeExpr.Validate with the `validated` guard: fuel = number of attributes + 1
   is enough from any node, whatever is already flagged, on every graph *)
Theorem validate_attr_fuel_sufficient g vis n :
  exists v, validate_attr g (S (List.length g)) vis n = Some v /\ incl vis v.
Proof. exact (validate_attr_total g vis n). Qed.
Print Assumptions validate_attr_fuel_sufficient.

Theorem finalize_attr_fuel_sufficient g vis n :
  exists v, finalize_attr g (S (List.length g)) vis n = Some v /\ incl vis v.
Proof. exact (finalize_attr_total g vis n). Qed.
Print Assumptions finalize_attr_fuel_sufficient.

(* HTTPEndpointExpr.Prepare following parent canonical endpoints, with `prepared` *)
Theorem prepare_endpoint_fuel_sufficient pg vis n :
  exists v, prepare_endpoint pg (S (List.length pg)) vis n = Some v /\ incl vis v.
Proof. exact (prepare_endpoint_total pg vis n). Qed.
Print Assumptions prepare_endpoint_fuel_sufficient.

(* the general statement: any guarded traversal whose children function is empty
   outside a universe of N nodes terminates within (nodes not yet flagged) + 1 levels *)
Theorem guarded_walk_fuel_sufficient children N :
  (forall n, N <= n -> children n = []) ->
  forall fuel vis n, unvis N vis < fuel -> exists v, walk children fuel vis n = Some v /\ incl vis v.
Proof. exact (walk_terminates children N). Qed.
Print Assumptions guarded_walk_fuel_sufficient.

(* fuel is only a bound: more of it never changes the result *)
Theorem walk_fuel_irrelevant children fuel vis n v :
  walk children fuel vis n = Some v -> walk children (S fuel) vis n = Some v.
Proof. exact (walk_fuel_mono children fuel vis n v). Qed.
Print Assumptions walk_fuel_irrelevant.

(* the validation of every method's types is total *)
(* AttributeExpr.Inherit (run by Finalize for every Reference) with its `seen` set: one
   expansion unit from any state, and a whole Inherit call, on every graph *)
Theorem inherit_fuel_sufficient g seen x :
  exists v, inherit_unit g (S (List.length g)) seen x = Some v /\ incl seen v.
Proof. exact (inherit_unit_total g seen x). Qed.
Print Assumptions inherit_fuel_sufficient.

Theorem inherit_attr_total_on_every_graph g a p : exists v, inherit_attr g (S (List.length g)) a p = Some v.
Proof. exact (inherit_attr_total g a p). Qed.
Print Assumptions inherit_attr_total_on_every_graph.

Theorem required_check_total g roots : exists ns, required_errors g roots = Some ns.
Proof. exact (required_errors_total g roots). Qed.
Print Assumptions required_check_total.

(* termination rests on the guard: without it the same recursion runs for ever on a
   type that refers to itself *)
Theorem unguarded_walk_diverges_refuted :
  exists g n, forall fuel, walk_unguarded (validate_children g) fuel n = None.
Proof. exists selfrec_graph, 0. exact unguarded_diverges_selfrec. Qed.
Print Assumptions unguarded_walk_diverges_refuted.

(* AttributeExpr.Find carries a visited set: it terminates on every graph, whatever
   extends or references whatever (Full: replaces find_fuel_sufficient_partial /
   find_extend_cycle_diverges_refuted of the unrepaired code) *)
Theorem find_fuel_sufficient g n x : exists s r, gfind g (S (List.length g)) [] n x = Some (s, r).
Proof. exact (gfind_total g n x). Qed.
Print Assumptions find_fuel_sufficient.

Theorem find_total_from_any_state g x fuel seen n :
  unvis (List.length g) seen < fuel -> exists s r, gfind g fuel seen n x = Some (s, r) /\ incl seen s.
Proof. exact (gfind_terminates g x fuel seen n). Qed.
Print Assumptions find_total_from_any_state.

(* hasTag / hasTagPrefix (expr/method.go), TaggedAttribute and walkAttribute
   (expr/attribute.go) carry a visited set too: they terminate on every graph of bases,
   references and user types (Full: replaces hastag_fuel_sufficient_partial /
   hastag_extend_cycle_diverges_refuted of the code before the guards) *)
Theorem hastag_fuel_sufficient has bases user N :
  (forall n, N <= n -> bases n = [] /\ user n = None) ->
  forall fuel seen n, unvis N seen < fuel ->
  exists s r, ghastag has bases user fuel seen n = Some (s, r) /\ incl seen s.
Proof. exact (ghastag_terminates has bases user N). Qed.
Print Assumptions hastag_fuel_sufficient.

(* ---- Part 3: misplaced calls are reported ---- *)

(* every function x context pair outside the function's accepted contexts yields the
   IncompatibleDSL error, and no program containing such a call is accepted *)
Theorem misplaced_call_reports e c :
  f_kind e = KStrict -> allowed e c = false ->
  eval_call c e = [Incompatible (f_name e)] /\
  forall p later, In (c, e) p -> run_program p later <> Accepted.
Proof.
  intros Hk Ha. split; [exact (misplaced_reports e c Hk Ha)|].
  intros p later Hin. exact (misplaced_not_accepted e c p later Hk Ha Hin).
Qed.
Print Assumptions misplaced_call_reports.

Theorem errors_imply_not_accepted p later : dsl_phase p <> [] -> run_program p later <> Accepted.
Proof. exact (errors_not_accepted p later). Qed.
Print Assumptions errors_imply_not_accepted.

(* sweep over the extracted table (123 functions): the translator recognised the
   shape of every function *)
Theorem table_no_unknown_entries e : In e table -> f_kind e <> KUnknown.
Proof. exact (table_no_unknown e). Qed.
Print Assumptions table_no_unknown_entries.

(* a call in an accepted attribute context whose DATA TYPE the function refuses (a
   child Attribute inside an attribute of user / result / array / primitive type, Key
   outside a map ...) is reported too, and the program is not accepted *)
Theorem refused_data_type_reports e c :
  f_kind e = KStrict -> allowed e c = true -> dtype_ok e c = false ->
  eval_call c e = [BadDataType (f_name e)] /\
  forall p later, In (c, e) p -> run_program p later <> Accepted.
Proof.
  intros Hk Ha Hd. split; [exact (bad_dtype_reports e c Hk Ha Hd)|].
  intros p later Hin. apply (reported_not_accepted e c p later); [|exact Hin].
  rewrite (bad_dtype_reports e c Hk Ha Hd). discriminate.
Qed.
Print Assumptions refused_data_type_reports.

(* eval_call is total over function x context (expression kind x data-type kind) with
   exactly three outcomes on the table *)
Theorem eval_call_total e c : In e table ->
  eval_call c e = [] \/ eval_call c e = [Incompatible (f_name e)] \/ eval_call c e = [BadDataType (f_name e)].
Proof.
  intro Hin. assert (Hu := table_no_unknown e Hin). unfold eval_call.
  destruct (f_kind e); try (left; reflexivity); [|congruence].
  destruct (allowed e c); [|right; left; reflexivity].
  destruct (dtype_ok e c); [left|right; right]; reflexivity.
Qed.
Print Assumptions eval_call_total.

(* the extracted table is, entry by entry, the documented one: same kind of check,
   same accepted contexts; hence the same outcome of every call in every context *)
Theorem table_agrees_with_documented :
  entries_agree table documented = true /\
  forall i ea eb c, nth_error table i = Some ea -> nth_error documented i = Some eb ->
    f_name ea = f_name eb /\ eval_call c ea = eval_call c eb.
Proof. split; [exact table_agrees_b|exact (entries_agree_calls table documented table_agrees_b)]. Qed.
Print Assumptions table_agrees_with_documented.

(* ---- Part 4: reported errors name the offending function and expression ---- *)

(* every expression other than the top level has a non-empty name, whatever names the
   design gives (empty ones become "unnamed ...") and however deep the nesting *)
Theorem every_expression_has_a_name p : p <> PTop -> eval_name p <> ""%string.
Proof. exact (eval_name_nonempty p). Qed.
Print Assumptions every_expression_has_a_name.

(* the error recorded for a DSL function called in expression p is non-empty and has the
   form "invalid use of <function> in <name of p>" *)
Theorem incompatible_error_names_function_and_expression f p : p <> PTop ->
  incompatible_msg f p = ("invalid use of " ++ f ++ " in " ++ eval_name p)%string /\ eval_name p <> ""%string.
Proof. exact (incompatible_msg_located f p). Qed.
Print Assumptions incompatible_error_names_function_and_expression.

(* a misplaced call records exactly that message, for every function of the table and
   every context of the grid; only the top level has no expression to name *)
Theorem misplaced_call_is_located e c : f_kind e = KStrict -> allowed e c = false ->
  located_call c e = [incompatible_msg (f_name e) (ctx_path c)] /\
  (c <> CTop -> incompatible_msg (f_name e) (ctx_path c) =
                ("invalid use of " ++ f_name e ++ " in " ++ eval_name (ctx_path c))%string).
Proof.
  intros Hk Ha. split; [exact (located_call_misplaced e c Hk Ha)|].
  intro Hc. apply incompatible_msg_located. intro H. apply Hc. exact (ctx_path_top c H).
Qed.
Print Assumptions misplaced_call_is_located.

(* a response names its endpoint, an endpoint its service, a route its endpoint: the name
   of a nested expression ends with the name of the expression it belongs to *)
Theorem nested_expression_names_its_parent q :
  (exists pre, eval_name (PHTTPResponse (Some q)) = (pre ++ eval_name q)%string) /\
  (exists pre, eval_name (PGRPCResponse (Some q)) = (pre ++ eval_name q)%string) /\
  (forall verb path, exists pre, eval_name (PRoute verb path q) = (pre ++ eval_name q)%string).
Proof. exact (nested_name_ends_with_parent q). Qed.
Print Assumptions nested_expression_names_its_parent.

(* ---- non-vacuity ---- *)

(* Tag(...) called inside the HTTP(...) of a method: the message goa records *)
Example tag_in_endpoint_message :
  match List.find (fun e => String.eqb (f_name e) "Tag") table with
  | Some e => located_call CHTTPEndpoint e = ["invalid use of Tag in service ""gs"" HTTP endpoint ""gm"""%string]
  | None => False
  end.
Proof. vm_compute. reflexivity. Qed.

Example unnamed_method_response_name :
  eval_name (PHTTPResponse (Some (PHTTPEndpoint "" ""))) = "HTTP response of unnamed service unnamed HTTP endpoint"%string.
Proof. reflexivity. Qed.

(* the designs that used to be accepted with a dangling reference are rejected *)
Example dangling_tag_rejected : validate tag_design = [ETag 2].
Proof. exact tag_design_rejected. Qed.

Example dangling_required_under_map_rejected : validate reqmap_design = [ERequired 3].
Proof. exact reqmap_rejected. Qed.

(* a type that extends itself: hasTag answers "no" after one step *)
Example hastag_on_self_extend :
  ghastag (fun _ => false) (fun n => if Nat.eqb n 0 then [0] else []) (fun _ => None) 2 [] 0 = Some ([0], false).
Proof. exact ghastag_selfext. Qed.

(* A extends B, B extends A: Find answers "not found" for a name neither has *)
Example find_on_mutual_extend : exists s, gfind mutext_graph (S (List.length mutext_graph)) [] 0 7 = Some (s, None).
Proof. exact gfind_mutext. Qed.

(* Payload { a }, Header("zzz"): rejected with exactly that error. names a = 1, zzz = 9 *)
Example dangling_header_rejected :
  let m := mkM (SObj [1]) [] (mkR SEmpty None None) [] [] (Some (mkH [] [] [9] [] BDefault None [] [])) in
  validate (mkD [] [] [] [] [] [mkS [] [] [] [m]] [mkN (KObj [(1, 1)]) None [] []; mkN KPrim None [] []] [0] []) = [EHeader 9].
Proof. vm_compute. reflexivity. Qed.

(* two mutually recursive types A { b: B; Required("zzz") }, B { a: ArrayOf(A) }: the
   traversal visits each attribute it reaches once (B's own attribute is only finalized) and
   reports the missing name at the two attributes of type A *)
Example mutual_recursion_validated :
  let g := [ mkN (KObj [(1, 1)]) None [9] [];            (* 0: A *)
             mkN (KObj [(2, 3)]) (Some 2) [] [];         (* 1: field b, of type B *)
             mkN (KObj [(2, 3)]) None [] [];             (* 2: B *)
             mkN (KArr 4) None [] [];                    (* 3: field a *)
             mkN (KObj [(1, 1)]) (Some 0) [9] [] ] in    (* 4: element, of type A *)
  required_errors g [0] = Some [9; 9] /\
  exists v, validate_attr g (graph_fuel g) [] 0 = Some v /\ List.length v = 4.
Proof. split; [vm_compute; reflexivity|eexists; split; vm_compute; reflexivity]. Qed.

(* the rejected header of the example above is a reference that does not resolve *)
Example dangling_header_is_dangling :
  let m := mkM (SObj [1]) [] (mkR SEmpty None None) [] [] (Some (mkH [] [] [9] [] BDefault None [] [])) in
  In (RPayload m 9) (http_refs (mkD [] [] [] [] [] [] [] [] []) (mkS [] [] [] []) m (mkH [] [] [9] [] BDefault None [] [])) /\
  ~ resolves (RPayload m 9).
Proof. split; [left; reflexivity|]. simpl. intros [H|[]]. discriminate. Qed.

(* two API key schemes (names 5 and 6): the method requires scheme 5, its payload only
   has the key attribute of scheme 6: rejected; with the right attribute: accepted *)
Example apikey_of_the_other_scheme_rejected :
  let d c := mkD [] [] [] [mkSc 5 SAPIKey []; mkSc 6 SAPIKey []] []
                 [mkS [] [] [] [mkM (SObj [1]) [c] (mkR SEmpty None None) [] [mkQ [5] []] None]]
                 [mkN (KObj [(1, 1)]) None [] []; mkN KPrim None [] []] [0] [] in
  validate (d (CKey 6)) = [ENoAPIKey] /\ validate (d (CKey 5)) = [].
Proof. split; vm_compute; reflexivity. Qed.

(* Attribute inside an attribute whose type is a user type: refused data type *)
Example child_attribute_in_user_typed_attribute_reported :
  match List.find (fun e => String.eqb (f_name e) "Attribute") table with
  | Some e => eval_call CAttrUser e = [BadDataType "Attribute"%string] /\ eval_call CPayloadObj e = [] /\ eval_call CAttrUnion e = []
  | None => False
  end.
Proof. vm_compute. repeat split; reflexivity. Qed.

(* Title(...) inside a Service is reported; Title inside API is not *)
Example title_in_service_reported :
  match List.find (fun e => String.eqb (f_name e) "Title") table with
  | Some e => eval_call CService e = [Incompatible "Title"%string] /\ eval_call CAPI e = []
  | None => False
  end.
Proof. vm_compute. split; reflexivity. Qed.
