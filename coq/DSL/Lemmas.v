(* DSL engine (C12) - proofs. *)
From DSL Require Import Model Generated_contexts.
From Coq Require Import Lia ZifyBool ZifyNat.

(* ---------------------------------------------------------------------- *)
(* small facts                                                            *)
(* ---------------------------------------------------------------------- *)

Lemma mem_In n l : mem n l = true <-> In n l.
Proof.
  unfold mem. rewrite existsb_exists. split.
  - intros [x [Hin Heq]]. apply Nat.eqb_eq in Heq. subst. exact Hin.
  - intro Hin. exists n. split; [exact Hin|apply Nat.eqb_refl].
Qed.

Lemma mem_false n l : mem n l = false <-> ~ In n l.
Proof.
  split.
  - intros Hf Hin. apply mem_In in Hin. congruence.
  - intro Hn. destruct (mem n l) eqn:E; [|reflexivity]. apply mem_In in E. contradiction.
Qed.

Lemma app_nil_both {A} (a b : list A) : a ++ b = [] -> a = [] /\ b = [].
Proof. destruct a; simpl; intro H; [split; [reflexivity|exact H]|discriminate]. Qed.

Lemma flat_map_nil {A B} (f : A -> list B) l : flat_map f l = [] -> forall x, In x l -> f x = [].
Proof.
  induction l as [|a l IH]; simpl; intros H x Hin; [contradiction|].
  apply app_nil_both in H. destruct H as [Ha Hl]. destruct Hin as [<-|Hin]; [exact Ha|exact (IH Hl x Hin)].
Qed.

Lemma map_nil {A B} (f : A -> B) l : map f l = [] -> l = [].
Proof. destruct l; simpl; [reflexivity|discriminate]. Qed.

Lemma filter_nil {A} (p : A -> bool) l : filter p l = [] -> forall x, In x l -> p x = false.
Proof.
  induction l as [|a l IH]; simpl; intros H x Hin; [contradiction|].
  destruct (p a) eqn:E; [discriminate|]. destruct Hin as [<-|Hin]; [exact E|exact (IH H x Hin)].
Qed.

Lemma map_filter_nil {A B} (f : A -> B) (p : A -> bool) l :
  map f (filter p l) = [] -> forall x, In x l -> p x = false.
Proof. intro H. apply map_nil in H. exact (filter_nil p l H). Qed.

(* ---------------------------------------------------------------------- *)
(* Part 2: the guarded traversal terminates on every graph                *)
(* ---------------------------------------------------------------------- *)

Definition unvis (N : nat) (vis : list nat) : nat :=
  List.length (filter (fun i => negb (mem i vis)) (seq 0 N)).

Lemma filter_len_le {A} (f g : A -> bool) l :
  (forall x, In x l -> f x = true -> g x = true) -> List.length (filter f l) <= List.length (filter g l).
Proof.
  induction l as [|a l IH]; simpl; intro H; [lia|].
  assert (IH' := IH (fun x Hx => H x (or_intror Hx))).
  destruct (f a) eqn:Ef.
  - rewrite (H a (or_introl eq_refl) Ef). simpl. lia.
  - destruct (g a); simpl; lia.
Qed.

Lemma filter_len_lt {A} (f g : A -> bool) l y :
  (forall x, In x l -> f x = true -> g x = true) -> In y l -> f y = false -> g y = true ->
  List.length (filter f l) < List.length (filter g l).
Proof.
  induction l as [|a l IH]; simpl; intros H Hin Hf Hg; [contradiction|].
  assert (Hle := filter_len_le f g l (fun x Hx => H x (or_intror Hx))).
  destruct Hin as [->|Hin].
  - rewrite Hf, Hg. simpl. lia.
  - assert (IH' := IH (fun x Hx => H x (or_intror Hx)) Hin Hf Hg).
    destruct (f a) eqn:Ef.
    + rewrite (H a (or_introl eq_refl) Ef). simpl. lia.
    + destruct (g a); simpl; lia.
Qed.

Lemma unvis_incl N v1 v2 : incl v1 v2 -> unvis N v2 <= unvis N v1.
Proof.
  intro Hi. unfold unvis. apply filter_len_le. intros x _ Hx.
  apply negb_true_iff in Hx. apply negb_true_iff. apply mem_false in Hx. apply mem_false.
  intro H. apply Hx. exact (Hi x H).
Qed.

Lemma unvis_cons_lt N n vis : n < N -> mem n vis = false -> unvis N (n :: vis) < unvis N vis.
Proof.
  intros Hn Hm. unfold unvis. apply filter_len_lt with (y := n).
  - intros x _ Hx. apply negb_true_iff in Hx. apply negb_true_iff. apply mem_false in Hx. apply mem_false.
    intro H. apply Hx. right. exact H.
  - apply in_seq. lia.
  - apply negb_false_iff. apply mem_In. left. reflexivity.
  - apply negb_true_iff. exact Hm.
Qed.

Lemma unvis_le N' vis : unvis N' vis <= N'.
Proof.
  unfold unvis. rewrite <- (seq_length N' 0) at 2.
  generalize (seq 0 N') as l. induction l as [|a l IHl]; simpl; [lia|].
  destruct (negb (mem a vis)); simpl; lia.
Qed.


Section Walk.
  Variable children : nat -> list nat.
  Variable N : nat.
  Hypothesis out_of_range : forall n, N <= n -> children n = [].

  Lemma walk_terminates : forall fuel vis n,
    unvis N vis < fuel -> exists v, walk children fuel vis n = Some v /\ incl vis v.
  Proof.
    induction fuel as [|f IH]; intros vis n Hf; [lia|].
    simpl. destruct (mem n vis) eqn:Em.
    - exists vis. split; [reflexivity|apply incl_refl].
    - assert (Hfold : forall cs v0, incl (n :: vis) v0 -> (cs = [] \/ unvis N v0 < f) ->
               exists v, fold_left (fun acc c => match acc with None => None | Some v => walk children f v c end) cs (Some v0) = Some v
                         /\ incl v0 v).
      { induction cs as [|c cs IHcs]; intros v0 Hi Hb.
        - exists v0. split; [reflexivity|apply incl_refl].
        - destruct Hb as [Hb|Hb]; [discriminate|]. simpl.
          destruct (IH v0 c Hb) as [v1 [Hw Hi1]]. rewrite Hw.
          destruct (IHcs v1 (incl_tran Hi Hi1)) as [v2 [Hw2 Hi2]].
          + right. assert (Hle := unvis_incl N v0 v1 Hi1). lia.
          + exists v2. split; [exact Hw2|exact (incl_tran Hi1 Hi2)]. }
      destruct (Nat.lt_ge_cases n N) as [Hlt|Hge].
      + destruct (Hfold (children n) (n :: vis) (incl_refl _)) as [v [Hw Hi]].
        * right. assert (H := unvis_cons_lt N n vis Hlt Em). lia.
        * exists v. split; [exact Hw|]. intros x Hx. apply Hi. right. exact Hx.
      + rewrite (out_of_range n Hge). simpl. exists (n :: vis). split; [reflexivity|].
        intros x Hx. right. exact Hx.
  Qed.

  Lemma walk_roots_terminates : forall roots fuel vis,
    unvis N vis < fuel -> exists v, walk_roots children fuel vis roots = Some v /\ incl vis v.
  Proof.
    induction roots as [|r rs IH]; intros fuel vis Hf; simpl.
    - exists vis. split; [reflexivity|apply incl_refl].
    - destruct (walk_terminates fuel vis r Hf) as [v [Hw Hi]]. rewrite Hw.
      destruct (IH fuel v) as [v2 [Hw2 Hi2]].
      + assert (H := unvis_incl N vis v Hi). lia.
      + exists v2. split; [exact Hw2|exact (incl_tran Hi Hi2)].
  Qed.
End Walk.

Section KWalk.
  Context {X : Type}.
  Variable key : X -> nat.
  Variable children : X -> list X.
  Variable N : nat.
  Hypothesis out_of_range : forall x, N <= key x -> children x = [].

  Lemma kwalk_terminates : forall fuel vis x,
    unvis N vis < fuel -> exists v, kwalk key children fuel vis x = Some v /\ incl vis v.
  Proof.
    induction fuel as [|f IH]; intros vis x Hf; [lia|].
    simpl. destruct (mem (key x) vis) eqn:Em.
    - exists vis. split; [reflexivity|apply incl_refl].
    - assert (Hfold : forall cs v0, incl (key x :: vis) v0 -> (cs = [] \/ unvis N v0 < f) ->
               exists v, fold_left (fun acc c => match acc with None => None | Some v => kwalk key children f v c end) cs (Some v0) = Some v
                         /\ incl v0 v).
      { induction cs as [|c cs IHcs]; intros v0 Hi Hb.
        - exists v0. split; [reflexivity|apply incl_refl].
        - destruct Hb as [Hb|Hb]; [discriminate|]. simpl.
          destruct (IH v0 c Hb) as [v1 [Hw Hi1]]. rewrite Hw.
          destruct (IHcs v1 (incl_tran Hi Hi1)) as [v2 [Hw2 Hi2]].
          + right. assert (Hle := unvis_incl N v0 v1 Hi1). lia.
          + exists v2. split; [exact Hw2|exact (incl_tran Hi1 Hi2)]. }
      destruct (Nat.lt_ge_cases (key x) N) as [Hlt|Hge].
      + destruct (Hfold (children x) (key x :: vis) (incl_refl _)) as [v [Hw Hi]].
        * right. assert (H := unvis_cons_lt N (key x) vis Hlt Em). lia.
        * exists v. split; [exact Hw|]. intros y Hy. apply Hi. right. exact Hy.
      + rewrite (out_of_range x Hge). simpl. exists (key x :: vis). split; [reflexivity|].
        intros y Hy. right. exact Hy.
  Qed.

  Lemma kwalk_list_terminates : forall xs fuel vis,
    unvis N vis < fuel -> exists v, kwalk_list key children fuel vis xs = Some v /\ incl vis v.
  Proof.
    induction xs as [|x r IH]; intros fuel vis Hf; simpl.
    - exists vis. split; [reflexivity|apply incl_refl].
    - destruct (kwalk_terminates fuel vis x Hf) as [v [Hw Hi]]. rewrite Hw.
      destruct (IH fuel v) as [v2 [Hw2 Hi2]].
      + assert (H := unvis_incl N vis v Hi). lia.
      + exists v2. split; [exact Hw2|exact (incl_tran Hi Hi2)].
  Qed.
End KWalk.

Lemma inherit_children_oor g x : List.length g <= fst x -> inherit_children g x = [].
Proof.
  intro H. unfold inherit_children, matched, node_fields, get.
  rewrite (proj2 (nth_error_None g (fst x)) H). reflexivity.
Qed.

Lemma validate_children_oor g n : List.length g <= n -> validate_children g n = [].
Proof. intro H. unfold validate_children, get. rewrite (proj2 (nth_error_None g n) H). reflexivity. Qed.

Lemma finalize_children_oor g n : List.length g <= n -> finalize_children g n = [].
Proof. intro H. unfold finalize_children, get. rewrite (proj2 (nth_error_None g n) H). reflexivity. Qed.

Lemma prepare_children_oor pg n : List.length pg <= n -> prepare_children pg n = [].
Proof. intro H. unfold prepare_children. rewrite (proj2 (nth_error_None pg n) H). reflexivity. Qed.

Lemma unvis_nil_lt N : unvis N [] < S N.
Proof. assert (H := unvis_le N []). lia. Qed.

Lemma unvis_any_lt N vis : unvis N vis < S N.
Proof. assert (H := unvis_le N vis). lia. Qed.

Lemma validate_attr_total g vis n :
  exists v, validate_attr g (graph_fuel g) vis n = Some v /\ incl vis v.
Proof.
  unfold validate_attr, graph_fuel.
  exact (walk_terminates (validate_children g) (List.length g) (validate_children_oor g) _ vis n (unvis_any_lt _ vis)).
Qed.

Lemma finalize_attr_total g vis n :
  exists v, finalize_attr g (graph_fuel g) vis n = Some v /\ incl vis v.
Proof.
  unfold finalize_attr, graph_fuel.
  exact (walk_terminates (finalize_children g) (List.length g) (finalize_children_oor g) _ vis n (unvis_any_lt _ vis)).
Qed.

Lemma prepare_endpoint_total pg vis n :
  exists v, prepare_endpoint pg (S (List.length pg)) vis n = Some v /\ incl vis v.
Proof.
  unfold prepare_endpoint.
  exact (walk_terminates (prepare_children pg) (List.length pg) (prepare_children_oor pg) _ vis n (unvis_any_lt _ vis)).
Qed.

Lemma inherit_unit_total g seen x :
  exists v, inherit_unit g (S (List.length g)) seen x = Some v /\ incl seen v.
Proof.
  unfold inherit_unit.
  exact (kwalk_terminates fst (inherit_children g) (List.length g) (inherit_children_oor g) _ seen x (unvis_any_lt _ seen)).
Qed.

Lemma inherit_attr_total g a p : exists v, inherit_attr g (S (List.length g)) a p = Some v.
Proof.
  unfold inherit_attr.
  destruct (kwalk_list_terminates fst (inherit_children g) (List.length g) (inherit_children_oor g) (inherit_units g a p) _ [] (unvis_any_lt _ []))
    as [v [Hw _]]. exists v. exact Hw.
Qed.

Lemma required_errors_total g roots : exists ns, required_errors g roots = Some ns.
Proof.
  unfold required_errors, graph_fuel.
  destruct (walk_roots_terminates (validate_children g) (List.length g) (validate_children_oor g) roots _ [] (unvis_any_lt _ []))
    as [v [Hw _]].
  rewrite Hw. eexists. reflexivity.
Qed.

(* fuel monotonicity: more fuel never changes a result *)
Lemma walk_fuel_mono children : forall fuel vis n v,
  walk children fuel vis n = Some v -> walk children (S fuel) vis n = Some v.
Proof.
  induction fuel as [|f IH]; intros vis n v H; [discriminate|].
  simpl in H. change (walk children (S (S f)) vis n) with
    (if mem n vis then Some vis
     else fold_left (fun acc c => match acc with None => None | Some v => walk children (S f) v c end) (children n) (Some (n :: vis))).
  destruct (mem n vis); [exact H|].
  revert H. generalize (n :: vis) as v0. induction (children n) as [|c cs IHcs]; intros v0 H; simpl in *; [exact H|].
  destruct (walk children f v0 c) as [v1|] eqn:E.
  - rewrite (IH _ _ _ E). exact (IHcs v1 H).
  - exfalso. clear -H. induction cs; simpl in H; [discriminate|auto].
Qed.

(* without the guard the same recursion does not terminate on a recursive type *)
Definition selfrec_graph : graph := [mkN (KObj [(1, 0)]) None [] []].

Lemma unguarded_diverges_selfrec : forall fuel, walk_unguarded (validate_children selfrec_graph) fuel 0 = None.
Proof. induction fuel as [|f IH]; [reflexivity|]. simpl. rewrite IH. reflexivity. Qed.

(* ---- Find (with its visited set): total on every graph ---- *)

Lemma gfind_terminates g x : forall fuel seen n,
  unvis (List.length g) seen < fuel ->
  exists s r, gfind g fuel seen n x = Some (s, r) /\ incl seen s.
Proof.
  induction fuel as [|f IH]; intros seen n Hf; [lia|].
  simpl. destruct (mem n seen) eqn:Em.
  - exists seen, None. split; [reflexivity|apply incl_refl].
  - destruct (get g n) as [nd|] eqn:Eg.
    + assert (Hn : n < List.length g) by (apply nth_error_Some; unfold get in Eg; rewrite Eg; discriminate).
      assert (Hlt := unvis_cons_lt (List.length g) n seen Hn Em).
      assert (Hown : exists s r, (match n_user nd with
                                  | Some u => gfind g f (n :: seen) u x
                                  | None => Some (n :: seen, assoc x (obj_fields (n_kind nd)))
                                  end) = Some (s, r) /\ incl (n :: seen) s).
      { destruct (n_user nd) as [u|].
        - apply IH. lia.
        - eexists _, _. split; [reflexivity|apply incl_refl]. }
      destruct Hown as [s1 [r1 [Ho Hi1]]]. rewrite Ho.
      destruct r1 as [c|].
      * exists s1, (Some c). split; [reflexivity|]. intros y Hy. apply Hi1. right. exact Hy.
      * assert (Hgo : forall l s0, incl (n :: seen) s0 ->
                 exists s r, (fix go (s : list nat) (l : list nat) : option (list nat * option nat) :=
                   match l with
                   | [] => Some (s, None)
                   | b :: r => match gfind g f s b x with
                               | None => None
                               | Some (s', Some c) => Some (s', Some c)
                               | Some (s', None) => go s' r
                               end
                   end) s0 l = Some (s, r) /\ incl s0 s).
        { induction l as [|b l IHl]; intros s0 Hi0.
          - exists s0, None. split; [reflexivity|apply incl_refl].
          - assert (Hb : unvis (List.length g) s0 < f).
            { assert (H := unvis_incl (List.length g) (n :: seen) s0 Hi0). lia. }
            destruct (IH s0 b Hb) as [s' [r' [Hg Hi']]]. rewrite Hg. destruct r' as [c|].
            + exists s', (Some c). split; [reflexivity|exact Hi'].
            + destruct (IHl s' (incl_tran Hi0 Hi')) as [s2 [r2 [Hg2 Hi2]]].
              exists s2, r2. split; [exact Hg2|exact (incl_tran Hi' Hi2)]. }
        destruct (Hgo (n_inh nd) s1 Hi1) as [s2 [r2 [Hg2 Hi2]]].
        exists s2, r2. split; [exact Hg2|]. intros y Hy. apply Hi2, Hi1. right. exact Hy.
    + exists (n :: seen), None. split; [reflexivity|]. intros y Hy. right. exact Hy.
Qed.

Lemma gfind_total g n x : exists s r, gfind g (find_fuel g) [] n x = Some (s, r).
Proof.
  destruct (gfind_terminates g x (find_fuel g) [] n (unvis_any_lt _ [])) as [s [r [H _]]].
  exists s, r. exact H.
Qed.

(* two types that extend / reference each other: the lookup of a name neither has
   answers "not found" *)
Definition mutext_graph : graph :=
  [mkN (KObj [(1, 2)]) None [] [1]; mkN (KObj [(2, 2)]) None [] [0]; mkN KPrim None [] []].

Lemma gfind_mutext : exists s, gfind mutext_graph (find_fuel mutext_graph) [] 0 7 = Some (s, None).
Proof. eexists. vm_compute. reflexivity. Qed.

(* ---- hasTag / TaggedAttribute / walkAttribute (with their visited set): total ---- *)

Lemma ghastag_terminates has bases user N :
  (forall n, N <= n -> bases n = [] /\ user n = None) ->
  forall fuel seen n, unvis N seen < fuel ->
  exists s r, ghastag has bases user fuel seen n = Some (s, r) /\ incl seen s.
Proof.
  intro Hoor. induction fuel as [|f IH]; intros seen n Hf; [lia|].
  simpl. destruct (mem n seen) eqn:Em.
  - exists seen, false. split; [reflexivity|apply incl_refl].
  - destruct (has n).
    + exists (n :: seen), true. split; [reflexivity|]. intros y Hy. right. exact Hy.
    + destruct (Nat.lt_ge_cases n N) as [Hlt|Hge].
      * assert (Hc := unvis_cons_lt N n seen Hlt Em).
        assert (Hgo : forall l s0, incl (n :: seen) s0 ->
          exists s r, (fix go (s : list nat) (l : list nat) : option (list nat * bool) :=
             match l with
             | [] => match user n with Some u => ghastag has bases user f s u | None => Some (s, false) end
             | b :: r => match ghastag has bases user f s b with
                         | None => None
                         | Some (s', true) => Some (s', true)
                         | Some (s', false) => go s' r
                         end
             end) s0 l = Some (s, r) /\ incl s0 s).
        { induction l as [|b l IHl]; intros s0 Hi0;
            assert (Hb : unvis N s0 < f) by (assert (H := unvis_incl N (n :: seen) s0 Hi0); lia).
          - destruct (user n) as [u|].
            + exact (IH s0 u Hb).
            + exists s0, false. split; [reflexivity|apply incl_refl].
          - destruct (IH s0 b Hb) as [s' [r' [Hg Hi']]]. rewrite Hg. destruct r'.
            + exists s', true. split; [reflexivity|exact Hi'].
            + destruct (IHl s' (incl_tran Hi0 Hi')) as [s2 [r2 [Hg2 Hi2]]].
              exists s2, r2. split; [exact Hg2|exact (incl_tran Hi' Hi2)]. }
        destruct (Hgo (bases n) (n :: seen) (incl_refl _)) as [s [r [Hg Hi]]].
        exists s, r. split; [exact Hg|]. intros y Hy. apply Hi. right. exact Hy.
      * destruct (Hoor n Hge) as [Hb Hu]. rewrite Hb, Hu.
        exists (n :: seen), false. split; [reflexivity|]. intros y Hy. right. exact Hy.
Qed.

(* a type that extends itself: the answer is "no", at once *)
Lemma ghastag_selfext :
  ghastag (fun _ => false) (fun n => if Nat.eqb n 0 then [0] else []) (fun _ => None) 2 [] 0 = Some ([0], false).
Proof. vm_compute. reflexivity. Qed.

(* ---------------------------------------------------------------------- *)
(* Part 1: accepted designs have no dangling checked reference            *)
(* ---------------------------------------------------------------------- *)

Lemma validate_nil d : validate d = [] -> dsl_errors d = [] /\ validation_errors d = [].
Proof. unfold validate. destruct (dsl_errors d); [auto|discriminate]. Qed.

Lemma find_some_in {A} (p : A -> bool) l x : List.find p l = Some x -> In x l /\ p x = true.
Proof. apply find_some. Qed.

Lemma req_schemes_ok d q : dsl_errors_req (d_schemes d) q = [] ->
  forall r, In r (req_refs d q) -> resolves r.
Proof.
  unfold dsl_errors_req, req_refs. intros H r Hin. apply in_map_iff in Hin. destruct Hin as [s [<- Hs]].
  assert (Hf := map_filter_nil _ _ _ H s Hs). apply negb_false_iff in Hf. apply existsb_exists in Hf.
  destruct Hf as [sc [Hsc Heq]]. apply Nat.eqb_eq in Heq. simpl. exists sc. split; assumption.
Qed.

Lemma eresponse_ok ls er : validate_eresponse ls er = [] ->
  forall r, In r (RError ls (er_name er) :: map (RErrAttr ls (er_name er)) (er_headers er)) -> resolves r.
Proof.
  unfold validate_eresponse. intros H r Hin. destruct (find_err ls (er_name er)) as [e|] eqn:Ef; [|discriminate].
  destruct Hin as [<-|Hin].
  - simpl. unfold find_err in Ef. apply find_some_in in Ef. destruct Ef as [Hi He]. apply Nat.eqb_eq in He.
    exists e. split; assumption.
  - apply in_map_iff in Hin. destruct Hin as [n [<- Hn]]. simpl. intros ed Hed. rewrite Ef in Hed. inversion Hed; subst ed.
    destruct (e_shape e) as [|attrs| |]; try exact I.
    assert (Hf := map_filter_nil _ _ _ H n Hn). apply negb_false_iff in Hf. apply mem_In. exact Hf.
Qed.

(* result_has is exactly "the name resolves in an object result" *)
Lemma result_has_iff r attrs n : r_shape r = SObj attrs -> (result_has r n = true <-> obj_result_resolves r attrs n).
Proof.
  intro Hs. unfold result_has, obj_result_resolves. rewrite Hs.
  destruct (r_views r) as [vs|].
  - destruct (r_fixed r) as [v|].
    + destruct (lookup_view vs v) as [w|] eqn:El.
      * split; [intro Hm; exists w; split; [reflexivity|apply mem_In; exact Hm]|].
        intros [w' [Hw Hin]]. inversion Hw; subst w'. apply mem_In. exact Hin.
      * split; [discriminate|]. intros [w' [Hw _]]. discriminate.
    + rewrite andb_true_iff, forallb_forall. split.
      * intros [Hall Hm]. split; [apply mem_In; exact Hm|]. intros w Hw. apply mem_In. exact (Hall w Hw).
      * intros [Hm Hall]. split; [|apply mem_In; exact Hm]. intros w Hw. apply mem_In. exact (Hall w Hw).
  - apply mem_In.
Qed.

Lemma result_has_resolves m n : result_has (m_result m) n = true -> resolves (RResult m n) /\ resolves (RResultBody m n).
Proof.
  intro H. simpl. destruct (r_shape (m_result m)) as [|attrs| |] eqn:Es;
    try (unfold result_has in H; rewrite Es in H; discriminate).
  split; exact (proj1 (result_has_iff _ attrs n Es) H).
Qed.

Lemma missing_resolves m ns : missing (m_payload m) ns = [] -> forall n, In n ns -> resolves (RPayload m n).
Proof.
  unfold missing. intros H n Hn. simpl. destruct (m_payload m) as [|attrs| |]; simpl in *.
  - assert (Hf := filter_nil _ _ H n Hn). discriminate.
  - assert (Hf := filter_nil _ _ H n Hn). apply negb_false_iff in Hf. apply mem_In. exact Hf.
  - assert (Hf := filter_nil _ _ H n Hn). discriminate.
  - exact I.
Qed.

Lemma response_ok m rs : validate_response m rs = [] ->
  (forall n, In n (rs_headers rs ++ rs_cookies rs) -> resolves (RResult m n)) /\
  (forall n, In n (body_names (rs_body rs)) -> resolves (RResultBody m n)).
Proof.
  unfold validate_response. intros H.
  apply app_nil_both in H. destruct H as [Hh H]. apply app_nil_both in H. destruct H as [Hc Hb]. split.
  - intros n Hin. apply in_app_or in Hin. destruct Hin as [Hin|Hin].
    + destruct (rs_headers rs) as [|h0 hs] eqn:Eh; [contradiction|].
      destruct (r_shape (m_result m)) as [|attrs| |] eqn:Es; try discriminate.
      * apply result_has_resolves. assert (Hf := map_filter_nil _ _ _ Hh n Hin). apply negb_false_iff in Hf. exact Hf.
      * simpl. rewrite Es. exact I.
      * simpl. rewrite Es. exact I.
    + destruct (rs_cookies rs) as [|c0 cs] eqn:Ec; [contradiction|].
      destruct (r_shape (m_result m)) as [|attrs| |] eqn:Es; try discriminate.
      * apply result_has_resolves. assert (Hf := map_filter_nil _ _ _ Hc n Hin). apply negb_false_iff in Hf. exact Hf.
      * simpl. rewrite Es. exact I.
      * simpl. rewrite Es. exact I.
  - intros n Hin. apply result_has_resolves. assert (Hf := map_filter_nil _ _ _ Hb n Hin). apply negb_false_iff in Hf. exact Hf.
Qed.

Lemma tags_ok m h : validate_tags m h = [] -> forall t, In t (tags_of h) -> resolves (RTag m t).
Proof.
  unfold validate_tags. intros H t Ht. simpl. destruct (tags_of h) as [|t0 ts] eqn:Et; [contradiction|].
  destruct (r_shape (m_result m)) as [|attrs| |]; try discriminate.
  assert (Hf := map_filter_nil _ _ _ H t Ht). apply negb_false_iff in Hf. apply mem_In. exact Hf.
Qed.

Lemma http_ok d s m h : dsl_errors_http m h = [] -> validate_http d s m h = [] ->
  forall r, In r (http_refs d s m h) -> resolves r.
Proof.
  unfold dsl_errors_http, validate_http, http_refs. intros Hd Hv r Hin.
  apply app_nil_both in Hd. destruct Hd as [Hdb Hdr].
  apply app_nil_both in Hv. destruct Hv as [_ Hv].
  apply app_nil_both in Hv. destruct Hv as [Hpath Hv].
  apply app_nil_both in Hv. destruct Hv as [Hquery Hv].
  apply app_nil_both in Hv. destruct Hv as [Hhead Hv].
  apply app_nil_both in Hv. destruct Hv as [Hcook Hv].
  apply app_nil_both in Hv. destruct Hv as [Hbody Hv].
  apply app_nil_both in Hv. destruct Hv as [Hmp Hv].
  apply app_nil_both in Hv. destruct Hv as [Hresp Hv].
  apply app_nil_both in Hv. destruct Hv as [Htags Herr].
  apply in_app_or in Hin. destruct Hin as [Hin|Hin]; [|apply in_app_or in Hin; destruct Hin as [Hin|Hin]; [|apply in_app_or in Hin; destruct Hin as [Hin|Hin]]].
  - apply in_map_iff in Hin. destruct Hin as [n [<- Hn]].
    apply in_app_or in Hn. destruct Hn as [Hn|Hn]; [exact (missing_resolves m _ (map_nil _ _ Hpath) n Hn)|].
    apply in_app_or in Hn. destruct Hn as [Hn|Hn]; [exact (missing_resolves m _ (map_nil _ _ Hquery) n Hn)|].
    apply in_app_or in Hn. destruct Hn as [Hn|Hn]; [exact (missing_resolves m _ (map_nil _ _ Hhead) n Hn)|].
    exact (missing_resolves m _ (map_nil _ _ Hcook) n Hn).
  - apply in_map_iff in Hin. destruct Hin as [n [<- Hn]]. simpl.
    destruct (m_payload m) as [|attrs| |] eqn:Ep; try exact I.
    apply in_app_or in Hn. destruct Hn as [Hn|Hn].
    + destruct (h_body h) as [|bn|bns|] eqn:Eb; simpl in Hn; try contradiction.
      * destruct Hn as [<-|[]]. simpl in Hdb.
        destruct (mem bn attrs) eqn:Em; simpl in Hdb; [apply mem_In; exact Em|discriminate].
      * simpl in Hbody. assert (Hf := map_filter_nil _ _ _ Hbody n Hn). apply negb_false_iff in Hf. apply mem_In. exact Hf.
    + destruct (h_mapparams h) as [[mp|]|] eqn:Emp; simpl in Hn; try contradiction.
      destruct Hn as [<-|[]]. simpl in Hmp.
      destruct (mem mp attrs) eqn:Em; [apply mem_In; exact Em|discriminate].
  - apply in_flat_map in Hin. destruct Hin as [rs [Hrs Hin]].
    assert (Hr := flat_map_nil _ _ Hresp rs Hrs).
    apply in_app_or in Hin. destruct Hin as [Hin|Hin].
    + apply in_map_iff in Hin. destruct Hin as [n [<- Hn]]. exact (proj1 (response_ok m rs Hr) n Hn).
    + apply in_app_or in Hin. destruct Hin as [Hin|Hin];
        [apply in_map_iff in Hin; destruct Hin as [n [<- Hn]]; exact (proj2 (response_ok m rs Hr) n Hn)|].
      destruct (rs_tag rs) as [t|] eqn:Etag; [|contradiction]. destruct Hin as [<-|[]].
      apply (tags_ok m h Htags). unfold tags_of. apply in_flat_map. exists rs. split; [exact Hrs|].
      rewrite Etag. left. reflexivity.
  - apply in_flat_map in Hin. destruct Hin as [er [Her Hin]].
    exact (eresponse_ok _ er (flat_map_nil _ _ Herr er Her) r Hin).
Qed.

Lemma cred_eqb_eq a b : cred_eqb a b = true -> a = b.
Proof. destruct a, b; simpl; intro H; try discriminate; try reflexivity. apply Nat.eqb_eq in H. subst. reflexivity. Qed.

Lemma creds_ok d s m : validate_creds d s m = [] ->
  forall q n c, In q (effective_reqs d s m) -> In n (q_schemes q) -> In c (needed d n) -> resolves (RCred m c).
Proof.
  unfold validate_creds. intros H q n c Hq Hn Hc. apply app_nil_both in H. destruct H as [H _].
  assert (H1 := flat_map_nil _ _ H q Hq). cbv beta in H1. assert (H2 := flat_map_nil _ _ H1 n Hn). cbv beta in H2.
  assert (Hf := map_filter_nil _ _ _ H2 c Hc). apply negb_false_iff in Hf.
  unfold has_cred in Hf. apply existsb_exists in Hf. destruct Hf as [x [Hx He]]. apply cred_eqb_eq in He. subst x. exact Hx.
Qed.

Lemma method_ok d s m : validate_method d s m = [] ->
  (forall q n, In q (effective_reqs d s m) -> In n (q_scopes q) -> resolves (RScope d q n)) /\
  (forall q n c, In q (effective_reqs d s m) -> In n (q_schemes q) -> In c (needed d n) -> resolves (RCred m c)).
Proof.
  unfold validate_method. intro H. apply app_nil_both in H. destruct H as [Hc Hs].
  split; [|exact (creds_ok d s m Hc)].
  intros q n Hq Hn. assert (Hq' := flat_map_nil _ _ Hs q Hq). simpl in Hq'.
  assert (Hf := map_filter_nil _ _ _ Hq' n Hn). apply negb_false_iff in Hf.
  unfold scope_known in Hf. apply existsb_exists in Hf. destruct Hf as [sn [Hsn Hf]].
  apply existsb_exists in Hf. destruct Hf as [sc [Hsc Hf]]. apply andb_true_iff in Hf. destruct Hf as [He Hm].
  apply Nat.eqb_eq in He. simpl. exists sn, sc. repeat split; try assumption. apply mem_In. exact Hm.
Qed.

Lemma attr_ok ats n a v : attr_errors ats n = [] -> nth_error ats n = Some a -> a_view a = Some v ->
  resolves (RAttrView ats n v).
Proof.
  unfold attr_errors. intros H Ha Hv. rewrite Ha, Hv in H. apply app_nil_both in H. destruct H as [H _].
  destruct (a_rtviews a) as [vs|] eqn:Er; [|discriminate].
  destruct (Nat.eqb v default_view || mem v vs) eqn:E; [|discriminate].
  simpl. exists a, vs. repeat split; try assumption.
  apply orb_true_iff in E. destruct E as [E|E]; [left; apply Nat.eqb_eq; exact E|right; apply mem_In; exact E].
Qed.

Lemma rtype_ok t : dsl_errors_rtype t = [] ->
  forall w n, In w (rt_views t) -> In n (v_attrs w) -> resolves (RViewAttr t n).
Proof.
  unfold dsl_errors_rtype. intros H w n Hw Hn. assert (Hw' := flat_map_nil _ _ H w Hw). simpl in Hw'.
  assert (Hf := map_filter_nil _ _ _ Hw' n Hn). apply negb_false_iff in Hf. simpl. apply mem_In. exact Hf.
Qed.

Lemma required_ok g roots : required_errors g roots = Some [] ->
  forall n nd x, In n (reachable_nodes g roots) -> get g n = Some nd ->
    (exists fs, n_kind nd = KObj fs) -> In x (n_req nd) -> resolves (RRequired g n x).
Proof.
  unfold required_errors, reachable_nodes. destruct (walk_roots (validate_children g) (graph_fuel g) [] roots) as [vis|]; [|discriminate].
  intros H n nd x Hin Hg [fs Hk] Hx. inversion H as [H0]. assert (Hn := flat_map_nil _ _ H0 n Hin).
  unfold missing_required in Hn. rewrite Hg, Hk in Hn. assert (Hf := filter_nil _ _ Hn x Hx). cbv beta in Hf. unfold resolves.
  destruct (gfind g (find_fuel g) [] n x) as [[s [c|]]|]; try discriminate. exists s, c. reflexivity.
Qed.

Theorem refs_resolve d : validate d = [] -> forall r, In r (refs d) -> resolves r.
Proof.
  intros Hv r Hin. apply validate_nil in Hv. destruct Hv as [Hd Hv].
  unfold dsl_errors in Hd. apply app_nil_both in Hd. destruct Hd as [Hdq Hd]. apply app_nil_both in Hd. destruct Hd as [Hdt Hds].
  unfold validation_errors in Hv. apply app_nil_both in Hv. destruct Hv as [Hve Hv]. apply app_nil_both in Hv. destruct Hv as [Hvs Hv].
  apply app_nil_both in Hv. destruct Hv as [Hvr Hva].
  unfold refs in Hin.
  apply in_app_or in Hin. destruct Hin as [Hin|Hin].
  { apply in_flat_map in Hin. destruct Hin as [q [Hq Hin]]. exact (req_schemes_ok d q (flat_map_nil _ _ Hdq q Hq) r Hin). }
  apply in_app_or in Hin. destruct Hin as [Hin|Hin].
  { apply in_flat_map in Hin. destruct Hin as [t [Ht Hin]]. apply in_flat_map in Hin. destruct Hin as [w [Hw Hin]].
    apply in_map_iff in Hin. destruct Hin as [n [<- Hn]]. exact (rtype_ok t (flat_map_nil _ _ Hdt t Ht) w n Hw Hn). }
  apply in_app_or in Hin. destruct Hin as [Hin|Hin].
  { apply in_flat_map in Hin. destruct Hin as [er [Her Hin]]. exact (eresponse_ok _ er (flat_map_nil _ _ Hve er Her) r Hin). }
  apply in_app_or in Hin. destruct Hin as [Hin|Hin].
  - apply in_flat_map in Hin. destruct Hin as [s [Hs Hin]].
    assert (Hds' := flat_map_nil _ _ Hds s Hs). simpl in Hds'. apply app_nil_both in Hds'. destruct Hds' as [Hsq Hsm].
    assert (Hvs' := flat_map_nil _ _ Hvs s Hs). simpl in Hvs'. apply app_nil_both in Hvs'. destruct Hvs' as [Hse Hvm].
    apply in_app_or in Hin. destruct Hin as [Hin|Hin].
    { apply in_flat_map in Hin. destruct Hin as [q [Hq Hin]]. exact (req_schemes_ok d q (flat_map_nil _ _ Hsq q Hq) r Hin). }
    apply in_app_or in Hin. destruct Hin as [Hin|Hin].
    { apply in_flat_map in Hin. destruct Hin as [er [Her Hin]]. exact (eresponse_ok _ er (flat_map_nil _ _ Hse er Her) r Hin). }
    apply in_flat_map in Hin. destruct Hin as [m [Hm Hin]].
    assert (Hdm := flat_map_nil _ _ Hsm m Hm). simpl in Hdm. apply app_nil_both in Hdm. destruct Hdm as [Hmq Hmh].
    assert (Hvm' := flat_map_nil _ _ Hvm m Hm). simpl in Hvm'. apply app_nil_both in Hvm'. destruct Hvm' as [Hmm Hmhv].
    destruct (method_ok d s m Hmm) as [Hscope Hcred].
    apply in_app_or in Hin. destruct Hin as [Hin|Hin].
    { apply in_flat_map in Hin. destruct Hin as [q [Hq Hin]]. exact (req_schemes_ok d q (flat_map_nil _ _ Hmq q Hq) r Hin). }
    apply in_app_or in Hin. destruct Hin as [Hin|Hin].
    { apply in_flat_map in Hin. destruct Hin as [q [Hq Hin]]. apply in_map_iff in Hin. destruct Hin as [n [<- Hn]]. exact (Hscope q n Hq Hn). }
    apply in_app_or in Hin. destruct Hin as [Hin|Hin].
    { apply in_flat_map in Hin. destruct Hin as [q [Hq Hin]]. apply in_flat_map in Hin. destruct Hin as [n [Hn Hin]].
      apply in_map_iff in Hin. destruct Hin as [c [<- Hc]]. exact (Hcred q n c Hq Hn Hc). }
    destruct (m_http m) as [h|]; [|contradiction].
    exact (http_ok d s m h Hmh Hmhv r Hin).
  - apply in_app_or in Hin. destruct Hin as [Hin|Hin].
    + apply in_flat_map in Hin. destruct Hin as [n [Hn Hin]].
      destruct (get (d_graph d) n) as [nd|] eqn:Eg; [|contradiction].
      destruct (n_kind nd) as [| | |fs] eqn:Ek; try contradiction.
      apply in_map_iff in Hin. destruct Hin as [x [<- Hx]].
      destruct (required_errors (d_graph d) (d_roots d)) as [ns|] eqn:Er; [|discriminate].
      apply map_nil in Hvr. subst ns.
      exact (required_ok _ _ Er n nd x Hn Eg (ex_intro _ fs Ek) Hx).
    + apply in_flat_map in Hin. destruct Hin as [n [Hn Hin]].
      destruct (nth_error (d_attrs d) n) as [a|] eqn:Ea; [|contradiction].
      destruct (a_view a) as [v|] eqn:Ev; [|contradiction]. destruct Hin as [<-|[]].
      exact (attr_ok _ n a v (flat_map_nil _ _ Hva n Hn) Ea Ev).
Qed.

(* ---- every attribute reachable from the roots is visited (and so checked) ---- *)

Inductive reach (children : nat -> list nat) (roots : list nat) : nat -> Prop :=
| reach_root r : In r roots -> reach children roots r
| reach_child x c : reach children roots x -> In c (children x) -> reach children roots c.

Lemma walk_closed children : forall fuel vis n v,
  walk children fuel vis n = Some v ->
  In n v /\ incl vis v /\ (forall x, In x v -> In x vis \/ (forall c, In c (children x) -> In c v)).
Proof.
  induction fuel as [|f IH]; intros vis n v H; [discriminate|].
  simpl in H. destruct (mem n vis) eqn:Em.
  - inversion H; subst v. split; [apply mem_In; exact Em|]. split; [apply incl_refl|]. intros x Hx. left. exact Hx.
  - assert (Hfold : forall cs v0 v1,
      fold_left (fun acc c => match acc with None => None | Some v => walk children f v c end) cs (Some v0) = Some v1 ->
      incl v0 v1 /\ (forall c, In c cs -> In c v1) /\
      (forall x, In x v1 -> In x v0 \/ (forall c, In c (children x) -> In c v1))).
    { induction cs as [|c cs IHcs]; intros v0 v1 Hf.
      - simpl in Hf. inversion Hf; subst v1. split; [apply incl_refl|]. split; [intros c []|]. intros x Hx. left. exact Hx.
      - simpl in Hf. destruct (walk children f v0 c) as [v0'|] eqn:Ew.
        + destruct (IH v0 c v0' Ew) as [Hc [Hi Hcl]]. destruct (IHcs v0' v1 Hf) as [Hi2 [Hall Hcl2]].
          split; [exact (incl_tran Hi Hi2)|]. split.
          * intros c' [<-|Hc']; [apply Hi2; exact Hc|exact (Hall c' Hc')].
          * intros x Hx. destruct (Hcl2 x Hx) as [Hx0|Hch]; [|right; exact Hch].
            destruct (Hcl x Hx0) as [Hxv|Hch]; [left; exact Hxv|]. right. intros c' Hc'. apply Hi2. exact (Hch c' Hc').
        + exfalso. clear -Hf. induction cs; simpl in Hf; [discriminate|auto]. }
    destruct (Hfold (children n) (n :: vis) v H) as [Hi [Hall Hcl]].
    split; [apply Hi; left; reflexivity|]. split; [intros x Hx; apply Hi; right; exact Hx|].
    intros x Hx. destruct (Hcl x Hx) as [[<-|Hxv]|Hch]; [right; exact Hall|left; exact Hxv|right; exact Hch].
Qed.

Lemma walk_roots_closed children fuel : forall roots vis v,
  walk_roots children fuel vis roots = Some v ->
  incl vis v /\ (forall r, In r roots -> In r v) /\
  (forall x, In x v -> In x vis \/ (forall c, In c (children x) -> In c v)).
Proof.
  induction roots as [|r rs IH]; intros vis v H; simpl in H.
  - inversion H; subst v. split; [apply incl_refl|]. split; [intros r []|]. intros x Hx. left. exact Hx.
  - destruct (walk children fuel vis r) as [v0|] eqn:Ew; [|discriminate].
    destruct (walk_closed children fuel vis r v0 Ew) as [Hr [Hi Hcl]].
    destruct (IH v0 v H) as [Hi2 [Hall Hcl2]].
    split; [exact (incl_tran Hi Hi2)|]. split.
    + intros r' [<-|Hr']; [apply Hi2; exact Hr|exact (Hall r' Hr')].
    + intros x Hx. destruct (Hcl2 x Hx) as [Hx0|Hch]; [|right; exact Hch].
      destruct (Hcl x Hx0) as [Hxv|Hch]; [left; exact Hxv|]. right. intros c Hc. apply Hi2. exact (Hch c Hc).
Qed.

Lemma reachable_complete g roots n : reach (validate_children g) roots n -> In n (reachable_nodes g roots).
Proof.
  unfold reachable_nodes, graph_fuel.
  destruct (walk_roots_terminates (validate_children g) (List.length g) (validate_children_oor g) roots _ [] (unvis_any_lt _ []))
    as [v [Hw _]]. rewrite Hw.
  destruct (walk_roots_closed _ _ roots [] v Hw) as [_ [Hroots Hcl]].
  induction 1 as [r Hr|x c Hx IHx Hc]; [exact (Hroots r Hr)|].
  destruct (Hcl x IHx) as [[]|Hch]. exact (Hch c Hc).
Qed.

(* a memo keyed by the TYPE of the attribute skips every attribute but the first of a
   result type: Result { first: RT; second: RT with View("nope") }, RT defines view 5 only.
   nodes: 0 result, 1 first, 2 second, 3 RT's attribute, 4 a. names: first 1, second 2, a 3, nope 9 *)
Definition twice_graph : graph :=
  [ mkN (KObj [(1, 1); (2, 2)]) None [] [];
    mkN (KObj [(3, 4)]) (Some 3) [] [];
    mkN (KObj [(3, 4)]) (Some 3) [] [];
    mkN (KObj [(3, 4)]) None [] [];
    mkN KPrim None [] [] ].
Definition twice_attrs : list nattr :=
  [ mkA None None false; mkA None (Some [0; 5]) false; mkA (Some 9) (Some [0; 5]) false; mkA None None false; mkA None None false ].

Lemma type_keyed_memo_skips :
  flat_map (attr_errors twice_attrs) (visited_keyed (type_key twice_graph) twice_graph [0]) = [] /\
  flat_map (attr_errors twice_attrs) (visited_keyed (fun n => n) twice_graph [0]) = [EView 9] /\
  flat_map (attr_errors twice_attrs) (reachable_nodes twice_graph [0]) = [EView 9].
Proof. repeat split; vm_compute; reflexivity. Qed.

(* ---- references that used to go unchecked: the same designs are now rejected ---- *)

(* Result { a } ; Response(202, Tag("zzz","v")) ; Response(200): names: a = 1, zzz = 2 *)
Definition tag_method : method :=
  mkM SEmpty [] (mkR (SObj [1]) None None) [] []
      (Some (mkH [] [] [] [] BDefault None [mkRs (Some 2) [] [] BDefault; mkRs None [] [] BDefault] [])).
Definition tag_design : design :=
  mkD [] [] [] [] [] [mkS [] [] [] [tag_method]] [mkN (KObj [(1, 1)]) None [] []; mkN KPrim None [] []] [0] [].

Lemma tag_design_rejected : validate tag_design = [ETag 2].
Proof. vm_compute. reflexivity. Qed.

(* Payload { mm: MapOf(String, O) }, O = Type { x; Required("zzz") }. nodes: 0 payload,
   1 mm, 2 key, 3 elem (type O), 4 O's attribute, 5 x. names: mm = 1, x = 2, zzz = 3 *)
Definition reqmap_graph : graph :=
  [ mkN (KObj [(1, 1)]) None [] [];
    mkN (KMap 2 3) None [] [];
    mkN KPrim None [] [];
    mkN (KObj [(2, 5)]) (Some 4) [3] [];
    mkN (KObj [(2, 5)]) None [3] [];
    mkN KPrim None [] [] ].
Definition reqmap_design : design :=
  mkD [] [] [] [] [] [mkS [] [] [] [mkM (SObj [1]) [] (mkR SEmpty None None) [] [] None]] reqmap_graph [0] [].

Lemma reqmap_rejected : validate reqmap_design = [ERequired 3].
Proof. vm_compute. reflexivity. Qed.

(* ---------------------------------------------------------------------- *)
(* Part 3: misplaced calls                                                *)
(* ---------------------------------------------------------------------- *)

Lemma misplaced_reports e c : f_kind e = KStrict -> allowed e c = false ->
  eval_call c e = [Incompatible (f_name e)].
Proof. intros Hk Ha. unfold eval_call. rewrite Hk, Ha. reflexivity. Qed.

Lemma bad_dtype_reports e c : f_kind e = KStrict -> allowed e c = true -> dtype_ok e c = false ->
  eval_call c e = [BadDataType (f_name e)].
Proof. intros Hk Ha Hd. unfold eval_call. rewrite Hk, Ha, Hd. reflexivity. Qed.

Lemma errors_not_accepted p later : dsl_phase p <> [] -> run_program p later <> Accepted.
Proof. unfold run_program. destruct (dsl_phase p); [congruence|discriminate]. Qed.

Lemma reported_not_accepted e c p later : eval_call c e <> [] -> In (c, e) p ->
  run_program p later <> Accepted.
Proof.
  intros Hne Hin. apply errors_not_accepted. intro Hnil.
  assert (H := flat_map_nil _ _ Hnil (c, e) Hin). simpl in H. contradiction.
Qed.

Lemma misplaced_not_accepted e c p later : f_kind e = KStrict -> allowed e c = false -> In (c, e) p ->
  run_program p later <> Accepted.
Proof.
  intros Hk Ha Hin. apply (reported_not_accepted e c p later); [|exact Hin].
  rewrite (misplaced_reports e c Hk Ha). discriminate.
Qed.

Definition fkind_eqb (a b : fkind) : bool :=
  match a, b with KStrict, KStrict | KSilent, KSilent | KAny, KAny | KUnknown, KUnknown => true | _, _ => false end.

Definition is_unknown (e : fentry) : bool := fkind_eqb (f_kind e) KUnknown.

Lemma table_no_unknown_b : forallb (fun e => negb (is_unknown e)) table = true.
Proof. vm_compute. reflexivity. Qed.

Lemma table_no_unknown e : In e table -> f_kind e <> KUnknown.
Proof.
  intros Hin Hk. assert (H := proj1 (forallb_forall _ _) table_no_unknown_b e Hin).
  unfold is_unknown in H. rewrite Hk in H. discriminate.
Qed.

(* ---- the extracted table is the documented one ---- *)

Definition tsubset (a b : list etype) : bool := forallb (fun t => tmem t b) a.

Definition dguard_eq_dec (a b : dguard) : {a = b} + {a <> b}.
Proof. decide equality. Defined.
Definition gmem (x : dguard) (l : list dguard) : bool := existsb (fun y => if dguard_eq_dec x y then true else false) l.
Definition gsubset (a b : list dguard) : bool := forallb (fun x => gmem x b) a.

Definition same_entry (a b : fentry) : bool :=
  String.eqb (f_name a) (f_name b) && fkind_eqb (f_kind a) (f_kind b) && Bool.eqb (f_nested a) (f_nested b) &&
  tsubset (f_types a) (f_types b) && tsubset (f_types b) (f_types a) &&
  gsubset (f_dguard a) (f_dguard b) && gsubset (f_dguard b) (f_dguard a).

Fixpoint entries_agree (a b : list fentry) : bool :=
  match a, b with
  | [], [] => true
  | x :: a', y :: b' => same_entry x y && entries_agree a' b'
  | _, _ => false
  end.

Lemma table_agrees_b : entries_agree table documented = true.
Proof. vm_compute. reflexivity. Qed.

Lemma tmem_In t l : tmem t l = true <-> In t l.
Proof.
  unfold tmem. rewrite existsb_exists. split.
  - intros [x [Hin He]]. unfold etype_eqb in He. destruct (etype_eq_dec t x); [subst; exact Hin|discriminate].
  - intro Hin. exists t. split; [exact Hin|]. unfold etype_eqb. destruct (etype_eq_dec t t); [reflexivity|contradiction].
Qed.

Lemma fkind_eqb_eq a b : fkind_eqb a b = true -> a = b.
Proof. destruct a, b; simpl; intro H; try discriminate; reflexivity. Qed.

Lemma allowed_ext a b c : tsubset (f_types a) (f_types b) = true -> tsubset (f_types b) (f_types a) = true ->
  allowed a c = allowed b c.
Proof.
  intros Hab Hba. unfold allowed. apply eq_true_iff_eq. rewrite !existsb_exists.
  unfold tsubset in *. rewrite forallb_forall in Hab, Hba.
  split; intros [t [Hin Hm]]; exists t; (split; [exact Hin|]); apply tmem_In; apply tmem_In in Hm; [apply tmem_In, Hab|apply tmem_In, Hba]; exact Hm.
Qed.

Lemma gmem_In x l : gmem x l = true <-> In x l.
Proof.
  unfold gmem. rewrite existsb_exists. split.
  - intros [y [Hin He]]. destruct (dguard_eq_dec x y); [subst; exact Hin|discriminate].
  - intro Hin. exists x. split; [exact Hin|]. destruct (dguard_eq_dec x x); [reflexivity|contradiction].
Qed.

Lemma dtype_ok_ext a b c : gsubset (f_dguard a) (f_dguard b) = true -> gsubset (f_dguard b) (f_dguard a) = true ->
  dtype_ok a c = dtype_ok b c.
Proof.
  intros Hab Hba. unfold gsubset in *. rewrite forallb_forall in Hab, Hba. unfold dtype_ok.
  destruct (f_dguard a) as [|ga la] eqn:Ea; destruct (f_dguard b) as [|gb lb] eqn:Eb; try reflexivity.
  - exfalso. assert (H := Hba gb (or_introl eq_refl)). discriminate.
  - exfalso. assert (H := Hab ga (or_introl eq_refl)). discriminate.
  - destruct (ctx_dtype c) as [d|]; [|reflexivity]. destruct d; try reflexivity;
      apply eq_true_iff_eq; rewrite !existsb_exists;
      (split; intros [gd [Hin Hacc]]; exists gd; (split; [|exact Hacc]); apply gmem_In; [apply Hab|apply Hba]; exact Hin).
Qed.

(* entry by entry, the extracted function behaves as documented in every context *)
Lemma entries_agree_calls : forall a b, entries_agree a b = true ->
  forall i ea eb c, nth_error a i = Some ea -> nth_error b i = Some eb ->
    f_name ea = f_name eb /\ eval_call c ea = eval_call c eb.
Proof.
  induction a as [|x a IH]; intros [|y b] H i ea eb c Ha Hb; try discriminate; try (destruct i; discriminate).
  simpl in H. apply andb_true_iff in H. destruct H as [Hxy Hr].
  destruct i as [|i]; simpl in Ha, Hb.
  - inversion Ha; inversion Hb; subst. unfold same_entry in Hxy.
    apply andb_true_iff in Hxy. destruct Hxy as [Hxy Hg2].
    apply andb_true_iff in Hxy. destruct Hxy as [Hxy Hg1].
    apply andb_true_iff in Hxy. destruct Hxy as [Hxy Ht2].
    apply andb_true_iff in Hxy. destruct Hxy as [Hxy Ht1].
    apply andb_true_iff in Hxy. destruct Hxy as [Hxy Hnest].
    apply andb_true_iff in Hxy. destruct Hxy as [Hname Hkind].
    apply String.eqb_eq in Hname. split; [exact Hname|].
    unfold eval_call. rewrite (fkind_eqb_eq _ _ Hkind), Hname, (allowed_ext ea eb c Ht1 Ht2), (dtype_ok_ext ea eb c Hg1 Hg2). reflexivity.
  - exact (IH b Hr i ea eb c Ha Hb).
Qed.

Lemma reachable_attr_checked d : validate d = [] ->
  forall n a v, reach (validate_children (d_graph d)) (d_roots d) n ->
    nth_error (d_attrs d) n = Some a -> a_view a = Some v -> resolves (RAttrView (d_attrs d) n v).
Proof.
  intros Hv n a v Hr Ha Hview. apply validate_nil in Hv. destruct Hv as [_ Hv].
  unfold validation_errors in Hv. apply app_nil_both in Hv. destruct Hv as [_ Hv]. apply app_nil_both in Hv. destruct Hv as [_ Hv].
  apply app_nil_both in Hv. destruct Hv as [_ Hva].
  exact (attr_ok _ n a v (flat_map_nil _ _ Hva n (reachable_complete _ _ n Hr)) Ha Hview).
Qed.

(* ---------------------------------------------------------------------- *)
(* Part 4: errors name the offending expression                           *)
(* ---------------------------------------------------------------------- *)

Local Open Scope string_scope.

Lemma append_nonempty_l a b : a <> "" -> a ++ b <> "".
Proof. destruct a; simpl; [congruence|discriminate]. Qed.

Lemma svc_name_nonempty n : svc_name n <> "".
Proof. unfold svc_name. destruct (is_empty n); discriminate. Qed.

(* every expression but the top level has a name, whatever the names given in the design
   (empty ones included) and however deep the nesting *)
Lemma eval_name_nonempty p : p <> PTop -> eval_name p <> "".
Proof.
  destruct p as [|n| | |n|h srv|n|svc m|svc m|svc m|svc file|[q|]|[q|]|verb path ep| |n|n|url|summary|ty|[n|]|n];
    intro H; try congruence; simpl; try discriminate;
    try (apply append_nonempty_l; apply svc_name_nonempty).
  - apply svc_name_nonempty.
  - destruct ty; simpl; discriminate.
Qed.

Lemma report_suffix_in p : p <> PTop -> report_suffix p = " in " ++ eval_name p.
Proof.
  intro H. assert (Hn := eval_name_nonempty p H). unfold report_suffix.
  destruct p; try congruence; destruct (eval_name _) eqn:E; simpl; try reflexivity; congruence.
Qed.

Lemma incompatible_msg_located f p : p <> PTop ->
  incompatible_msg f p = "invalid use of " ++ f ++ " in " ++ eval_name p /\ eval_name p <> "".
Proof.
  intro H. split; [|exact (eval_name_nonempty p H)].
  unfold incompatible_msg. rewrite (report_suffix_in p H). reflexivity.
Qed.

Lemma located_call_misplaced e c : f_kind e = KStrict -> allowed e c = false ->
  located_call c e = [incompatible_msg (f_name e) (ctx_path c)].
Proof. intros Hk Ha. unfold located_call. rewrite (misplaced_reports e c Hk Ha). reflexivity. Qed.

Lemma ctx_path_top c : ctx_path c = PTop -> c = CTop.
Proof. destruct c; simpl; intro H; try discriminate; reflexivity. Qed.

Lemma sappend_assoc (a b c : string) : (a ++ b) ++ c = a ++ (b ++ c).
Proof. induction a as [|x a IH]; simpl; [reflexivity|rewrite IH; reflexivity]. Qed.

(* a nested expression's name ends with the name of the expression it belongs to *)
Lemma nested_name_ends_with_parent q :
  (exists pre, eval_name (PHTTPResponse (Some q)) = pre ++ eval_name q) /\
  (exists pre, eval_name (PGRPCResponse (Some q)) = pre ++ eval_name q) /\
  (forall verb path, exists pre, eval_name (PRoute verb path q) = pre ++ eval_name q).
Proof.
  split; [exists "HTTP response of "; reflexivity|]. split; [exists "gRPC response of "; reflexivity|].
  intros verb path. exists ("route " ++ verb ++ " " ++ quote path ++ " of ").
  change (eval_name (PRoute verb path q)) with ("route " ++ verb ++ " " ++ quote path ++ " of " ++ eval_name q).
  repeat rewrite sappend_assoc. reflexivity.
Qed.

(* ---------------------------------------------------------------------- *)
(* Part 1, converse: every transport error is about a reference that dangles *)
(* ---------------------------------------------------------------------- *)

Local Close Scope string_scope.

Lemma missing_dangling m ns n : In n (missing (m_payload m) ns) -> In n ns /\ ~ resolves (RPayload m n).
Proof.
  unfold missing. simpl. destruct (m_payload m) as [|attrs| |]; simpl; intro H; try contradiction;
    apply filter_In in H; destruct H as [Hin Hf]; (split; [exact Hin|]); try tauto.
  apply negb_true_iff in Hf. intro Hr. apply mem_In in Hr. congruence.
Qed.

Lemma find_err_none ls n : find_err ls n = None -> ~ exists e, In e (List.concat ls) /\ e_name e = n.
Proof.
  unfold find_err. intros H [e [Hin He]]. assert (Hf := find_none _ _ H e Hin). simpl in Hf.
  rewrite He, Nat.eqb_refl in Hf. discriminate.
Qed.

Lemma eresponse_dangling ls er e : In e (validate_eresponse ls er) ->
  exists r, In r (RError ls (er_name er) :: map (RErrAttr ls (er_name er)) (er_headers er)) /\ ~ resolves r.
Proof.
  unfold validate_eresponse. destruct (find_err ls (er_name er)) as [ed|] eqn:Ef.
  - destruct (e_shape ed) as [|attrs| |] eqn:Es; try (intros []).
    intro H. apply in_map_iff in H. destruct H as [n [_ Hn]]. apply filter_In in Hn. destruct Hn as [Hn Hf].
    exists (RErrAttr ls (er_name er) n). split; [right; apply in_map; exact Hn|].
    simpl. intro Hr. specialize (Hr ed Ef). rewrite Es in Hr. apply mem_In in Hr. apply negb_true_iff in Hf. congruence.
  - intros _. exists (RError ls (er_name er)). split; [left; reflexivity|]. exact (find_err_none ls _ Ef).
Qed.

Lemma not_result_has m n : result_has (m_result m) n = false ->
  ~ resolves (RResultBody m n) /\ (forall attrs, r_shape (m_result m) = SObj attrs -> ~ resolves (RResult m n)).
Proof.
  intro H. split.
  - simpl. destruct (r_shape (m_result m)) as [|attrs| |] eqn:Es; try tauto.
    intro Hr. apply (result_has_iff _ attrs n Es) in Hr. congruence.
  - intros attrs Es. simpl. rewrite Es. intro Hr. apply (result_has_iff _ attrs n Es) in Hr. congruence.
Qed.

Lemma response_dangling m rs e : In e (validate_response m rs) ->
  exists r, In r (map (RResult m) (rs_headers rs ++ rs_cookies rs) ++ map (RResultBody m) (body_names (rs_body rs))) /\ ~ resolves r.
Proof.
  unfold validate_response. intro H. apply in_app_or in H. destruct H as [H|H]; [|apply in_app_or in H; destruct H as [H|H]].
  - destruct (rs_headers rs) as [|h0 hs] eqn:Eh; [contradiction|].
    destruct (r_shape (m_result m)) as [|attrs| |] eqn:Es; try contradiction.
    + exists (RResult m h0). split; [apply in_or_app; left; apply in_map; apply in_or_app; left; left; reflexivity|].
      simpl. rewrite Es. tauto.
    + apply in_map_iff in H. destruct H as [n [_ Hn]]. apply filter_In in Hn. destruct Hn as [Hn Hf].
      exists (RResult m n). split; [apply in_or_app; left; apply in_map; apply in_or_app; left; exact Hn|].
      apply negb_true_iff in Hf. exact (proj2 (not_result_has m n Hf) attrs Es).
  - destruct (rs_cookies rs) as [|c0 cs] eqn:Ec; [contradiction|].
    destruct (r_shape (m_result m)) as [|attrs| |] eqn:Es; try contradiction.
    + exists (RResult m c0). split; [apply in_or_app; left; apply in_map; apply in_or_app; right; left; reflexivity|].
      simpl. rewrite Es. tauto.
    + apply in_map_iff in H. destruct H as [n [_ Hn]]. apply filter_In in Hn. destruct Hn as [Hn Hf].
      exists (RResult m n). split; [apply in_or_app; left; apply in_map; apply in_or_app; right; exact Hn|].
      apply negb_true_iff in Hf. exact (proj2 (not_result_has m n Hf) attrs Es).
  - apply in_map_iff in H. destruct H as [n [_ Hn]]. apply filter_In in Hn. destruct Hn as [Hn Hf].
    exists (RResultBody m n). split; [apply in_or_app; right; apply in_map; exact Hn|].
    apply negb_true_iff in Hf. exact (proj1 (not_result_has m n Hf)).
Qed.

Lemma tags_dangling m h e : In e (validate_tags m h) -> exists t, In t (tags_of h) /\ ~ resolves (RTag m t).
Proof.
  unfold validate_tags. destruct (tags_of h) as [|t0 ts] eqn:Et; [intros []|].
  assert (H0 : In t0 (t0 :: ts)) by (left; reflexivity).
  remember (t0 :: ts) as tl eqn:Etl. clear Etl.
  destruct (r_shape (m_result m)) as [|attrs| |] eqn:Es; intro H; simpl; rewrite Es.
  - exists t0. split; [exact H0|tauto].
  - apply in_map_iff in H. destruct H as [t [_ Ht]]. apply filter_In in Ht. destruct Ht as [Ht Hf].
    exists t. split; [exact Ht|]. intro Hr. apply mem_In in Hr. apply negb_true_iff in Hf. congruence.
  - exists t0. split; [exact H0|tauto].
  - exists t0. split; [exact H0|tauto].
Qed.

Theorem http_errors_dangling d s m h e : In e (validate_http d s m h) ->
  exists r, In r (http_refs d s m h) /\ ~ resolves r.
Proof.
  unfold validate_http, http_refs. intro H.
  assert (inj : forall n, In n (h_path h ++ h_query h ++ h_headers h ++ h_cookies h) -> ~ resolves (RPayload m n) ->
            exists r, In r (map (RPayload m) (h_path h ++ h_query h ++ h_headers h ++ h_cookies h) ++
                            map (RBody m) (body_names (h_body h) ++ match h_mapparams h with Some (Some n) => [n] | _ => [] end) ++
                            flat_map (fun rs => map (RResult m) (rs_headers rs ++ rs_cookies rs) ++ map (RResultBody m) (body_names (rs_body rs)) ++
                                                match rs_tag rs with Some t => [RTag m t] | None => [] end) (h_responses h) ++
                            flat_map (fun er => RError [m_errors m; s_errors s; d_errors d] (er_name er) ::
                                                map (RErrAttr [m_errors m; s_errors s; d_errors d] (er_name er)) (er_headers er)) (h_errors h)) /\ ~ resolves r).
  { intros n Hn Hr. exists (RPayload m n). split; [apply in_or_app; left; apply in_map; exact Hn|exact Hr]. }
  apply in_app_or in H. destruct H as [H|H].
  { (* ENoPayload *)
    destruct (m_payload m) as [|attrs| |] eqn:Ep; try contradiction.
    destruct (h_path h ++ h_query h ++ h_headers h) as [|n0 r0] eqn:El; [contradiction|].
    apply (inj n0).
    - rewrite !app_assoc. apply in_or_app. left. rewrite <- !app_assoc. rewrite El. left. reflexivity.
    - simpl. rewrite Ep. tauto. }
  apply in_app_or in H. destruct H as [H|H].
  { apply in_map_iff in H. destruct H as [n [_ Hn]]. destruct (missing_dangling m _ n Hn) as [Hi Hr].
    apply (inj n); [apply in_or_app; left; exact Hi|exact Hr]. }
  apply in_app_or in H. destruct H as [H|H].
  { apply in_map_iff in H. destruct H as [n [_ Hn]]. destruct (missing_dangling m _ n Hn) as [Hi Hr].
    apply (inj n); [apply in_or_app; right; apply in_or_app; left; exact Hi|exact Hr]. }
  apply in_app_or in H. destruct H as [H|H].
  { apply in_map_iff in H. destruct H as [n [_ Hn]]. destruct (missing_dangling m _ n Hn) as [Hi Hr].
    apply (inj n); [apply in_or_app; right; apply in_or_app; right; apply in_or_app; left; exact Hi|exact Hr]. }
  apply in_app_or in H. destruct H as [H|H].
  { apply in_map_iff in H. destruct H as [n [_ Hn]]. destruct (missing_dangling m _ n Hn) as [Hi Hr].
    apply (inj n); [apply in_or_app; right; apply in_or_app; right; apply in_or_app; right; exact Hi|exact Hr]. }
  apply in_app_or in H. destruct H as [H|H].
  { (* body attribute names *)
    destruct (h_body h) as [|bn|bns|] eqn:Eb; try contradiction.
    destruct (m_payload m) as [|attrs| |] eqn:Ep; simpl in H; try contradiction.
    apply in_map_iff in H. destruct H as [n [_ Hn]]. apply filter_In in Hn. destruct Hn as [Hn Hf].
    exists (RBody m n). split.
    - apply in_or_app. right. apply in_or_app. left. apply in_map. apply in_or_app. left. simpl. exact Hn.
    - simpl. rewrite Ep. intro Hr. apply mem_In in Hr. apply negb_true_iff in Hf. simpl in Hf. congruence. }
  apply in_app_or in H. destruct H as [H|H].
  { destruct (h_mapparams h) as [[mp|]|] eqn:Emp; try contradiction.
    destruct (m_payload m) as [|attrs| |] eqn:Ep; simpl in H; try contradiction.
    destruct (mem mp attrs) eqn:Em; [contradiction|].
    exists (RBody m mp). split.
    - apply in_or_app. right. apply in_or_app. left. apply in_map. apply in_or_app. right. left. reflexivity.
    - simpl. rewrite Ep. intro Hr. apply mem_In in Hr. congruence. }
  apply in_app_or in H. destruct H as [H|H].
  { apply in_flat_map in H. destruct H as [rs [Hrs He]]. destruct (response_dangling m rs e He) as [r [Hr Hn]].
    exists r. split; [|exact Hn]. apply in_or_app. right. apply in_or_app. right. apply in_or_app. left.
    apply in_flat_map. exists rs. split; [exact Hrs|]. rewrite app_assoc. apply in_or_app. left. exact Hr. }
  apply in_app_or in H. destruct H as [H|H].
  { destruct (tags_dangling m h e H) as [t [Ht Hn]]. exists (RTag m t). split; [|exact Hn].
    apply in_or_app. right. apply in_or_app. right. apply in_or_app. left.
    unfold tags_of in Ht. apply in_flat_map in Ht. destruct Ht as [rs [Hrs Ht]].
    apply in_flat_map. exists rs. split; [exact Hrs|]. apply in_or_app. right. apply in_or_app. right.
    destruct (rs_tag rs); [|contradiction]. destruct Ht as [<-|[]]. left. reflexivity. }
  apply in_flat_map in H. destruct H as [er [Her He]]. destruct (eresponse_dangling _ er e He) as [r [Hr Hn]].
  exists r. split; [|exact Hn]. apply in_or_app. right. apply in_or_app. right. apply in_or_app. right.
  apply in_flat_map. exists er. split; [exact Her|exact Hr].
Qed.

Lemma http_refs_iff d s m h : dsl_errors_http m h = [] ->
  (validate_http d s m h = [] <-> forall r, In r (http_refs d s m h) -> resolves r).
Proof.
  intro Hd. split.
  - intros Hv r Hin. exact (http_ok d s m h Hd Hv r Hin).
  - intro Hall. destruct (validate_http d s m h) as [|e l] eqn:E; [reflexivity|].
    destruct (http_errors_dangling d s m h e) as [r [Hin Hn]]; [rewrite E; left; reflexivity|].
    exfalso. exact (Hn (Hall r Hin)).
Qed.
