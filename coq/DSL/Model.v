(* DSL engine (C12) - executable model of three parts of goa's design evaluation:

   Part 1  reference integrity: the existence checks that dsl/ and expr/ perform on
           names used by transport mappings, error responses, requirements, views and
           Required (one clause per check found in the code, listed with file:line in
           notes/C12.md);
   Part 2  the recursive traversals over attribute graphs that may be cyclic through
           user types (AttributeExpr.Validate with the `validated` guard,
           AttributeExpr.Finalize with `finalized`, HTTPEndpointExpr.Prepare with
           `prepared`, AttributeExpr.Find which has no guard), depth-fuelled;
   Part 3  the context check every DSL function starts with (eval.Current() type
           switch / assertion, eval.IncompatibleDSL otherwise), over the table that
           translate/c12 extracts from dsl/ into Generated_contexts.v.

   Definitions only, all computable. Names are numbers (the harness interns the
   strings of each design). *)
From Coq Require Export List Bool Arith PeanoNat String.
Export ListNotations.

Definition name := nat.
Definition mem (n : name) (l : list name) : bool := existsb (Nat.eqb n) l.

(* ====================================================================== *)
(* Part 2 - attribute graphs                                              *)
(* ====================================================================== *)

(* Every *AttributeExpr of a design is a node, identified by its index. The kind is
   the attribute's type with user types already unwrapped the way expr.AsObject /
   AsArray / AsMap do; [n_user] names the node of the user type's own attribute when
   the attribute's type is a user type. Cycles exist only through user types: the
   field nodes of a user type are shared by every attribute of that type. *)
Inductive kind :=
| KPrim
| KArr (elem : nat)
| KMap (key elem : nat)
| KObj (fields : list (name * nat)).

Record node := mkN {
  n_kind : kind;
  n_user : option nat;      (* Some u: a.Type is the user type whose attribute is node u *)
  n_req  : list name;       (* a.AllRequired() *)
  n_inh  : list nat         (* a.Bases ++ a.References (user type attribute nodes) *)
}.

Definition graph := list node.

Definition get (g : graph) (n : nat) : option node := nth_error g n.

Definition obj_fields (k : kind) : list (name * nat) :=
  match k with KObj fs => fs | _ => [] end.

Fixpoint assoc (x : name) (fs : list (name * nat)) : option nat :=
  match fs with
  | [] => None
  | (y, c) :: r => if Nat.eqb x y then Some c else assoc x r
  end.

(* children visited by AttributeExpr.Validate (expr/attribute.go): the fields of an
   object, the element of an array, the key and the element of a map *)
Definition validate_children (g : graph) (n : nat) : list nat :=
  match get g n with
  | None => []
  | Some nd => match n_kind nd with
               | KObj fs => map snd fs
               | KArr e => [e]
               | KMap k e => [k; e]
               | KPrim => []
               end
  end.

(* children visited by AttributeExpr.Finalize (expr/attribute.go:293-350): the user
   type's own attribute first (ut.Finalize()), then fields / element / map element
   and key *)
Definition finalize_children (g : graph) (n : nat) : list nat :=
  match get g n with
  | None => []
  | Some nd =>
      (match n_user nd with Some u => [u] | None => [] end) ++
      match n_kind nd with
      | KObj fs => map snd fs
      | KArr e => [e]
      | KMap k e => [e; k]
      | KPrim => []
      end
  end.

(* The guarded traversal both methods implement: return at once on a node whose flag
   is set, set the flag, recurse into the children in order. [vis] is the set of
   flagged nodes (the `validated` map / the `finalized` fields). None = out of fuel. *)
Fixpoint walk (children : nat -> list nat) (fuel : nat) (vis : list nat) (n : nat) : option (list nat) :=
  match fuel with
  | 0 => None
  | S f =>
      if mem n vis then Some vis
      else fold_left (fun acc c => match acc with None => None | Some v => walk children f v c end)
                     (children n) (Some (n :: vis))
  end.

(* the same recursion with the guard removed (what a mutation deleting
   `if validated[a] { return nil }` leaves) *)
Fixpoint walk_unguarded (children : nat -> list nat) (fuel : nat) (n : nat) : option unit :=
  match fuel with
  | 0 => None
  | S f => fold_left (fun acc c => match acc with None => None | Some _ => walk_unguarded children f c end)
                     (children n) (Some tt)
  end.

Definition validate_attr (g : graph) fuel vis n := walk (validate_children g) fuel vis n.
Definition finalize_attr (g : graph) fuel vis n := walk (finalize_children g) fuel vis n.

(* HTTPEndpointExpr.Prepare (expr/http_endpoint.go:183-335): an endpoint prepares the
   canonical endpoint of its service's parent first; [pg] gives that endpoint (if
   any) for every endpoint. *)
Definition prepare_children (pg : list (option nat)) (n : nat) : list nat :=
  match nth_error pg n with Some (Some c) => [c] | _ => [] end.
Definition prepare_endpoint (pg : list (option nat)) fuel vis n := walk (prepare_children pg) fuel vis n.

(* AttributeExpr.Inherit / inheritRecursive (expr/attribute.go:386-396, :731-763), run
   by Finalize for every Reference: the attributes of [a] that also exist in the
   referenced [p] inherit its properties, recursively, with a `seen` set of the
   child-side attributes already expanded. The recursion goes from one expansion unit
   (att, patt) - a pair of same-named object attributes - to the units two levels
   below it; the guard is on [att] only. [kwalk] is [walk] with the flag keyed by a
   projection of the state. *)
Fixpoint kwalk {X : Type} (key : X -> nat) (children : X -> list X) (fuel : nat) (vis : list nat) (x : X) : option (list nat) :=
  match fuel with
  | 0 => None
  | S f =>
      if mem (key x) vis then Some vis
      else fold_left (fun acc c => match acc with None => None | Some v => kwalk key children f v c end)
                     (children x) (Some (key x :: vis))
  end.

Definition is_obj_node (g : graph) (n : nat) : bool :=
  match get g n with Some nd => match n_kind nd with KObj _ => true | _ => false end | None => false end.

Definition node_fields (g : graph) (n : nat) : list (name * nat) :=
  match get g n with Some nd => obj_fields (n_kind nd) | None => [] end.

(* same-named fields of two object attributes: (field of a, field of p) *)
Definition matched (g : graph) (a p : nat) : list (nat * nat) :=
  flat_map (fun f => match assoc (fst f) (node_fields g p) with Some pc => [(snd f, pc)] | None => [] end) (node_fields g a).

(* the units inheritRecursive(a, p) meets: shouldInherit(a, p), then the matched
   fields whose both sides are objects *)
Definition inherit_units (g : graph) (a p : nat) : list (nat * nat) :=
  if is_obj_node g a && is_obj_node g p
  then filter (fun ap => is_obj_node g (fst ap) && is_obj_node g (snd ap)) (matched g a p)
  else [].

Definition inherit_children (g : graph) (x : nat * nat) : list (nat * nat) :=
  flat_map (fun cp => inherit_units g (fst cp) (snd cp)) (matched g (fst x) (snd x)).

Definition inherit_unit (g : graph) fuel seen (x : nat * nat) := kwalk fst (inherit_children g) fuel seen x.

(* a.Inherit(parent): a fresh `seen`, every unit of (a, parent) in turn *)
Fixpoint kwalk_list {X : Type} (key : X -> nat) (children : X -> list X) (fuel : nat) (vis : list nat) (xs : list X) : option (list nat) :=
  match xs with
  | [] => Some vis
  | x :: r => match kwalk key children fuel vis x with None => None | Some v => kwalk_list key children fuel v r end
  end.

Definition inherit_attr (g : graph) (fuel : nat) (a p : nat) : option (list nat) :=
  kwalk_list fst (inherit_children g) fuel [] (inherit_units g a p).

(* AttributeExpr.Find / find (expr/attribute.go): the attribute's own type (through
   the user type's attribute, recursively), then each base, then each reference, with
   a `seen` set shared by the whole lookup: an attribute already looked at answers
   "not found" at once, so types that extend or reference each other are no problem.
   Result: the set after the lookup and the attribute found; None = out of fuel. *)
Fixpoint gfind (g : graph) (fuel : nat) (seen : list nat) (n : nat) (x : name) : option (list nat * option nat) :=
  match fuel with
  | 0 => None
  | S f =>
      if mem n seen then Some (seen, None)
      else
        match get g n with
        | None => Some (n :: seen, None)
        | Some nd =>
            let own := match n_user nd with
                       | Some u => gfind g f (n :: seen) u x
                       | None => Some (n :: seen, assoc x (obj_fields (n_kind nd)))
                       end in
            match own with
            | None => None
            | Some (s, Some c) => Some (s, Some c)
            | Some (s, None) =>
                (fix go (s : list nat) (l : list nat) : option (list nat * option nat) :=
                   match l with
                   | [] => Some (s, None)
                   | b :: r => match gfind g f s b x with
                               | None => None
                               | Some (s', Some c) => Some (s', Some c)
                               | Some (s', None) => go s' r
                               end
                   end) s (n_inh nd)
            end
        end
  end.

(* hasTag / hasTagPrefix (expr/method.go), TaggedAttribute and walkAttribute
   (expr/attribute.go): look at the attribute, then at each base (walkAttribute: and each
   reference), then at its user type, with a `seen` set shared by the whole traversal.
   [has n]: the attribute itself answers; [bases], [user]: where the recursion goes. *)
Fixpoint ghastag (has : nat -> bool) (bases : nat -> list nat) (user : nat -> option nat)
                 (fuel : nat) (seen : list nat) (n : nat) : option (list nat * bool) :=
  match fuel with
  | 0 => None
  | S f =>
      if mem n seen then Some (seen, false)
      else if has n then Some (n :: seen, true)
      else
        (fix go (s : list nat) (l : list nat) : option (list nat * bool) :=
           match l with
           | [] => match user n with Some u => ghastag has bases user f s u | None => Some (s, false) end
           | b :: r => match ghastag has bases user f s b with
                       | None => None
                       | Some (s', true) => Some (s', true)
                       | Some (s', false) => go s' r
                       end
           end) (n :: seen) (bases n)
  end.

Definition find_fuel (g : graph) : nat := S (List.length g).

(* "required field %q does not exist" (expr/attribute.go:215-219), for one node *)
Definition missing_required (g : graph) (n : nat) : list name :=
  match get g n with
  | None => []
  | Some nd =>
      match n_kind nd with
      | KObj _ => filter (fun x => match gfind g (find_fuel g) [] n x with Some (_, Some _) => false | _ => true end) (n_req nd)
      | _ => []
      end
  end.

(* all roots validated with one shared `validated` map *)
Fixpoint walk_roots (children : nat -> list nat) (fuel : nat) (vis : list nat) (roots : list nat) : option (list nat) :=
  match roots with
  | [] => Some vis
  | r :: rs => match walk children fuel vis r with
               | None => None
               | Some v => walk_roots children fuel v rs
               end
  end.

Definition graph_fuel (g : graph) : nat := S (List.length g).

Definition required_errors (g : graph) (roots : list nat) : option (list name) :=
  match walk_roots (validate_children g) (graph_fuel g) [] roots with
  | None => None
  | Some vis => Some (flat_map (missing_required g) vis)
  end.

(* The same traversal with the memo keyed differently: [key n] instead of [n]. With
   [key] = the user type's attribute when the attribute's type is a user type ("validate
   a user type only once") the recursion still stops, but only the FIRST attribute
   referring to a type is visited. Returns the flagged keys and the attributes visited. *)
Fixpoint kwalk2 (key : nat -> nat) (children : nat -> list nat) (fuel : nat) (st : list nat * list nat) (n : nat)
  : option (list nat * list nat) :=
  match fuel with
  | 0 => None
  | S f =>
      if mem (key n) (fst st) then Some st
      else fold_left (fun acc c => match acc with None => None | Some s => kwalk2 key children f s c end)
                     (children n) (Some (key n :: fst st, n :: snd st))
  end.

Definition type_key (g : graph) (n : nat) : nat :=
  match get g n with Some nd => match n_user nd with Some u => u | None => n end | None => n end.

Definition visited_keyed (key : nat -> nat) (g : graph) (roots : list nat) : list nat :=
  snd (fold_left (fun st r => match kwalk2 key (validate_children g) (S (S (List.length g))) st r with Some s => s | None => st end)
                 roots ([], [])).

(* ====================================================================== *)
(* Part 1 - reference integrity                                           *)
(* ====================================================================== *)

(* what AttributeExpr.Find can see of a payload / result / error type *)
Inductive shape :=
| SEmpty                       (* not defined (expr.Empty) *)
| SObj (attrs : list name)     (* object, or user type that is an object *)
| SUserNonObj                  (* user type that is not an object: Find finds nothing *)
| SOther.                      (* primitive, array, map: names are not looked up *)

Record view := mkV { v_name : name; v_attrs : list name }.

Record result := mkR {
  r_shape : shape;
  r_views : option (list view);   (* Some: the result is a result type with these views *)
  r_fixed : option name           (* Result(T, func() { View(v) }) *)
}.

Inductive body := BDefault | BName (n : name) | BNames (ns : list name) | BEmptyBody.

Record response := mkRs {
  rs_tag : option name;           (* Tag(attr, value) *)
  rs_headers : list name;
  rs_cookies : list name;
  rs_body : body
}.

Record errdef := mkE { e_name : name; e_shape : shape }.
Record eresponse := mkEr { er_name : name; er_headers : list name }.

Record http := mkH {
  h_path : list name;             (* route wildcards *)
  h_query : list name;            (* Param *)
  h_headers : list name;
  h_cookies : list name;
  h_body : body;
  h_mapparams : option (option name);   (* MapParams() / MapParams(name) *)
  h_responses : list response;
  h_errors : list eresponse
}.

Inductive skind := SBasic | SAPIKey | SJWT | SOAuth2.

Record scheme := mkSc { sc_name : name; sc_kind : skind; sc_scopes : list name }.

(* credential attributes of a payload: Username / Password / APIKey(scheme) / Token /
   AccessToken (the `security:*` meta tags hasTag looks for, expr/method.go:217-236) *)
Inductive cred := CUser | CPass | CKey (scheme : name) | CToken | CAccess.

Record req := mkQ { q_schemes : list name; q_scopes : list name }.

Record method := mkM {
  m_payload : shape;
  m_creds : list cred;
  m_result : result;
  m_errors : list errdef;
  m_reqs : list req;
  m_http : option http
}.

Record service := mkS {
  s_errors : list errdef;
  s_reqs : list req;
  s_herrors : list eresponse;
  s_methods : list method
}.



Record rtype := mkRT { rt_attrs : list name; rt_views : list view }.

(* what AttributeExpr.Validate checks on the attribute itself, whatever its type
   (expr/attribute.go:210-214, :246-262): parallel to the graph, by node index *)
Record nattr := mkA {
  a_view : option name;            (* View(v) / Meta("view", v) on this attribute *)
  a_rtviews : option (list name);  (* Some vs: the attribute's type is a result type defining the views vs *)
  a_badrange : bool                (* its own validations are contradictory (minimum > maximum, min length > max length) *)
}.

Record design := mkD {
  d_errors : list errdef;
  d_reqs : list req;
  d_herrors : list eresponse;
  d_schemes : list scheme;
  d_rtypes : list rtype;          (* result types: every view may list only attributes of the type *)
  d_services : list service;
  d_graph : graph;
  d_roots : list nat;             (* payload / result / error type attributes of the methods *)
  d_attrs : list nattr            (* per attribute of the graph *)
}.

Inductive err :=
| EPathParam (n : name)        (* Route param %q not found in method payload / Path parameter %q not found in payload. *)
| EQueryParam (n : name)       (* Query string parameter %q not found in payload. *)
| EHeader (n : name)           (* header %q not found in payload. *)
| ECookie (n : name)           (* cookie %q not found in payload. *)
| EBody (n : name)             (* Body %q is not found in Payload. / Request type does not have an attribute named *)
| EMapParams (n : name)        (* MapParams is set to an attribute in Payload. But payload has no attribute ... *)
| ENoPayload                   (* Params are set but Payload is not defined. / Headers are set ... / Route parameters are defined, but ... *)
| ERespHeader (n : name)       (* header %q has no equivalent attribute in result type *)
| ERespCookie (n : name)       (* cookie %q has no equivalent attribute in result type *)
| ERespBody (n : name)         (* body %q has no equivalent attribute / Response type does not have an attribute named *)
| ERespNoResult                (* response defines headers but result is empty *)
| ETag (n : name)              (* Tag attribute %q not found in result. *)
| ETagNotObject                (* Some responses define a Tag but the method Result type is not an object. *)
| EErrResponse (n : name)      (* Error %#v does not match an error defined in the method|service|API *)
| EErrHeader (n : name)        (* header %q has no equivalent attribute in error type *)
| EScheme (n : name)           (* security scheme %q not found *)
| EScope (n : name)            (* security scope %q not found in any of the security schemes. *)
| EView (n : name)             (* type %q does not define view %q *)
| EViewNotRT (n : name)        (* uses view %q but %q is not a result type *)
| EBadRange                    (* minimum is greater than maximum / min length is greater than max length ... *)
| EViewAttr (n : name)         (* unknown attribute %#v (view DSL) *)
| ERequired (n : name)         (* required field %q does not exist in type %s *)
| ENoUsername | ENoPassword | ENoAPIKey | ENoToken | ENoAccessToken
                               (* payload ... does not define a username | password | API key | JWT | OAuth2 access token attribute *)
| EStrayUsername | EStrayPassword | EStrayAPIKey | EStrayToken | EStrayAccessToken
                               (* payload ... defines a ... attribute, but no ... security scheme exist *)
| EFuel.                       (* a traversal ran out of fuel: never produced within the envelope *)

Definition shape_has (s : shape) (n : name) : bool :=
  match s with
  | SObj attrs => mem n attrs
  | SOther => true
  | SEmpty | SUserNonObj => false
  end.

(* names that are looked up: only when the type is an object or a user type
   (`case *Object, UserType:` expr/http_endpoint.go:783, :847, :899) *)
Definition shape_checked (s : shape) : bool :=
  match s with SObj _ | SUserNonObj | SEmpty => true | SOther => false end.   (* expr.Empty is a user type *)

Definition missing (s : shape) (ns : list name) : list name :=
  if shape_checked s then filter (fun n => negb (shape_has s n)) ns else [].

Definition lookup_view (vs : list view) (v : name) : option view :=
  find (fun w => Nat.eqb (v_name w) v) vs.

(* resultAttributeType (expr/http_response.go:150-173) <> nil, for an object result *)
Definition result_has (r : result) (n : name) : bool :=
  match r_shape r with
  | SObj attrs =>
      match r_views r with
      | Some vs =>
          match r_fixed r with
          | Some v => match lookup_view vs v with
                      | Some w => mem n (v_attrs w)
                      | None => false
                      end
          | None => forallb (fun w => mem n (v_attrs w)) vs && mem n attrs
          end
      | None => mem n attrs
      end
  | _ => false
  end.

Definition is_obj (s : shape) : bool := match s with SObj _ => true | _ => false end.

Definition body_names (b : body) : list name :=
  match b with BName n => [n] | BNames ns => ns | _ => [] end.

(* errors reported while the DSL runs (before any validation) *)
Definition dsl_errors_req (schemes : list scheme) (q : req) : list err :=
  map EScheme (filter (fun s => negb (existsb (fun sc => Nat.eqb (sc_name sc) s) schemes)) (q_schemes q)).

Definition dsl_errors_http (m : method) (h : http) : list err :=
  (* Body("name") is resolved at once: dsl/http.go:943-952 *)
  (match h_body h with
   | BName n => if shape_has (m_payload m) n && is_obj (m_payload m) then [] else [EBody n]
   | _ => []
   end) ++
  flat_map (fun rs => match rs_body rs with
                      | BName n => if is_obj (r_shape (m_result m)) && shape_has (r_shape (m_result m)) n then [] else [ERespBody n]
                      | _ => []
                      end) (h_responses h).

Definition dsl_errors_rtype (t : rtype) : list err :=
  flat_map (fun w => map EViewAttr (filter (fun n => negb (mem n (rt_attrs t))) (v_attrs w))) (rt_views t).

Definition dsl_errors (d : design) : list err :=
  flat_map (dsl_errors_req (d_schemes d)) (d_reqs d) ++
  flat_map dsl_errors_rtype (d_rtypes d) ++
  flat_map (fun s =>
    flat_map (dsl_errors_req (d_schemes d)) (s_reqs s) ++
    flat_map (fun m =>
      flat_map (dsl_errors_req (d_schemes d)) (m_reqs m) ++
      match m_http m with Some h => dsl_errors_http m h | None => [] end) (s_methods s)) (d_services d).

(* MethodExpr.Validate: requirement scopes (expr/method.go:147-162) and the view of
   the result is the View meta of the result attribute, checked like any attribute's (below) *)
Definition effective_reqs (d : design) (s : service) (m : method) : list req :=
  match m_reqs m with
  | _ :: _ => m_reqs m
  | [] => match s_reqs s with _ :: _ => s_reqs s | [] => d_reqs d end
  end.

Definition scope_known (d : design) (q : req) (sc : name) : bool :=
  existsb (fun s => existsb (fun sch => Nat.eqb (sc_name sch) s && mem sc (sc_scopes sch)) (d_schemes d)) (q_schemes q).

Definition default_view : name := 0.   (* the harness interns "default" as 0 *)

Definition cred_eqb (a b : cred) : bool :=
  match a, b with
  | CUser, CUser | CPass, CPass | CToken, CToken | CAccess, CAccess => true
  | CKey x, CKey y => Nat.eqb x y
  | _, _ => false
  end.

Definition has_cred (m : method) (c : cred) : bool := existsb (cred_eqb c) (m_creds m).
Definition has_key_cred (m : method) : bool := existsb (fun c => match c with CKey _ => true | _ => false end) (m_creds m).

Definition scheme_kind (d : design) (n : name) : option skind :=
  match List.find (fun sc => Nat.eqb (sc_name sc) n) (d_schemes d) with Some sc => Some (sc_kind sc) | None => None end.

(* the credential attributes one scheme of a requirement needs *)
Definition needed (d : design) (n : name) : list cred :=
  match scheme_kind d n with
  | Some SBasic => [CUser; CPass]
  | Some SAPIKey => [CKey n]
  | Some SJWT => [CToken]
  | Some SOAuth2 => [CAccess]
  | None => []
  end.

Definition missing_err (c : cred) : err :=
  match c with CUser => ENoUsername | CPass => ENoPassword | CKey _ => ENoAPIKey | CToken => ENoToken | CAccess => ENoAccessToken end.

Definition uses_kind (d : design) (rs : list req) (k : skind) : bool :=
  existsb (fun q => existsb (fun n => match scheme_kind d n with
                                     | Some k' => match k, k' with
                                                  | SBasic, SBasic | SAPIKey, SAPIKey | SJWT, SJWT | SOAuth2, SOAuth2 => true
                                                  | _, _ => false end
                                     | None => false end) (q_schemes q)) rs.

(* MethodExpr.Validate, security part (expr/method.go:104-188): every scheme of every
   effective requirement finds its credential attribute(s) in the payload - the API
   key attribute of THAT scheme - and no credential attribute is left without a scheme
   of its kind *)
Definition validate_creds (d : design) (s : service) (m : method) : list err :=
  let rs := effective_reqs d s m in
  flat_map (fun q => flat_map (fun n => map missing_err (filter (fun c => negb (has_cred m c)) (needed d n))) (q_schemes q)) rs ++
  (if uses_kind d rs SBasic then [] else
     (if has_cred m CUser then [EStrayUsername] else []) ++ (if has_cred m CPass then [EStrayPassword] else [])) ++
  (if uses_kind d rs SAPIKey then [] else if has_key_cred m then [EStrayAPIKey] else []) ++
  (if uses_kind d rs SJWT then [] else if has_cred m CToken then [EStrayToken] else []) ++
  (if uses_kind d rs SOAuth2 then [] else if has_cred m CAccess then [EStrayAccessToken] else []).

Definition validate_method (d : design) (s : service) (m : method) : list err :=
  validate_creds d s m ++
  flat_map (fun q => map EScope (filter (fun sc => negb (scope_known d q sc)) (q_scopes q))) (effective_reqs d s m).

Definition err_declared (names : list name) (n : name) : bool := mem n names.

Definition enames (l : list errdef) : list name := map e_name l.

Definition find_err (ls : list (list errdef)) (n : name) : option errdef :=
  find (fun e => Nat.eqb (e_name e) n) (List.concat ls).

(* HTTPErrorExpr.Validate (expr/http_error.go:29-90) for an error response declared
   at a level that sees the error definitions [ls] (method: method, service, API;
   service: service, API; API: API) *)
Definition validate_eresponse (ls : list (list errdef)) (er : eresponse) : list err :=
  match find_err ls (er_name er) with
  | None => [EErrResponse (er_name er)]    (* the header checks are skipped for an unknown error *)
  | Some e => match e_shape e with
              | SObj attrs => map EErrHeader (filter (fun n => negb (mem n attrs)) (er_headers er))
              | _ => []
              end
  end.

(* HTTPResponseExpr.Validate (expr/http_response.go:125-250) *)
Definition validate_response (m : method) (rs : response) : list err :=
  let r := m_result m in
  (match rs_headers rs with
   | [] => []
   | hs => match r_shape r with
           | SEmpty => [ERespNoResult]
           | SObj _ => map ERespHeader (filter (fun n => negb (result_has r n)) hs)
           | _ => []
           end
   end) ++
  (match rs_cookies rs with
   | [] => []
   | cs => match r_shape r with
           | SEmpty => [ERespNoResult]
           | SObj _ => map ERespCookie (filter (fun n => negb (result_has r n)) cs)
           | _ => []
           end
   end) ++
  map ERespBody (filter (fun n => negb (result_has r n)) (body_names (rs_body rs))).

(* Tag attributes (expr/http_endpoint.go, after the loop over the responses): the result
   must be an object (expr.Empty counts as one, without attributes) and have the attribute *)
Definition tags_of (h : http) : list name :=
  flat_map (fun rs => match rs_tag rs with Some t => [t] | None => [] end) (h_responses h).

Definition validate_tags (m : method) (h : http) : list err :=
  match tags_of h with
  | [] => []
  | ts => match r_shape (m_result m) with
          | SObj attrs => map ETag (filter (fun t => negb (mem t attrs)) ts)
          | SEmpty => map ETag ts
          | SUserNonObj | SOther => [ETagNotObject]
          end
  end.

(* HTTPEndpointExpr.Validate (expr/http_endpoint.go:337-651), RouteExpr.Validate
   (:893-915), validateParams (:725-808), validateHeadersAndCookies (:812-877) *)
Definition validate_http (d : design) (s : service) (m : method) (h : http) : list err :=
  let p := m_payload m in
  (match p with
   | SEmpty => if match h_path h ++ h_query h ++ h_headers h with [] => false | _ => true end then [ENoPayload] else []
   | _ => []
   end) ++
  map EPathParam (missing p (h_path h)) ++
  map EQueryParam (missing p (h_query h)) ++
  map EHeader (missing p (h_headers h)) ++
  map ECookie (missing p (h_cookies h)) ++
  (match h_body h with
   | BNames ns => if is_obj p then map EBody (filter (fun n => negb (shape_has p n)) ns) else []
   | _ => []
   end) ++
  (match h_mapparams h with
   | Some (Some n) => if is_obj p then (if shape_has p n then [] else [EMapParams n]) else []
   | _ => []
   end) ++
  flat_map (validate_response m) (h_responses h) ++
  validate_tags m h ++
  flat_map (validate_eresponse [m_errors m; s_errors s; d_errors d]) (h_errors h).

Definition reachable_nodes (g : graph) (roots : list nat) : list nat :=
  match walk_roots (validate_children g) (graph_fuel g) [] roots with Some v => v | None => [] end.

(* every attribute the traversal visits is checked on its own account: the memo is
   keyed by the attribute, not by its type, so two attributes of the same result type
   are both looked at *)
Definition attr_errors (ats : list nattr) (n : nat) : list err :=
  match nth_error ats n with
  | None => []
  | Some a =>
      (match a_view a with
       | None => []
       | Some v => match a_rtviews a with
                   | None => [EViewNotRT v]
                   | Some vs => if Nat.eqb v default_view || mem v vs then [] else [EView v]
                   end
       end) ++ (if a_badrange a then [EBadRange] else [])
  end.

Definition validation_errors (d : design) : list err :=
  flat_map (validate_eresponse [d_errors d]) (d_herrors d) ++
  flat_map (fun s =>
    flat_map (validate_eresponse [s_errors s; d_errors d]) (s_herrors s) ++
    flat_map (fun m =>
      validate_method d s m ++
      match m_http m with Some h => validate_http d s m h | None => [] end) (s_methods s)) (d_services d) ++
  match required_errors (d_graph d) (d_roots d) with
  | None => [EFuel]
  | Some ns => map ERequired ns
  end ++
  flat_map (attr_errors (d_attrs d)) (reachable_nodes (d_graph d) (d_roots d)).

(* eval.RunDSL (eval/eval.go:17-69): errors recorded while the DSL runs stop the
   evaluation before validation *)
Definition validate (d : design) : list err :=
  match dsl_errors d with
  | [] => validation_errors d
  | es => es
  end.

(* ---- the references of a design and what it means for one to resolve ---- *)

Inductive ref :=
| RPayload (m : method) (n : name)              (* path / query / header / cookie name -> payload attribute *)
| RBody (m : method) (n : name)                 (* Body / MapParams attribute name -> payload attribute (looked up for object payloads only) *)
| RResult (m : method) (n : name)               (* response header / cookie name -> result attribute (the whole result if it is not an object) *)
| RResultBody (m : method) (n : name)           (* response body attribute name -> result attribute *)
| RTag (m : method) (n : name)                  (* Tag attribute -> result attribute *)
| RError (ls : list (list errdef)) (n : name)   (* error response -> error declared at a visible level *)
| RErrAttr (ls : list (list errdef)) (e n : name) (* error response header -> attribute of the error type *)
| RScheme (d : design) (n : name)               (* requirement -> registered scheme *)
| RScope (d : design) (q : req) (n : name)      (* requirement scope -> scope of one of its schemes *)
| RAttrView (ats : list nattr) (n : nat) (v : name)   (* View on an attribute (the Result, a field, an array element...) -> view of ITS result type *)
| RViewAttr (t : rtype) (n : name)              (* attribute listed in a view -> attribute of the result type *)
| RRequired (g : graph) (nd : nat) (n : name)   (* Required name -> attribute Find can reach *)
| RCred (m : method) (c : cred).                (* scheme of an effective requirement -> its credential attribute in the payload *)

Definition http_refs (d : design) (s : service) (m : method) (h : http) : list ref :=
  map (RPayload m) (h_path h ++ h_query h ++ h_headers h ++ h_cookies h) ++
  map (RBody m) (body_names (h_body h) ++ match h_mapparams h with Some (Some n) => [n] | _ => [] end) ++
  flat_map (fun rs => map (RResult m) (rs_headers rs ++ rs_cookies rs) ++ map (RResultBody m) (body_names (rs_body rs)) ++
                      match rs_tag rs with Some t => [RTag m t] | None => [] end) (h_responses h) ++
  flat_map (fun er => RError [m_errors m; s_errors s; d_errors d] (er_name er) ::
                      map (RErrAttr [m_errors m; s_errors s; d_errors d] (er_name er)) (er_headers er)) (h_errors h).

Definition req_refs (d : design) (q : req) : list ref :=
  map (RScheme d) (q_schemes q).

Definition refs (d : design) : list ref :=
  flat_map (req_refs d) (d_reqs d) ++
  flat_map (fun t => flat_map (fun w => map (RViewAttr t) (v_attrs w)) (rt_views t)) (d_rtypes d) ++
  flat_map (fun er => RError [d_errors d] (er_name er) :: map (RErrAttr [d_errors d] (er_name er)) (er_headers er)) (d_herrors d) ++
  flat_map (fun s =>
    flat_map (req_refs d) (s_reqs s) ++
    flat_map (fun er => RError [s_errors s; d_errors d] (er_name er) :: map (RErrAttr [s_errors s; d_errors d] (er_name er)) (er_headers er)) (s_herrors s) ++
    flat_map (fun m =>
      flat_map (req_refs d) (m_reqs m) ++
      flat_map (fun q => map (RScope d q) (q_scopes q)) (effective_reqs d s m) ++
      flat_map (fun q => flat_map (fun n => map (RCred m) (needed d n)) (q_schemes q)) (effective_reqs d s m) ++
      match m_http m with Some h => http_refs d s m h | None => [] end) (s_methods s)) (d_services d) ++
  flat_map (fun n => match get (d_graph d) n with
                     | Some nd => match n_kind nd with KObj _ => map (RRequired (d_graph d) n) (n_req nd) | _ => [] end
                     | None => [] end) (reachable_nodes (d_graph d) (d_roots d)) ++
  flat_map (fun n => match nth_error (d_attrs d) n with
                     | Some a => match a_view a with Some v => [RAttrView (d_attrs d) n v] | None => [] end
                     | None => [] end) (reachable_nodes (d_graph d) (d_roots d)).

(* an attribute name of an object result: in the type, and in every view of a result type
   (in the fixed view when Result(T, View(v)) names one; the first view of that name) *)
Definition obj_result_resolves (r : result) (attrs : list name) (n : name) : Prop :=
  match r_views r with
  | None => In n attrs
  | Some vs =>
      match r_fixed r with
      | Some v => exists w, lookup_view vs v = Some w /\ In n (v_attrs w)
      | None => In n attrs /\ forall w, In w vs -> In n (v_attrs w)
      end
  end.

Definition resolves (r : ref) : Prop :=
  match r with
  | RPayload m n => match m_payload m with
                    | SObj attrs => In n attrs
                    | SOther => True            (* the payload itself is what is mapped *)
                    | SEmpty | SUserNonObj => False
                    end
  | RBody m n => match m_payload m with SObj attrs => In n attrs | _ => True end
  | RResult m n => match r_shape (m_result m) with
                   | SObj attrs => obj_result_resolves (m_result m) attrs n
                   | SOther | SUserNonObj => True   (* the whole result is what is mapped *)
                   | SEmpty => False
                   end
  | RResultBody m n => match r_shape (m_result m) with
                       | SObj attrs => obj_result_resolves (m_result m) attrs n
                       | _ => False
                       end
  | RTag m n => match r_shape (m_result m) with SObj attrs => In n attrs | _ => False end
  | RError ls n => exists e, In e (List.concat ls) /\ e_name e = n
  | RErrAttr ls e n => forall ed, find_err ls e = Some ed ->
                       match e_shape ed with SObj attrs => In n attrs | _ => True end
  | RScheme d n => exists sc, In sc (d_schemes d) /\ sc_name sc = n
  | RScope d q n => exists s sc, In s (q_schemes q) /\ In sc (d_schemes d) /\ sc_name sc = s /\ In n (sc_scopes sc)
  | RAttrView ats n v => exists a vs, nth_error ats n = Some a /\ a_rtviews a = Some vs /\ (v = default_view \/ In v vs)
  | RViewAttr t n => In n (rt_attrs t)
  | RRequired g nd n => exists s c, gfind g (find_fuel g) [] nd n = Some (s, Some c)
  | RCred m c => In c (m_creds m)
  end.


(* ====================================================================== *)
(* Part 3 - DSL context table                                             *)
(* ====================================================================== *)

(* types eval.Current() is tested against in dsl/ *)
Inductive etype :=
| TTop | TAPI | TServer | THost | TService | TMethod | TAttribute | TResultType
| TComposite | TUserType | TRoot | THTTP | THTTPService | THTTPEndpoint | THTTPResponse
| THTTPError | THTTPFileServer | TRoute | TMapped | TGRPC | TGRPCService | TGRPCEndpoint
| TGRPCResponse | TGRPCError | TScheme | TSecurity | TContact | TLicense | TDocs | TExample.

Definition etype_eq_dec (a b : etype) : {a = b} + {a <> b}.
Proof. decide equality. Defined.
Definition etype_eqb (a b : etype) : bool := if etype_eq_dec a b then true else false.

Inductive fkind :=
| KStrict    (* a call in a context outside [f_types] is reported with eval.IncompatibleDSL *)
| KSilent    (* a call in a context outside [f_types] does nothing and reports nothing *)
| KAny       (* no context check *)
| KUnknown.  (* the translator did not recognise the function's shape *)

(* data types an attribute context can have (the Type of the *AttributeExpr that
   eval.Current() is, or that the composite expression wraps) *)
Inductive dkind :=
| DNil          (* no type yet (view / message / body DSLs start from an empty attribute) *)
| DPrim | DAny | DArray | DMap | DObject | DUnion
| DUser         (* a user type that is an object *)
| DResultType   (* a result type that is an object *)
| DCollection.  (* CollectionOf(result type): a result type that is an array *)

(* tests a DSL function makes on that data type *)
Inductive dguard :=
| GExactObject | GExactUnion | GExactMap | GExactArray   (* x.Type.( *expr.Object ) ... *)
| GExactUserType
| GIsObject | GIsUnion | GIsMap | GIsArray | GIsPrimitive   (* expr.IsObject(x.Type) ...: see through user types *)
| GOtherGuard.

Record fentry := mkF {
  f_name : string;
  f_kind : fkind;
  f_nested : bool;     (* further checks inside an accepted context (no prediction there) *)
  f_types : list etype;
  f_dguard : list dguard   (* [] : the data type of the context attribute is not tested *)
}.

(* the contexts a design function can be in, as reachable through the public DSL *)
Inductive ctx :=
| CTop | CAPI | CServer | CHost | CService | CMethod
| CPayloadObj | CAttrString | CAttrMap | CTypeBody | CResultType | CViewBody
| CAttrArray | CAttrAny | CAttrUnion | CAttrUser | CAttrResultType | CAttrCollection | CResultUser | CBodyUser
| CAPIHTTP | CHTTPService | CHTTPEndpoint | CHTTPResponse | CHTTPErrResponse | CParams | CFileServer
| CAPIGRPC | CGRPCService | CGRPCEndpoint | CGRPCResponse
| CScheme | CSecurity | CContact | CLicense | CDocs | CExample.

(* dynamic type of eval.Current() in each context and the interfaces it implements
   (checked against the implementation by the harness on every run) *)
Definition ctx_types (c : ctx) : list etype :=
  match c with
  | CTop => [TTop]
  | CAPI => [TAPI]
  | CServer => [TServer]
  | CHost => [THost; TComposite]
  | CService => [TService]
  | CMethod => [TMethod]
  | CPayloadObj | CAttrString | CAttrMap | CTypeBody | CViewBody
  | CAttrArray | CAttrAny | CAttrUnion | CAttrUser | CAttrResultType | CAttrCollection | CResultUser | CBodyUser => [TAttribute]
  | CResultType => [TResultType; TComposite; TUserType]
  | CAPIHTTP => [TRoot]
  | CHTTPService => [THTTPService]
  | CHTTPEndpoint => [THTTPEndpoint]
  | CHTTPResponse | CHTTPErrResponse => [THTTPResponse]
  | CParams => [TMapped; TComposite]
  | CFileServer => [THTTPFileServer]
  | CAPIGRPC => [TGRPC]
  | CGRPCService => [TGRPCService]
  | CGRPCEndpoint => [TGRPCEndpoint]
  | CGRPCResponse => [TGRPCResponse]
  | CScheme => [TScheme]
  | CSecurity => [TSecurity]
  | CContact => [TContact]
  | CLicense => [TLicense]
  | CDocs => [TDocs]
  | CExample => [TExample]
  end.

(* data type of the attribute a context stands for (None: not an attribute context) *)
Definition ctx_dtype (c : ctx) : option dkind :=
  match c with
  | CPayloadObj | CTypeBody => Some DObject
  | CResultType | CHost | CParams => Some DObject      (* composite expressions: def.Attribute() is an object *)
  | CAttrString => Some DPrim
  | CAttrAny => Some DAny
  | CAttrArray => Some DArray
  | CAttrMap => Some DMap
  | CAttrUnion => Some DUnion
  | CAttrUser | CResultUser | CBodyUser => Some DUser
  | CAttrResultType => Some DResultType
  | CAttrCollection => Some DResultType   (* a collection becomes an array only when its own (generated) DSL runs, after the method DSLs *)
  | CViewBody => Some DNil
  | _ => None
  end.

Definition guard_accepts1 (gd : dguard) (d : dkind) : bool :=
  match gd, d with
  | GExactObject, DObject | GExactUnion, DUnion | GExactMap, DMap | GExactArray, DArray => true
  | GExactUserType, (DUser | DResultType | DCollection) => true
  | GIsObject, (DObject | DUser | DResultType) => true
  | GIsUnion, DUnion => true
  | GIsMap, DMap => true
  | GIsArray, (DArray | DCollection) => true
  | GIsPrimitive, (DPrim | DAny) => true
  | GOtherGuard, _ => true
  | _, _ => false
  end.

(* does the context attribute pass the function's data-type tests? An attribute with
   no type yet is given one by the function (Attribute makes it an object). *)
Definition dtype_ok (e : fentry) (c : ctx) : bool :=
  match f_dguard e, ctx_dtype c with
  | [], _ | _, None | _, Some DNil => true
  | gs, Some d => existsb (fun gd => guard_accepts1 gd d) gs
  end.

Definition tmem (t : etype) (l : list etype) : bool := existsb (etype_eqb t) l.

Definition allowed (e : fentry) (c : ctx) : bool :=
  existsb (fun t => tmem t (f_types e)) (ctx_types c).

Inductive dsl_err :=
| Incompatible (f : string)      (* "invalid use of f" *)
| BadDataType (f : string)       (* "can't define child attribute ...", "invalid use of Key" ...: the attribute's type is refused *)
| UnknownEntry (f : string).

(* the context check at the top of a DSL function, total over function x context *)
Definition eval_call (c : ctx) (e : fentry) : list dsl_err :=
  match f_kind e with
  | KStrict => if allowed e c then (if dtype_ok e c then [] else [BadDataType (f_name e)]) else [Incompatible (f_name e)]
  | KSilent | KAny => []
  | KUnknown => [UnknownEntry (f_name e)]
  end.

(* a program, as far as contexts go: the calls it makes and where; RunDSL returns the
   recorded errors before validating anything (eval/eval.go:50-52) *)
Definition program := list (ctx * fentry).

Definition dsl_phase (p : program) : list dsl_err :=
  flat_map (fun cf => eval_call (fst cf) (snd cf)) p.

Inductive outcome := Accepted | Rejected (n : nat).

Definition run_program (p : program) (later : list err) : outcome :=
  match dsl_phase p with
  | [] => match later with [] => Accepted | _ => Rejected (List.length later) end
  | es => Rejected (List.length es)
  end.

(* ====================================================================== *)
(* Part 4 - errors name the offending expression                          *)
(* ====================================================================== *)

(* eval.ReportError (eval/eval.go:102-119) appends " in <EvalName of the current
   expression>" (" (top level)" when the stack is empty) to every error a DSL function
   records; IncompatibleDSL names the outermost exported dsl function of the call chain
   (eval.caller). The EvalName methods of expr/ are compositional: an endpoint names its
   service, a response names its endpoint. [epath] is the path of expressions from the
   design root to the current one, as far as the names go. *)
Inductive epath :=
| PTop
| PAPI (n : string) | PDesign | PAPIGRPC
| PServer (n : string) | PHost (h srv : string)
| PService (n : string)                 (* ServiceExpr, HTTPServiceExpr, GRPCServiceExpr *)
| PMethod (svc m : string)
| PHTTPEndpoint (svc m : string) | PGRPCEndpoint (svc m : string)
| PFileServer (svc file : string)
| PHTTPResponse (parent : option epath) | PGRPCResponse (parent : option epath)
| PRoute (verb path : string) (ep : epath)
| PAttribute                            (* AttributeExpr, MappedAttributeExpr, user and result types *)
| PContact (n : string) | PLicense (n : string) | PDocs (url : string)
| PExample (summary : string)
| PScheme (ty : string) | PSecurity (first : option string)
| PHTTPError (n : string).

Local Open Scope string_scope.

Definition quote (s : string) : string := """" ++ s ++ """".   (* %#v / %q of a name without special characters *)

Definition is_empty (s : string) : bool := match s with EmptyString => true | _ => false end.

Definition svc_name (n : string) : string := if is_empty n then "unnamed service" else "service " ++ quote n.

Fixpoint eval_name (p : epath) : string :=
  match p with
  | PTop => ""
  | PAPI n => "API " ++ n
  | PDesign => "design"
  | PAPIGRPC => "API GRPC"
  | PServer n => "Server " ++ n
  | PHost h srv => "host " ++ quote h ++ " of server " ++ quote srv
  | PService n => svc_name n
  | PMethod svc m => svc_name svc ++ " " ++ (if is_empty m then "unnamed method" else "method " ++ quote m)
  | PHTTPEndpoint svc m => svc_name svc ++ " " ++ (if is_empty m then "unnamed HTTP endpoint" else "HTTP endpoint " ++ quote m)
  | PGRPCEndpoint svc m => svc_name svc ++ " " ++ (if is_empty m then "unnamed gRPC endpoint" else "gRPC endpoint " ++ quote m)
  | PFileServer svc file => svc_name svc ++ " " ++ "file server " ++ file
  | PHTTPResponse None => "HTTP response"
  | PHTTPResponse (Some q) => "HTTP response of " ++ eval_name q
  | PGRPCResponse None => "gRPC response"
  | PGRPCResponse (Some q) => "gRPC response of " ++ eval_name q
  | PRoute verb path ep => "route " ++ verb ++ " " ++ quote path ++ " of " ++ eval_name ep
  | PAttribute => "attribute"
  | PContact n => "Contact " ++ n
  | PLicense n => "License " ++ n
  | PDocs url => "Documentation " ++ url
  | PExample summary => "example " ++ quote summary
  | PScheme ty => ty ++ "Security"
  | PSecurity None => "Security"
  | PSecurity (Some n) => "Securityscheme " ++ n
  | PHTTPError n => "HTTP error " ++ n
  end.

(* the suffix ReportError adds *)
Definition report_suffix (p : epath) : string :=
  match p with
  | PTop => " (top level)"
  | _ => if is_empty (eval_name p) then "" else " in " ++ eval_name p
  end.

(* the message of eval.IncompatibleDSL for function f called in p *)
Definition incompatible_msg (f : string) (p : epath) : string := "invalid use of " ++ f ++ report_suffix p.

(* the expression eval.Current() is in each context of the grid (names of the harness's
   scaffold: API gridapi, service gs, method gm, server srv, host h, file f.json, example
   sum, schemes basic_g / an OAuth2 one) *)
Definition ctx_path (c : ctx) : epath :=
  match c with
  | CTop => PTop
  | CAPI => PAPI "gridapi"
  | CServer => PServer "srv"
  | CHost => PHost "h" "srv"
  | CService | CHTTPService | CGRPCService => PService "gs"
  | CMethod => PMethod "gs" "gm"
  | CAPIHTTP => PDesign
  | CHTTPEndpoint => PHTTPEndpoint "gs" "gm"
  | CHTTPResponse | CHTTPErrResponse => PHTTPResponse (Some (PHTTPEndpoint "gs" "gm"))
  | CFileServer => PFileServer "gs" "f.json"
  | CAPIGRPC => PAPIGRPC
  | CGRPCEndpoint => PGRPCEndpoint "gs" "gm"
  | CGRPCResponse => PGRPCResponse (Some (PGRPCEndpoint "gs" "gm"))
  | CScheme => PScheme "OAuth2"
  | CSecurity => PSecurity (Some "basic_g")
  | CContact => PContact ""
  | CLicense => PLicense ""
  | CDocs => PDocs ""
  | CExample => PExample "sum"
  | _ => PAttribute
  end.

(* what a misplaced call records, message included *)
Definition located_call (c : ctx) (e : fentry) : list string :=
  match eval_call c e with
  | Incompatible f :: _ => [incompatible_msg f (ctx_path c)]
  | _ => []
  end.

(* ---- the documented context table ----
   What the doc comment of each DSL function says about where it may appear (dsl/*.go,
   "X must appear in ..."), with the kind of check the function is expected to make
   and the data types of attribute it works on. [Lemmas.table_agrees] compares it, entry
   by entry, with the table extracted from the working tree: a source change that moves,
   adds or removes an accepted context, turns a reporting check into a silent one, or
   changes the test made on the attribute's data type, breaks that proof. *)
Local Open Scope string_scope.
Definition documented : list fentry := [
  mkF "API" KStrict false [TTop] [];
  mkF "APIKey" KStrict false [TAttribute; TComposite] [GExactObject; GExactUnion];
  mkF "APIKeyField" KStrict false [TAttribute; TComposite] [GExactObject; GExactUnion];
  mkF "APIKeySecurity" KStrict false [TTop] [];
  mkF "AccessToken" KStrict false [TAttribute; TComposite] [GExactObject; GExactUnion];
  mkF "AccessTokenField" KStrict false [TAttribute; TComposite] [GExactObject; GExactUnion];
  mkF "ArrayOf" KAny false [] [];
  mkF "Attribute" KStrict false [TAttribute; TComposite] [GExactObject; GExactUnion];
  mkF "Attributes" KStrict false [TResultType] [];
  mkF "AuthorizationCodeFlow" KStrict false [TScheme] [];
  mkF "BasicAuthSecurity" KStrict false [TTop] [];
  mkF "Body" KStrict true [THTTPEndpoint; THTTPError; THTTPResponse] [];
  mkF "CONNECT" KStrict false [THTTPEndpoint] [];
  mkF "CanonicalMethod" KStrict false [THTTPService] [];
  mkF "ClientCredentialsFlow" KStrict false [TScheme] [];
  mkF "Code" KStrict false [TGRPCResponse; THTTPResponse] [];
  mkF "CollectionOf" KAny false [] [];
  mkF "Consumes" KStrict false [TRoot] [];
  mkF "Contact" KStrict false [TAPI] [];
  mkF "ContentType" KStrict false [THTTPResponse; TResultType] [];
  mkF "ConvertTo" KStrict false [TAttribute; TResultType] [];
  mkF "Cookie" KStrict false [THTTPEndpoint; THTTPResponse; THTTPService; TMapped; TRoot] [];
  mkF "CookieDomain" KStrict false [THTTPResponse] [];
  mkF "CookieHTTPOnly" KStrict false [THTTPResponse] [];
  mkF "CookieMaxAge" KStrict false [THTTPResponse] [];
  mkF "CookiePath" KStrict false [THTTPResponse] [];
  mkF "CookieSameSite" KStrict false [THTTPResponse] [];
  mkF "CookieSecure" KStrict false [THTTPResponse] [];
  mkF "CreateFrom" KStrict false [TAttribute; TResultType] [];
  mkF "DELETE" KStrict false [THTTPEndpoint] [];
  mkF "Default" KStrict false [TAttribute] [];
  mkF "Deprecated" KStrict true [THTTPEndpoint] [];
  mkF "Description" KStrict false [TAPI; TAttribute; TDocs; TExample; TGRPCResponse; THTTPFileServer; THTTPResponse; THost; TMethod; TResultType; TScheme; TServer; TService] [];
  mkF "Docs" KStrict false [TAPI; TAttribute; THTTPFileServer; TMethod; TService] [];
  mkF "Elem" KStrict true [TAttribute] [GExactArray; GExactMap];
  mkF "Email" KSilent false [TContact] [];
  mkF "Enum" KSilent false [TAttribute] [];
  mkF "Error" KStrict false [TAPI; TMethod; TService] [];
  mkF "ErrorName" KStrict false [TAttribute; TComposite] [GExactObject; GExactUnion];
  mkF "Example" KStrict false [TAttribute] [];
  mkF "ExclusiveMaximum" KSilent false [TAttribute] [];
  mkF "ExclusiveMinimum" KSilent false [TAttribute] [];
  mkF "Extend" KStrict false [TAttribute; TResultType] [];
  mkF "Fault" KStrict false [TAttribute] [];
  mkF "Field" KStrict false [TAttribute; TComposite] [GExactObject; GExactUnion];
  mkF "Files" KStrict false [TService] [];
  mkF "Format" KSilent false [TAttribute] [];
  mkF "GET" KStrict false [THTTPEndpoint] [];
  mkF "GRPC" KStrict false [TAPI; TMethod; TService] [];
  mkF "HEAD" KStrict false [THTTPEndpoint] [];
  mkF "HTTP" KStrict false [TAPI; TMethod; TService] [];
  mkF "Header" KStrict false [THTTPEndpoint; THTTPResponse; THTTPService; TMapped; TRoot] [];
  mkF "Headers" KStrict true [TGRPCResponse; THTTPEndpoint; THTTPResponse; THTTPService; TMapped; TRoot] [];
  mkF "Host" KStrict false [TServer] [];
  mkF "ImplicitFlow" KStrict false [TScheme] [];
  mkF "JWTSecurity" KStrict false [TTop] [];
  mkF "Key" KStrict true [TAttribute] [GExactMap];
  mkF "License" KStrict false [TAPI] [];
  mkF "MapOf" KAny false [] [];
  mkF "MapParams" KStrict false [THTTPEndpoint] [];
  mkF "MaxLength" KSilent false [TAttribute] [];
  mkF "Maximum" KSilent false [TAttribute] [];
  mkF "Message" KStrict false [TGRPCEndpoint; TGRPCError; TGRPCResponse] [];
  mkF "Meta" KStrict false [TAPI; TAttribute; THTTPEndpoint; THTTPFileServer; THTTPResponse; THTTPService; THost; TMethod; TResultType; TRoute; TServer; TService; TComposite] [];
  mkF "Metadata" KStrict false [TGRPCEndpoint] [];
  mkF "Method" KStrict false [TService] [];
  mkF "MinLength" KSilent false [TAttribute] [];
  mkF "Minimum" KSilent false [TAttribute] [];
  mkF "MultipartRequest" KStrict false [THTTPEndpoint] [];
  mkF "Name" KStrict false [TContact; TLicense] [];
  mkF "NoSecurity" KStrict false [TMethod] [];
  mkF "OAuth2Security" KStrict false [TTop] [];
  mkF "OPTIONS" KStrict false [THTTPEndpoint] [];
  mkF "OneOf" KStrict false [TAttribute; TComposite] [GExactObject; GExactUnion];
  mkF "PATCH" KStrict false [THTTPEndpoint] [];
  mkF "POST" KStrict false [THTTPEndpoint] [];
  mkF "PUT" KStrict false [THTTPEndpoint] [];
  mkF "Package" KStrict false [TGRPCService] [];
  mkF "Param" KStrict false [THTTPEndpoint; THTTPService; TMapped; TRoot] [];
  mkF "Params" KStrict false [THTTPEndpoint; THTTPService; TMapped; TRoot] [];
  mkF "Parent" KStrict false [THTTPService] [];
  mkF "Password" KStrict false [TAttribute; TComposite] [GExactObject; GExactUnion];
  mkF "PasswordField" KStrict false [TAttribute; TComposite] [GExactObject; GExactUnion];
  mkF "PasswordFlow" KStrict false [TScheme] [];
  mkF "Path" KStrict false [THTTPService; TRoot] [];
  mkF "Pattern" KSilent false [TAttribute] [];
  mkF "Payload" KStrict false [TMethod] [];
  mkF "Produces" KStrict false [TRoot] [];
  mkF "Randomizer" KStrict false [TAPI] [];
  mkF "Redirect" KStrict false [THTTPEndpoint; THTTPFileServer] [];
  mkF "Reference" KStrict false [TAttribute; TResultType] [];
  mkF "Required" KStrict false [TAttribute; TMapped; TResultType] [GExactUserType; GIsObject];
  mkF "Response" KStrict false [TGRPCEndpoint; TGRPC; TGRPCService; THTTPEndpoint; THTTP; THTTPService; TRoot] [];
  mkF "Result" KStrict false [TMethod] [];
  mkF "ResultType" KStrict false [TTop] [];
  mkF "Scope" KStrict false [TScheme; TSecurity] [];
  mkF "Security" KStrict false [TAPI; TMethod; TService] [];
  mkF "Server" KStrict false [TAPI] [];
  mkF "Service" KStrict false [TTop] [];
  mkF "Services" KStrict false [TServer] [];
  mkF "SkipRequestBodyEncodeDecode" KStrict false [THTTPEndpoint] [];
  mkF "SkipResponseBodyEncodeDecode" KStrict false [THTTPEndpoint] [];
  mkF "StreamingPayload" KStrict false [TMethod] [];
  mkF "StreamingResult" KStrict false [TMethod] [];
  mkF "TRACE" KStrict false [THTTPEndpoint] [];
  mkF "Tag" KStrict false [THTTPResponse] [];
  mkF "Temporary" KStrict false [TAttribute] [];
  mkF "TermsOfService" KStrict false [TAPI] [];
  mkF "Timeout" KStrict false [TAttribute] [];
  mkF "Title" KStrict false [TAPI] [];
  mkF "Token" KStrict false [TAttribute; TComposite] [GExactObject; GExactUnion];
  mkF "TokenField" KStrict false [TAttribute; TComposite] [GExactObject; GExactUnion];
  mkF "Trailers" KStrict false [TGRPCResponse] [];
  mkF "Type" KStrict false [TTop] [];
  mkF "TypeName" KStrict false [TAttribute; TUserType] [];
  mkF "URI" KStrict false [THost] [];
  mkF "URL" KStrict false [TContact; TDocs; TLicense] [];
  mkF "Username" KStrict false [TAttribute; TComposite] [GExactObject; GExactUnion];
  mkF "UsernameField" KStrict false [TAttribute; TComposite] [GExactObject; GExactUnion];
  mkF "Value" KStrict false [TExample] [];
  mkF "Variable" KStrict true [THost] [GExactObject; GExactUnion];
  mkF "Version" KStrict false [TAPI] [];
  mkF "View" KStrict true [TAttribute; TResultType] []
].
