(* C10 — property statements only. Every theorem is closed by a lemma of Lemmas.v
   (or by computation on a concrete witness) and followed by Print Assumptions.

   PARTIAL: protoc is absent; "well formed" means accepted by the proto3 fragment
   recogniser of Model.v (parse_message / parse_file) with valid numbers and names. *)
From Coq Require Import String.
From GRPC Require Import Model Lemmas LemmasNames Values LemmasValues.
Local Open Scope N_scope.
Local Open Scope list_scope.

(* ---- msgdef_parses: for ALL attribute trees whose tags rpcTag can read (no panic)
   and that are well-formed descriptions (names are identifiers after goa's
   snake-casing, collection elements are scalar / message types, legal map keys),
   the printed message definition is accepted by the recogniser, which reads back
   exactly the shape the description denotes, and nothing else. *)
Theorem msgdef_parses m toks :
  print_msg m = Some toks -> wf_msg m = true ->
  exists pm, shape_msg m = Some pm /\
    forall rest fuel, (fuel > length toks)%nat -> parse_message fuel (toks ++ rest) = Some (pm, rest).
Proof. exact (message_parse m toks). Qed.
Print Assumptions msgdef_parses.

(* ---- attribute_names_become_identifiers: goa's name pipeline (strip ":transport",
   mark digit runs, CamelCase with its initialism table, reserved-word suffix, the OAuth
   exception, SnakeCase) turns EVERY non-empty attribute name whose first surviving
   character is a letter into a proto identifier - for all byte strings, whatever
   separators, digits, initialisms or keywords they hold. The hypothesis is exactly the
   negation of the recorded finding field-name-not-identifier (1abc -> 1_abc). *)
Theorem attribute_names_become_identifiers n :
  n <> [] -> letter_led n = true -> ident_ok (field_name n) = true.
Proof. exact (field_name_identifier n). Qed.
Print Assumptions attribute_names_become_identifiers.

(* hence msgdef_parses with the hypothesis on names moved from goa's output to the
   design: letter-led attribute and union names *)
Theorem msgdef_parses_letter_led_names m toks :
  print_msg m = Some toks -> wf_msg_src m = true ->
  exists pm, shape_msg m = Some pm /\
    forall rest fuel, (fuel > length toks)%nat -> parse_message fuel (toks ++ rest) = Some (pm, rest).
Proof. intros Hp Hw. exact (message_parse m toks Hp (wf_msg_src_wf m Hw)). Qed.
Print Assumptions msgdef_parses_letter_led_names.

Example names_example :
  map (fun n => (letter_led (k n), ident_ok (field_name (k n))))
      ["fooBar"; "HTTPServer"; "a-b c"; "x9"; "message"; "__"; "1abc"; "_7x"; "OAuthToken:wire"]%string
  = [(true, true); (true, true); (true, true); (true, true); (true, true); (true, true); (false, false); (false, false); (true, true)].
Proof. vm_compute; reflexivity. Qed.

(* the whole file: header, one service block, the messages *)
Theorem proto_file_parses f toks :
  print_file f = Some toks -> wf_file f = true ->
  exists pf, shape_file f = Some pf /\ parse_file toks = Some pf.
Proof. exact (file_parse f toks). Qed.
Print Assumptions proto_file_parses.

(* ---- field_numbers_are_designed: every attribute of the message (union
   alternatives included), in design order, is a field of the parsed definition
   whose name is the snake-cased attribute name and whose number is what rpcTag
   reads from the designed tag; there are no other fields. *)
Theorem field_numbers_are_designed ms pms :
  shape_members ms = Some pms ->
  map (fun f => (pfield_name f, Some (pfield_num f))) (msg_fields pms)
  = map (fun a => (field_name (fst a), rpc_tag (snd a))) (msg_attrs ms).
Proof. exact (shape_members_designed ms pms). Qed.
Print Assumptions field_numbers_are_designed.

(* Field(n, ...) with a non-negative int n: the tag string is the decimal numeral of
   n and the number printed is n itself *)
Theorem int_tag_is_its_number n : n < 18446744073709551616 -> rpc_tag (Some (decimal n)) = Some n.
Proof. exact (parse_uint_decimal n). Qed.
Print Assumptions int_tag_is_its_number.

(* ---- tags_unique_partial: if every attribute (alternatives included) carries a
   canonical decimal numeral in the valid proto range, no tag STRING occurs twice in
   the message (what goa compares, extended to union alternatives) and no two
   attributes get the same proto name, then the emitted definition is printed,
   accepted, and has valid pairwise distinct numbers and distinct names. *)
Theorem tags_unique_partial ms :
  forallb wf_member ms = true -> tags_hyp ms = true -> emits_valid ms = true.
Proof. exact (emits_valid_partial ms). Qed.
Print Assumptions tags_unique_partial.

(* why comparing strings is enough under the hypothesis: canonical numerals denote
   distinct numbers *)
Theorem canonical_tags_injective s1 s2 v :
  canonical s1 = true -> canonical s2 = true -> parse_uint s1 = Some v -> parse_uint s2 = Some v -> s1 = s2.
Proof. exact (canonical_parse_inj s1 s2 v). Qed.
Print Assumptions canonical_tags_injective.

(* ---- tags_valid_when_accepted (FULL, after the field-number repairs): whatever scope a
   message's attributes come from (unmapped or mapped top-level payload / result, streaming
   payload, user type), if goa's validation accepts them - every attribute, union
   alternatives included, carries a tag that parses to an integer in 1..2^29-1 outside
   19000-19999, no NUMBER twice, map keys of a protobuf key type - then the emitted
   definition is printed (no panic), accepted by the recogniser and has valid pairwise
   distinct numbers. Distinct proto names remain a hypothesis (recorded finding below). *)
Theorem tags_valid_when_accepted sc ms :
  forallb wf_member ms = true -> goa_accepts sc ms = true ->
  nodup_str (map (fun a => field_name (fst a)) (msg_attrs ms)) = true ->
  emits_valid ms = true.
Proof. exact (emits_valid_accepted sc ms). Qed.
Print Assumptions tags_valid_when_accepted.

Definition i32 := TPrim PInt.
Definition fld (n t : string) : member := MField (k n) (Some (k t)) false i32.

(* the designs of the repaired findings are refused now, in every scope *)
Theorem formerly_accepted_designs_are_rejected sc :
  goa_accepts sc [fld "x" "0"] = false /\
  goa_accepts sc [fld "x" "1"; fld "y" "01"] = false /\
  goa_accepts sc [fld "x" "1"; MOneof (k "u") [(k "a", Some (k "1"), TPrim PString); (k "b", Some (k "2"), i32)]] = false /\
  goa_accepts sc [fld "x" "19000"] = false /\ goa_accepts sc [fld "x" "536870912"] = false /\
  goa_accepts sc [fld "x" "abc"] = false /\ goa_accepts sc [fld "x" "-1"] = false /\
  goa_accepts sc [MField (k "x") None false i32; fld "y" "2"] = false /\ goa_accepts sc [fld "y" "2"; fld "z" "2"] = false /\
  goa_accepts sc [MField (k "mf") (Some (k "1")) false (TMap (TPrim PFloat64) (TPrim PString))] = false /\
  goa_accepts sc [fld "x" "18999"; fld "y" "20000"; fld "z" "536870911"; fld "w" "01"] = true.
Proof. repeat split; vm_compute; reflexivity. Qed.
Print Assumptions formerly_accepted_designs_are_rejected.

(* ---- the recorded findings that remain: designs goa accepts whose definition is not valid *)
(* fooBar and foo_bar: two attributes, one proto name *)
Theorem tags_unique_refuted_snake_names :
  let ms := [fld "fooBar" "1"; fld "foo_bar" "2"] in
  goa_accepts TopPlain ms = true /\ emits_valid ms = false /\ field_name (k "fooBar") = field_name (k "foo_bar").
Proof. repeat split; vm_compute; reflexivity. Qed.
Print Assumptions tags_unique_refuted_snake_names.

(* an attribute named 1abc becomes the field 1_abc, which is no identifier *)
Theorem msgdef_parses_refuted_digit_led_name :
  let ms := [fld "1abc" "1"] in
  goa_accepts TopPlain ms = true /\ field_name (k "1abc") = k "1_abc" /\ ident_ok (k "1_abc") = false /\ emits_valid ms = false.
Proof. repeat split; vm_compute; reflexivity. Qed.
Print Assumptions msgdef_parses_refuted_digit_led_name.

(* a user type aliasing a collection: goa prints `message Ints Ints`; not a message *)
Theorem msgdef_parses_refuted_alias_of_collection :
  parse_message 10 [TI kw_message; TI (k "Ints"); TI (k "Ints"); TI kw_message; TI (k "MResponse"); TY 123; TY 125] = None.
Proof. vm_compute; reflexivity. Qed.
Print Assumptions msgdef_parses_refuted_alias_of_collection.

(* ---- one_rpc_per_method_with_streaming_kind: the service block holds exactly one
   rpc per method, in order, named after it, and `stream` stands before the request
   (response) type exactly when the designed kind streams the payload (result). *)
Theorem one_rpc_per_method_with_streaming_kind rs rest fuel :
  forallb wf_rpc rs = true -> (fuel > length rs)%nat ->
  parse_rpcs fuel (flat_map rpc_tokens rs ++ TY 125 :: rest)
  = Some (map (fun r => match r with (n, kd, rq, rs_) => (n, client_streams kd, rq, server_streams kd, rs_) end) rs, rest).
Proof. intros H Hf. exact (rpcs_parse rs H rest fuel Hf). Qed.
Print Assumptions one_rpc_per_method_with_streaming_kind.

Theorem streaming_kinds_table :
  map (fun kd => (client_streams kd, server_streams kd)) [Unary; ClientStream; ServerStream; Bidi]
  = [(false, false); (true, false); (false, true); (true, true)].
Proof. reflexivity. Qed.
Print Assumptions streaming_kinds_table.

(* the streaming kind goa derives while the Method DSL runs does not depend on the order
   in which Payload, StreamingPayload, Result, StreamingResult are declared (each at
   most once): it is the designed one *)
Theorem streaming_kind_independent_of_declaration_order ds : NoDup ds ->
  kind_of_decls ds = designed_kind (has_decl DStreamingPayload ds) (has_decl DStreamingResult ds).
Proof. exact (kind_of_decls_designed ds). Qed.
Print Assumptions streaming_kind_independent_of_declaration_order.

(* which payload attributes travel as request metadata: the listed ones and the
   credentials, or, with a streaming payload, all of them; each is required there
   exactly when the payload requires it (metadata_required_as_designed) *)
Theorem request_metadata_attributes attrs explicit creds sp a :
  In a (request_metadata_names attrs explicit creds sp) <->
  if sp then In a attrs else In a explicit \/ In a creds.
Proof. exact (request_metadata_names_In attrs explicit creds sp a). Qed.
Print Assumptions request_metadata_attributes.

(* ---- the request (response) message keeps exactly the payload (result) attributes
   that are not mapped to metadata (headers, trailers), in payload order *)
Theorem message_is_payload_minus_metadata attrs removed a :
  In a (split_message attrs removed) <-> In a attrs /\ forall r, In r removed -> ~ In a r.
Proof. exact (split_message_In attrs removed a). Qed.
Print Assumptions message_is_payload_minus_metadata.

Theorem message_without_mapping_is_payload attrs : split_message attrs [] = attrs.
Proof. exact (split_message_none attrs). Qed.
Print Assumptions message_without_mapping_is_payload.

(* with an explicit Message(...) the listed attributes stay in the message (first, in
   the listed order, whatever DSL they carry) and the unmapped others follow *)
Theorem explicit_message_attributes listed attrs removed a :
  In a (build_message listed attrs removed) <->
  In a listed \/ (In a attrs /\ forall r, In r removed -> ~ In a r).
Proof. exact (build_message_In listed attrs removed a). Qed.
Print Assumptions explicit_message_attributes.

(* a metadata / header / trailer attribute is required exactly when the design requires it *)
Theorem metadata_required_as_designed md required a :
  In a (required_metadata md required) <-> In a md /\ In a required.
Proof. exact (required_metadata_In md required a). Qed.
Print Assumptions metadata_required_as_designed.

(* ---- request metadata through goa's client invoker: whatever the caller's context
   already carried, the server decoder reads under every key the caller's values
   followed by the values the request encoder appended, in order: nothing is lost,
   everything written is delivered (grpc/client.go Invoke). *)
Theorem request_metadata_is_merged caller written key :
  md_get (md_write caller written) key = md_get caller key ++ written_for key written.
Proof. exact (md_get_write written caller key). Qed.
Print Assumptions request_metadata_is_merged.

(* ---- calls through one handler do not see each other: the response metadata of the
   last call of any history is what that call alone wrote *)
Theorem response_metadata_independent_of_history h1 h2 c :
  last (run_history (h1 ++ [c])) [] = last (run_history (h2 ++ [c])) [].
Proof. now rewrite !run_history_last. Qed.
Print Assumptions response_metadata_independent_of_history.

(* ---- the unary handler runs user code only after a successful decode (which
   includes the generated validation), and encodes only what the endpoint returned *)
Theorem user_code_runs_only_after_decode d e :
  (In SEndpoint (handle_trace d e) -> d = true) /\ (In SEncode (handle_trace d e) -> d = true /\ e = true).
Proof. exact (conj (endpoint_after_decode d e) (encode_after_endpoint d e)). Qed.
Print Assumptions user_code_runs_only_after_decode.

(* ---- streaming methods: the request decoder (which builds and validates the payload
   from the metadata) runs exactly when the method has one - whether or not a request
   message accompanies the call - and user code runs only if there is nothing to
   decode or decoding succeeded *)
Theorem streaming_user_code_runs_only_after_decode has_decoder decode_ok :
  (In SDecode (stream_trace has_decoder decode_ok) <-> has_decoder = true) /\
  (In SEndpoint (stream_trace has_decoder decode_ok) <-> has_decoder = false \/ decode_ok = true).
Proof. exact (stream_trace_spec has_decoder decode_ok). Qed.
Print Assumptions streaming_user_code_runs_only_after_decode.

(* ---- proto_roundtrip: a value of the modelled fragment (primitives, optional
   primitives, arrays, maps, nested messages, wrapped nested collections) whose Int /
   UInt leaves fit 32 bits is converted to a message value by the client-side
   conversion and back to the SAME value by the server-side conversion (and likewise
   results, server to client). Stand-in for the wire: the message value itself. *)
Theorem proto_roundtrip t v : fits t v = true ->
  exists m, to_proto t v = Some m /\ from_proto t m = Some v.
Proof. exact (roundtrip_all t v). Qed.
Print Assumptions proto_roundtrip.

(* payloads / results that are not objects travel in a message with the single field `field` *)
Theorem proto_message_roundtrip t v : fits t v = true ->
  exists m, to_message t v = Some m /\ from_message t m = Some v.
Proof. exact (message_roundtrip t v). Qed.
Print Assumptions proto_message_roundtrip.

(* without the 32-bit hypothesis the statement is false: Go's int / uint hold 64 bits,
   goa converts with int32(v) / uint32(v) *)
Theorem proto_roundtrip_refuted_int_narrowing :
  typed_prim PInt (SInt 2147483648) = true /\
  to_proto (VPrim PInt) (SInt 2147483648) = Some (SInt (-2147483648)) /\
  from_proto (VPrim PInt) (SInt (-2147483648)) = Some (SInt (-2147483648)) /\
  typed_prim PUInt (SInt 4294967301) = true /\
  to_proto (VPrim PUInt) (SInt 4294967301) = Some (SInt 5).
Proof. repeat split; vm_compute; reflexivity. Qed.
Print Assumptions proto_roundtrip_refuted_int_narrowing.

(* ---- non-vacuity *)
Example msgdef_example :
  let m := Msg (k "M1Request")
    [MField (k "a") (Some (k "1")) true i32;
     MField (k "fooBar") (Some (k "5")) false (TAlias (TPrim PUInt));
     MField (k "arr") (Some (k "6")) false (TArr (TMsg (k "T")));
     MField (k "mm") (Some (k "7")) false (TMap (TPrim PString) (TMsg (k "T")));
     MOneof (k "choice") [(k "s", Some (k "10"), TAlias (TPrim PString)); (k "tt", Some (k "11"), TMsg (k "T"))]] in
  wf_msg m = true /\ tags_hyp (match m with Msg _ ms => ms end) = true /\
  exists toks, print_msg m = Some toks /\
    parse_message (S (length toks)) toks =
      Some ((k "M1Request",
             [PMField (PF LNone (k "sint32") (k "a") 1);
              PMField (PF LOptional (k "uint32") (k "foo_bar") 5);
              PMField (PF LRepeated (k "T") (k "arr") 6);
              PMField (PMapF (k "string") (k "T") (k "mm") 7);
              PMOneof (k "choice") [PF LNone (k "string") (k "s") 10; PF LNone (k "T") (k "tt") 11]]), []).
Proof. split; [vm_compute; reflexivity|]. split; [vm_compute; reflexivity|]. eexists. split; vm_compute; reflexivity. Qed.

Example roundtrip_example :
  let t := VMsg [VPrim PInt; VOpt PString; VArr (VArr (VPrim PUInt)); VMap (VPrim PString) (VMsg [VOpt PInt64]); VMsg [VPrim PBool]] in
  let v := SObj [SInt (-5); SNil; SList [SList [SInt 1; SInt 2]; SList []];
                 SMap [(SStr [107], SObj [SInt 9223372036854775807])]; SNil]%Z in
  fits t v = true /\
  to_proto t v = Some (SObj [SInt (-5); SNil; SList [SObj [SList [SInt 1; SInt 2]]; SObj [SList []]];
                            SMap [(SStr [107], SObj [SInt 9223372036854775807])]; SNil])%Z.
Proof. split; vm_compute; reflexivity. Qed.
