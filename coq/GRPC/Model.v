(* C10 — model of goa's protocol buffer definition emission (grpc/codegen/protobuf.go
   protoBufMessageDef / protoType / rpcTag / protoBufify, codegen/funcs.go CamelCase /
   SnakeCase, the grpc_service / grpc_message / proto_start templates), of the tag
   validation goa performs (expr/grpc_endpoint.go validateRPCTags), a proto3
   recogniser for the language fragment those files use, and the request /
   response message split. Definitions only; everything computes.

   Strings are lists of byte values (N). *)
From Coq Require Export List Bool NArith Lia.
From Coq Require Import String Ascii.
Export ListNotations.
Local Open Scope N_scope.
Local Open Scope list_scope.

Definition str := list N.

Definition bytes_of (s : string) : str := map N_of_ascii (list_ascii_of_string s).

Fixpoint str_eqb (a b : str) : bool :=
  match a, b with
  | [], [] => true
  | x :: a', y :: b' => (x =? y) && str_eqb a' b'
  | _, _ => false
  end.

Definition mem (x : str) (l : list str) : bool := existsb (str_eqb x) l.

(* ---------------------------------------------------------------- characters *)
Definition is_upper (c : N) : bool := (65 <=? c) && (c <=? 90).
Definition is_lowerL (c : N) : bool := (97 <=? c) && (c <=? 122).
Definition is_digit (c : N) : bool := (48 <=? c) && (c <=? 57).
Definition is_letter (c : N) : bool := is_upper c || is_lowerL c.
(* codegen.isLower: digit or lower-case letter; codegen.validIdentifier: letter or digit *)
Definition go_is_lower (c : N) : bool := is_digit c || is_lowerL c.
Definition valid_id (c : N) : bool := is_letter c || is_digit c.
Definition to_lower (c : N) : N := if is_upper c then c + 32 else c.
Definition to_upper (c : N) : N := if is_lowerL c then c - 32 else c.
Definition us : N := 95.

(* ------------------------------------------------- protoBufify and SnakeCase *)
(* strip the ":transport" suffix when the colon is not the first character *)
Fixpoint before_colon (s : str) : str :=
  match s with
  | [] => []
  | c :: r => if c =? 58 then [] else c :: before_colon r
  end.
Definition strip_colon (s : str) : str :=
  match s with
  | [] => []
  | c :: r => if c =? 58 then s else c :: before_colon r
  end.

(* digits.ReplaceAllFunc: an underscore after every maximal run of digits *)
Fixpoint digits_us (s : str) : str :=
  match s with
  | [] => []
  | c :: r =>
    if is_digit c then
      match r with
      | d :: _ => if is_digit d then c :: digits_us r else c :: us :: digits_us r
      | [] => [c; us]
      end
    else c :: digits_us r
  end.

Fixpoint drop_while (p : N -> bool) (s : str) : str :=
  match s with
  | [] => []
  | c :: r => if p c then drop_while p r else s
  end.
Definition strip_trailing_invalid (s : str) : str := rev (drop_while (fun c => negb (valid_id c)) (rev s)).

Definition initialisms : list str := Eval compute in map bytes_of
  ["API"; "ASCII"; "CPU"; "CSS"; "DNS"; "EOF"; "GUID"; "HTML"; "HTTP"; "HTTPS"; "ID"; "IP"; "JMES"; "JSON"; "JWT";
   "LHS"; "OK"; "QPS"; "RAM"; "RHS"; "RPC"; "SDK"; "SLA"; "SMTP"; "SQL"; "SSH"; "TCP"; "TLS"; "TTL"; "UDP"; "UI";
   "UID"; "UUID"; "URI"; "URL"; "UTF8"; "VM"; "XML"; "XSRF"; "XSS"]%string.

Definition map_first (f : N -> N) (s : str) : str :=
  match s with [] => [] | c :: r => f c :: r end.

(* what CamelCase(.., firstUpper=false, acronym=false) does to one word *)
Definition fix_word (first : bool) (w : str) : str :=
  let w1 :=
    if mem (map to_upper w) initialisms then
      (if first then map to_lower w else map_first to_upper (map to_lower w))
    else if negb first && forallb (fun c => negb (is_upper c)) w then map_first to_upper w
    else w in
  if first then map_first to_lower w1 else w1.

(* the word-splitting scan of CamelCase on a string without trailing invalid runes *)
Fixpoint camel (cur : str) (first : bool) (s : str) : str :=
  match s with
  | [] => []
  | c :: r =>
    if negb (valid_id c) then camel cur first r
    else
      let eow := match r with
                 | [] => true
                 | d :: _ => (d =? us) || (go_is_lower c && negb (go_is_lower d))
                 end in
      if eow then fix_word first (cur ++ [c]) ++ camel [] false r
      else camel (cur ++ [c]) first r
  end.
Definition camel_case (s : str) : str := camel [] true (strip_trailing_invalid s).

Definition reserved_protobuf : list str := Eval compute in map bytes_of
  ["bool"; "bytes"; "double"; "fixed32"; "fixed64"; "float"; "int32"; "int64"; "sfixed32"; "sfixed64"; "sint32";
   "sint64"; "string"; "uint32"; "uint64"; "enum"; "import"; "map"; "message"; "oneof"; "option"; "package"; "public";
   "repeated"; "reserved"; "returns"; "rpc"; "service"; "syntax"]%string.

Definition s_val : str := Eval compute in bytes_of "val".

(* protoBufify(str, firstUpper=false, acronym=false) *)
Definition protobufify (s : str) : str :=
  match s with
  | [] => []
  | _ =>
    let c := camel_case (digits_us (strip_colon s)) in
    match c with
    | [] => s_val
    | _ => if mem (camel_case c) reserved_protobuf then c ++ [us] else c
    end
  end.

(* strings.ReplaceAll(name, "OAuth", "oauth") *)
Fixpoint replace_oauth (s : str) : str :=
  match s with
  | [] => []
  | c :: r =>
    match s with
    | a :: b :: c2 :: d :: e :: r5 =>
      if (a =? 79) && (b =? 65) && (c2 =? 117) && (d =? 116) && (e =? 104)
      then 111 :: 97 :: 117 :: 116 :: 104 :: replace_oauth r5
      else c :: replace_oauth r
    | _ => c :: replace_oauth r
    end
  end.

(* the scan of SnakeCase after its first character *)
Fixpoint snake_loop (last_lower last_under : bool) (s : str) : str :=
  match s with
  | [] => []
  | c :: r =>
    let is_low := is_lowerL c || is_digit c in
    let is_under := c =? us in
    let ins :=
      if negb is_low && negb is_under then
        if last_lower && negb last_under then true
        else match r with
             | rn :: _ => is_lowerL rn && negb (rn =? us) && negb last_under
             | [] => false
             end
      else false in
    (if ins then [us] else []) ++ to_lower c :: snake_loop is_low is_under r
  end.

(* codegen.SnakeCase on a string of letters, digits and underscores (which is what
   protoBufify returns: blanks and dashes never reach it) *)
Definition snake_case (s : str) : str :=
  match replace_oauth s with
  | [] => []
  | c :: r => to_lower c :: snake_loop false false r
  end.

(* the name of a proto field / oneof for an attribute / union name *)
Definition field_name (n : str) : str := snake_case (protobufify n).

(* ------------------------------------------------------------------- designs *)
Inductive prim := PBool | PInt | PInt32 | PInt64 | PUInt | PUInt32 | PUInt64 | PFloat32 | PFloat64 | PString | PBytes.

(* attribute types as protoBufMessageDef meets them: primitives, user types aliasing
   a primitive, user types that are messages (by the message name goa chose),
   arrays, maps *)
Inductive ty := TPrim (p : prim) | TAlias (t : ty) | TMsg (n : str) | TArr (e : ty) | TMap (k v : ty).

(* the rpc:tag meta: the string the design gave to Field, None for Attribute *)
Definition tag := option str.

Inductive member :=
| MField (name : str) (tg : tag) (req : bool) (t : ty)
| MOneof (uname : str) (alts : list (str * tag * ty)).

Inductive msg := Msg (name : str) (ms : list member).

Inductive skind := Unary | ClientStream | ServerStream | Bidi.

Definition rpc := (str * skind * str * str)%type.     (* method, designed kind, request message, response message *)

Inductive file := File (pkg : str) (svc : str) (rpcs : list rpc) (msgs : list msg).

(* ------------------------------------------------------------------- rpcTag *)
Definition digit_val (c : N) : option N := if is_digit c then Some (c - 48) else None.

Fixpoint parse_digits (acc : N) (s : str) : option N :=
  match s with
  | [] => Some acc
  | c :: r => match digit_val c with Some d => parse_digits (10 * acc + d) r | None => None end
  end.

(* strconv.ParseUint(t, 10, 64): digits only, not empty, below 2^64 *)
Definition parse_uint (s : str) : option N :=
  match s with
  | [] => None
  | _ => match parse_digits 0 s with
         | Some v => if v <? 18446744073709551616 then Some v else None
         | None => None
         end
  end.

(* rpcTag: 0 without rpc:tag, the parsed number otherwise, None = panic *)
Definition rpc_tag (t : tag) : option N :=
  match t with None => Some 0 | Some s => parse_uint s end.

(* fmt.Sprintf("%v", n) for the non-negative int a design passes to Field *)
Fixpoint dec_le (fuel : nat) (n : N) : str :=
  match fuel with
  | O => []
  | S f => if n <? 10 then [48 + n] else (48 + n mod 10) :: dec_le f (n / 10)
  end.
Definition decimal (n : N) : str := rev (dec_le (S (N.to_nat (N.log2 n))) n).

(* --------------------------------------------------------------------- tokens *)
Inductive token := TI (s : str) | TD (n : N) | TQ (s : str) | TY (c : N) | TBad (s : str).

Definition k (s : string) : str := bytes_of s.
Definition kw_syntax := Eval compute in k "syntax".
Definition kw_proto3 := Eval compute in k "proto3".
Definition kw_package := Eval compute in k "package".
Definition kw_option := Eval compute in k "option".
Definition kw_go_package := Eval compute in k "go_package".
Definition kw_import := Eval compute in k "import".
Definition kw_service := Eval compute in k "service".
Definition kw_rpc := Eval compute in k "rpc".
Definition kw_stream := Eval compute in k "stream".
Definition kw_returns := Eval compute in k "returns".
Definition kw_message := Eval compute in k "message".
Definition kw_optional := Eval compute in k "optional".
Definition kw_repeated := Eval compute in k "repeated".
Definition kw_map := Eval compute in k "map".
Definition kw_oneof := Eval compute in k "oneof".
Definition s_pb := Eval compute in k "pb".

Notation LBRACE := 123 (only parsing).  Notation RBRACE := 125 (only parsing).
Notation LPAR := 40 (only parsing).     Notation RPAR := 41 (only parsing).
Notation LT := 60 (only parsing).       Notation GT := 62 (only parsing).
Notation EQ := 61 (only parsing).       Notation SEMI := 59 (only parsing).   Notation COMMA := 44 (only parsing).

(* ------------------------------------------------------------------ tokenizer *)
(* proto3 lexemes of the fragment: identifiers, decimal numerals, "strings" without
   escapes, the punctuation = { } ( ) < > ; , . and // comments. A lexeme that is none
   of these (1_abc, 007, a lone slash) becomes one TBad token. *)
Inductive lstate := LNormal | LIdent (acc : str) | LNum (acc : str) | LStr (acc : str) | LSlash | LComment.

Definition is_space (c : N) : bool := (c =? 32) || (c =? 9) || (c =? 10) || (c =? 13).
Definition is_punct (c : N) : bool :=
  (c =? 61) || (c =? 123) || (c =? 125) || (c =? 40) || (c =? 41) || (c =? 60) || (c =? 62) || (c =? 59) || (c =? 44) || (c =? 46).
Definition ident_start_c (c : N) : bool := is_letter c || (c =? 95).
Definition word_char (c : N) : bool := is_letter c || is_digit c || (c =? 95).

(* a character met outside any lexeme: tokens emitted, next state *)
Definition lex_start (c : N) : list token * lstate :=
  if is_space c then ([], LNormal)
  else if ident_start_c c then ([], LIdent [c])
  else if is_digit c then ([], LNum [c])
  else if c =? 34 then ([], LStr [])
  else if c =? 47 then ([], LSlash)
  else if is_punct c then ([TY c], LNormal)
  else ([TBad [c]], LNormal).

Definition num_token (lexeme : str) : token :=
  match lexeme with
  | [48] => TD 0
  | c :: _ =>
    if forallb is_digit lexeme && negb (c =? 48) then
      match parse_digits 0 lexeme with Some v => TD v | None => TBad lexeme end
    else TBad lexeme
  | [] => TBad lexeme
  end.

Definition lex_flush (st : lstate) : list token :=
  match st with
  | LIdent acc => [TI (rev acc)]
  | LNum acc => [num_token (rev acc)]
  | LStr acc => [TBad (34 :: rev acc)]
  | LSlash => [TBad [47]]
  | _ => []
  end.

Fixpoint lex (st : lstate) (s : str) : list token :=
  match s with
  | [] => lex_flush st
  | c :: r =>
    let restart (pre : list token) := let '(ts, st') := lex_start c in pre ++ ts ++ lex st' r in
    match st with
    | LNormal => restart []
    | LComment => if c =? 10 then lex LNormal r else lex LComment r
    | LStr acc => if c =? 34 then TQ (rev acc) :: lex LNormal r
                  else if c =? 10 then TBad (34 :: rev acc) :: lex LNormal r
                  else lex (LStr (c :: acc)) r
    | LIdent acc => if word_char c then lex (LIdent (c :: acc)) r else restart [TI (rev acc)]
    | LNum acc => if word_char c then lex (LNum (c :: acc)) r else restart [num_token (rev acc)]
    | LSlash => if c =? 47 then lex LComment r else restart [TBad [47]]
    end
  end.

Definition tokenize (s : str) : list token := lex LNormal s.

(* protoNativeType *)
Definition n_bool := Eval compute in k "bool".
Definition n_sint32 := Eval compute in k "sint32".
Definition n_sint64 := Eval compute in k "sint64".
Definition n_uint32 := Eval compute in k "uint32".
Definition n_uint64 := Eval compute in k "uint64".
Definition n_float := Eval compute in k "float".
Definition n_double := Eval compute in k "double".
Definition n_string := Eval compute in k "string".
Definition n_bytes := Eval compute in k "bytes".
Definition native (p : prim) : str :=
  match p with
  | PBool => n_bool
  | PInt | PInt32 => n_sint32
  | PInt64 => n_sint64
  | PUInt | PUInt32 => n_uint32
  | PUInt64 => n_uint64
  | PFloat32 => n_float
  | PFloat64 => n_double
  | PString => n_string
  | PBytes => n_bytes
  end.

(* ------------------------------------------------------------------- printer *)
(* protoType / protoBufMessageDef on a field type *)
Fixpoint type_tokens (t : ty) : list token :=
  match t with
  | TPrim p => [TI (native p)]
  | TAlias t' => type_tokens t'
  | TMsg n => [TI n]
  | TArr e => TI kw_repeated :: type_tokens e
  | TMap kt vt => [TI kw_map; TY LT] ++ type_tokens kt ++ [TY COMMA] ++ type_tokens vt ++ [TY GT]
  end.

(* expr.IsPrimitive on the attribute type (a user type aliasing a primitive counts) *)
Fixpoint is_prim (t : ty) : bool :=
  match t with TPrim _ => true | TAlias t' => is_prim t' | _ => false end.

Definition field_tokens (opt : bool) (t : ty) (n : str) (num : N) : list token :=
  (if opt then [TI kw_optional] else []) ++ type_tokens t ++ [TI (field_name n); TY EQ; TD num; TY SEMI].

Fixpoint alts_tokens (alts : list (str * tag * ty)) : option (list token) :=
  match alts with
  | [] => Some []
  | (n, tg, t) :: r =>
    match rpc_tag tg, alts_tokens r with
    | Some num, Some rest => Some (field_tokens false t n num ++ rest)
    | _, _ => None
    end
  end.

Definition member_tokens (m : member) : option (list token) :=
  match m with
  | MField n tg req t =>
    match rpc_tag tg with
    | Some num => Some (field_tokens (negb req && is_prim t) t n num)
    | None => None
    end
  | MOneof u alts =>
    match alts_tokens alts with
    | Some ts => Some ([TI kw_oneof; TI (field_name u); TY LBRACE] ++ ts ++ [TY RBRACE])
    | None => None
    end
  end.

Fixpoint members_tokens (ms : list member) : option (list token) :=
  match ms with
  | [] => Some []
  | m :: r =>
    match member_tokens m, members_tokens r with
    | Some a, Some b => Some (a ++ b)
    | _, _ => None
    end
  end.

(* None models the panic in rpcTag (strconv.ParseUint error) *)
Definition print_msg (m : msg) : option (list token) :=
  match m with
  | Msg n ms =>
    match members_tokens ms with
    | Some ts => Some ([TI kw_message; TI n; TY LBRACE] ++ ts ++ [TY RBRACE])
    | None => None
    end
  end.

Definition client_streams (kd : skind) : bool := match kd with ClientStream | Bidi => true | _ => false end.
Definition server_streams (kd : skind) : bool := match kd with ServerStream | Bidi => true | _ => false end.

Definition rpc_tokens (r : rpc) : list token :=
  match r with
  | (n, kd, rq, rs) =>
    [TI kw_rpc; TI n; TY LPAR] ++ (if client_streams kd then [TI kw_stream] else []) ++ [TI rq; TY RPAR; TI kw_returns; TY LPAR]
    ++ (if server_streams kd then [TI kw_stream] else []) ++ [TI rs; TY RPAR; TY SEMI]
  end.

Definition service_tokens (svc : str) (rs : list rpc) : list token :=
  [TI kw_service; TI svc; TY LBRACE] ++ flat_map rpc_tokens rs ++ [TY RBRACE].

Fixpoint msgs_tokens (ms : list msg) : option (list token) :=
  match ms with
  | [] => Some []
  | m :: r =>
    match print_msg m, msgs_tokens r with
    | Some a, Some b => Some (a ++ b)
    | _, _ => None
    end
  end.

Definition header_tokens (pkg : str) : list token :=
  [TI kw_syntax; TY EQ; TQ kw_proto3; TY SEMI; TI kw_package; TI pkg; TY SEMI;
   TI kw_option; TI kw_go_package; TY EQ; TQ (47 :: pkg ++ s_pb); TY SEMI].

Definition print_file (f : file) : option (list token) :=
  match f with
  | File pkg svc rs ms =>
    match msgs_tokens ms with
    | Some mt => Some (header_tokens pkg ++ service_tokens svc rs ++ mt)
    | None => None
    end
  end.

(* ---------------------------------------------------------------- recogniser *)
(* proto3, the fragment:
     file    = syntax = "proto3" ; package ident ; { option ident = str ; | import str ; } service { message }
     service = service ident "{" { rpc ident ( [stream] type ) returns ( [stream] type ) ; } "}"
     message = message ident "{" { field | mapfield | oneof | message } "}"
     field   = [optional | repeated] type ident = number ;
     mapfield= map < keytype , type > ident = number ;
     oneof   = oneof ident "{" field1 { field1 } "}"      field1 = type ident = number ;          *)
Inductive label := LNone | LOptional | LRepeated.

Inductive pfield :=
| PF (l : label) (t : str) (name : str) (num : N)
| PMapF (kt vt : str) (name : str) (num : N).

Inductive pmember :=
| PMField (f : pfield)
| PMOneof (name : str) (fs : list pfield)
| PMMsg (name : str) (ms : list pmember).

Definition pmsg := (str * list pmember)%type.
Definition prpc := (str * bool * str * bool * str)%type.   (* name, request streamed, request, response streamed, response *)
Inductive pfile := PFile (pkg : str) (opts : list (str * str)) (imports : list str) (svc : str) (rpcs : list prpc) (msgs : list pmsg).

Definition ident_start (c : N) : bool := is_letter c || (c =? us).
Definition ident_char (c : N) : bool := is_letter c || is_digit c || (c =? us).
Definition ident_ok (s : str) : bool :=
  match s with [] => false | c :: r => ident_start c && forallb ident_char r end.

(* identifiers that begin another production and therefore cannot be a type name where a field may start *)
Definition member_keywords : list str := Eval compute in map bytes_of
  ["optional"; "repeated"; "map"; "oneof"; "message"; "reserved"; "option"; "enum"; "extensions"; "extend"; "group"; "required"; "stream"]%string.
Definition type_ok (s : str) : bool := ident_ok s && negb (mem s member_keywords).

Definition key_types : list str := Eval compute in map bytes_of
  ["int32"; "int64"; "uint32"; "uint64"; "sint32"; "sint64"; "fixed32"; "fixed64"; "sfixed32"; "sfixed64"; "bool"; "string"]%string.
Definition key_ok (s : str) : bool := mem s key_types.

(* oneof alternatives, up to the closing brace *)
Fixpoint parse_alts (fuel : nat) (ts : list token) : option (list pfield * list token) :=
  match fuel with
  | O => None
  | S f =>
    match ts with
    | TY 125 :: r => Some ([], r)
    | TI t :: TI n :: TY 61 :: TD num :: TY 59 :: r =>
      if type_ok t && ident_ok n then
        match parse_alts f r with
        | Some (fs, r') => Some (PF LNone t n num :: fs, r')
        | None => None
        end
      else None
    | _ => None
    end
  end.

(* a member that holds no nested block: map field, labelled field, plain field; w is
   the identifier the member starts with *)
Definition parse_simple_member (w : str) (r : list token) : option (pfield * list token) :=
  if str_eqb w kw_map then
    match r with
    | TY 60 :: TI kt :: TY 44 :: TI vt :: TY 62 :: TI n :: TY 61 :: TD num :: TY 59 :: r1 =>
      if key_ok kt && type_ok vt && ident_ok n then Some (PMapF kt vt n num, r1) else None
    | _ => None
    end
  else if str_eqb w kw_optional || str_eqb w kw_repeated then
    match r with
    | TI t :: TI n :: TY 61 :: TD num :: TY 59 :: r1 =>
      if type_ok t && ident_ok n
      then Some (PF (if str_eqb w kw_optional then LOptional else LRepeated) t n num, r1)
      else None
    | _ => None
    end
  else
    match r with
    | TI n :: TY 61 :: TD num :: TY 59 :: r1 =>
      if type_ok w && ident_ok n then Some (PF LNone w n num, r1) else None
    | _ => None
    end.

(* members of a message, up to and including its closing brace *)
Fixpoint parse_members (fuel : nat) (ts : list token) : option (list pmember * list token) :=
  match fuel with
  | O => None
  | S f =>
    let continue (m : pmember) (r : list token) :=
      match parse_members f r with
      | Some (ms, r') => Some (m :: ms, r')
      | None => None
      end in
    match ts with
    | TY 125 :: r => Some ([], r)
    | TI w :: r =>
      if str_eqb w kw_oneof then
        match r with
        | TI n :: TY 123 :: r1 =>
          if ident_ok n then
            match parse_alts f r1 with
            | Some (fs, r2) => match fs with [] => None | _ => continue (PMOneof n fs) r2 end
            | None => None
            end
          else None
        | _ => None
        end
      else if str_eqb w kw_message then
        match r with
        | TI n :: TY 123 :: r1 =>
          if ident_ok n then
            match parse_members f r1 with
            | Some (inner, r2) => continue (PMMsg n inner) r2
            | None => None
            end
          else None
        | _ => None
        end
      else
        match parse_simple_member w r with
        | Some (pf, r1) => continue (PMField pf) r1
        | None => None
        end
    | _ => None
    end
  end.

Definition parse_message (fuel : nat) (ts : list token) : option (pmsg * list token) :=
  match ts with
  | TI w :: TI n :: TY 123 :: r =>
    if str_eqb w kw_message && ident_ok n then
      match parse_members fuel r with
      | Some (ms, r') => Some ((n, ms), r')
      | None => None
      end
    else None
  | _ => None
  end.

Fixpoint parse_messages (fuel : nat) (ts : list token) : option (list pmsg) :=
  match fuel with
  | O => None
  | S f =>
    match ts with
    | [] => Some []
    | _ =>
      match parse_message f ts with
      | Some (m, r) => match parse_messages f r with Some ms => Some (m :: ms) | None => None end
      | None => None
      end
    end
  end.

(* an optional `stream` before the message type of an rpc *)
Definition take_stream (r : list token) : bool * list token :=
  match r with
  | TI s :: (TI _ :: _) as r' => if str_eqb s kw_stream then (true, r') else (false, r)
  | _ => (false, r)
  end.

Fixpoint parse_rpcs (fuel : nat) (ts : list token) : option (list prpc * list token) :=
  match fuel with
  | O => None
  | S f =>
    match ts with
    | TY 125 :: r => Some ([], r)
    | TI w :: TI n :: TY 40 :: r =>
      if str_eqb w kw_rpc && ident_ok n then
        let '(cs, r1) := take_stream r in
        match r1 with
        | TI rq :: TY 41 :: TI ret :: TY 40 :: r2 =>
          if type_ok rq && str_eqb ret kw_returns then
            let '(ss, r3) := take_stream r2 in
            match r3 with
            | TI rs :: TY 41 :: TY 59 :: r4 =>
              if type_ok rs then
                match parse_rpcs f r4 with
                | Some (rest, r5) => Some ((n, cs, rq, ss, rs) :: rest, r5)
                | None => None
                end
              else None
            | _ => None
            end
          else None
        | _ => None
        end
      else None
    | _ => None
    end
  end.

Fixpoint parse_options (fuel : nat) (ts : list token) : option (list (str * str) * list str * list token) :=
  match fuel with
  | O => None
  | S f =>
    match ts with
    | TI w :: TI n :: TY 61 :: TQ v :: TY 59 :: r =>
      if str_eqb w kw_option && ident_ok n then
        match parse_options f r with
        | Some (os, is, r') => Some ((n, v) :: os, is, r')
        | None => None
        end
      else Some ([], [], ts)
    | TI w :: TQ v :: TY 59 :: r =>
      if str_eqb w kw_import then
        match parse_options f r with
        | Some (os, is, r') => Some (os, v :: is, r')
        | None => None
        end
      else Some ([], [], ts)
    | _ => Some ([], [], ts)
    end
  end.

Definition parse_file (ts : list token) : option pfile :=
  let fuel := S (List.length ts) in
  match ts with
  | TI w1 :: TY 61 :: TQ v :: TY 59 :: TI w2 :: TI pkg :: TY 59 :: r =>
    if str_eqb w1 kw_syntax && str_eqb v kw_proto3 && str_eqb w2 kw_package && ident_ok pkg then
      match parse_options fuel r with
      | Some (os, is, TI w3 :: TI svc :: TY 123 :: r1) =>
        if str_eqb w3 kw_service && ident_ok svc then
          match parse_rpcs fuel r1 with
          | Some (rs, r2) =>
            match parse_messages fuel r2 with
            | Some ms => Some (PFile pkg os is svc rs ms)
            | None => None
            end
          | None => None
          end
        else None
      | _ => None
      end
    else None
  | _ => None
  end.

(* --------------------------------------------- validity of a parsed message *)
Definition pfield_num (f : pfield) : N := match f with PF _ _ _ n => n | PMapF _ _ _ n => n end.
Definition pfield_name (f : pfield) : str := match f with PF _ _ n _ => n | PMapF _ _ n _ => n end.

(* the fields of one message scope: oneof alternatives included, nested messages not *)
Definition member_fields (m : pmember) : list pfield :=
  match m with PMField f => [f] | PMOneof _ fs => fs | PMMsg _ _ => [] end.
Definition msg_fields (ms : list pmember) : list pfield := flat_map member_fields ms.

Definition number_ok (n : N) : bool :=
  (1 <=? n) && (n <=? 536870911) && negb ((19000 <=? n) && (n <=? 19999)).

Fixpoint nodup_N (l : list N) : bool :=
  match l with [] => true | x :: r => negb (existsb (N.eqb x) r) && nodup_N r end.
Fixpoint nodup_str (l : list str) : bool :=
  match l with [] => true | x :: r => negb (mem x r) && nodup_str r end.

Definition valid_tags (ms : list pmember) : bool :=
  let fs := msg_fields ms in
  forallb (fun f => number_ok (pfield_num f)) fs && nodup_N (map pfield_num fs) && nodup_str (map pfield_name fs).

(* what the emitted definition of a message with these members amounts to: printed
   (no panic), accepted by the recogniser, numbers and names valid *)
Definition emits_valid (ms : list member) : bool :=
  match print_msg (Msg [77] ms) with
  | Some toks =>
    match parse_message (S (List.length toks)) toks with
    | Some (pm, []) => valid_tags (snd pm)
    | _ => false
    end
  | None => false
  end.



(* ------------------------------------------------- designed tags of a message *)
Definition member_attrs (m : member) : list (str * tag) :=
  match m with
  | MField n tg _ _ => [(n, tg)]
  | MOneof _ alts => map (fun a => (fst (fst a), snd (fst a))) alts
  end.
Definition msg_attrs (ms : list member) : list (str * tag) := flat_map member_attrs ms.

(* a canonical decimal numeral: digits, no leading zero (so "0" itself is excluded) *)
Definition canonical (s : str) : bool :=
  match s with
  | [] => false
  | c :: r => is_digit c && negb (c =? 48) && forallb is_digit r
  end.

Definition tag_in_range (t : tag) : bool :=
  match t with
  | Some s => canonical s && match parse_uint s with Some n => number_ok n | None => false end
  | None => false
  end.

(* the hypothesis of the partial theorem, as a decidable check: every attribute
   (alternatives included) has a canonical in-range tag, no tag string twice in the
   message, no proto field name twice *)
Definition tags_hyp (ms : list member) : bool :=
  let as_ := msg_attrs ms in
  forallb (fun a => tag_in_range (snd a)) as_
  && nodup_str (flat_map (fun a => match snd a with Some s => [s] | None => [] end) as_)
  && nodup_str (map (fun a => field_name (fst a)) as_).

(* ----------------------------------------------------- well-formed descriptions *)
(* the shapes protoBufMessageDef is given after makeProtoBufMessage: collection
   elements are primitives, aliases or messages (nested collections were wrapped),
   map keys print as key scalars *)
Fixpoint simple_name (t : ty) : option str :=
  match t with
  | TPrim p => Some (native p)
  | TAlias t' => match simple_name t' with Some n => if is_prim t' then Some n else None | None => None end
  | TMsg n => if type_ok n then Some n else None
  | _ => None
  end.

Definition wf_attr_name (n : str) : bool := ident_ok (field_name n).

Definition wf_alt (a : str * tag * ty) : bool :=
  wf_attr_name (fst (fst a)) && match simple_name (snd a) with Some _ => true | None => false end.

Definition wf_member (m : member) : bool :=
  match m with
  | MField n _ _ t =>
    wf_attr_name n &&
    match t with
    | TArr e => match simple_name e with Some _ => true | None => false end
    | TMap kt vt => match simple_name kt, simple_name vt with Some kn, Some _ => key_ok kn | _, _ => false end
    | _ => match simple_name t with Some _ => true | None => false end
    end
  | MOneof u alts => wf_attr_name u && forallb wf_alt alts && match alts with [] => false | _ => true end
  end.

Definition wf_msg (m : msg) : bool :=
  match m with Msg n ms => ident_ok n && forallb wf_member ms end.

Definition wf_rpc (r : rpc) : bool :=
  match r with (n, _, rq, rs) => ident_ok n && type_ok rq && type_ok rs end.

Definition wf_file (f : file) : bool :=
  match f with File pkg svc rs ms => ident_ok pkg && ident_ok svc && forallb wf_rpc rs && forallb wf_msg ms end.

(* ------------------------------------------- what goa validates about tags *)
(* where a message's attributes come from: the unmapped top-level payload / result, a
   top-level message next to a Metadata / Headers / Trailers / Message mapping, a
   streaming payload, or a user type. validateRPCTags is applied to all of them. *)
Inductive scope := TopPlain | TopMapped | Streaming | Nested.

(* the number of an attribute's tag if validation accepts it: an integer in the
   protobuf range *)
Definition tag_number (t : tag) : option N :=
  match t with
  | Some s => match parse_uint s with
              | Some n => if number_ok n then Some n else None
              | None => None
              end
  | None => None
  end.

(* validateRPCTags: every attribute of the message, union alternatives included, has
   a tag that parses to a valid field number; no NUMBER twice *)
Fixpoint goa_numbers_ok (seen : list N) (attrs : list (str * tag)) : bool :=
  match attrs with
  | [] => true
  | a :: r =>
    match tag_number (snd a) with
    | Some n => negb (existsb (N.eqb n) seen) && goa_numbers_ok (n :: seen) r
    | None => false
    end
  end.

(* hasAnyType: map keys print as protobuf key types *)
Definition goa_map_keys_ok (ms : list member) : bool :=
  forallb (fun m => match m with
                    | MField _ _ _ (TMap kt _) => match simple_name kt with Some n => key_ok n | None => false end
                    | _ => true
                    end) ms.

Definition goa_accepts (sc : scope) (ms : list member) : bool :=
  goa_numbers_ok [] (msg_attrs ms) && goa_map_keys_ok ms.

(* ------------------------------------------------ the parse a description denotes *)
Definition sname (t : ty) : str := match simple_name t with Some n => n | None => [] end.

Definition shape_alt (a : str * tag * ty) (num : N) : pfield := PF LNone (sname (snd a)) (field_name (fst (fst a))) num.

Fixpoint shape_alts (alts : list (str * tag * ty)) : option (list pfield) :=
  match alts with
  | [] => Some []
  | a :: r =>
    match rpc_tag (snd (fst a)), shape_alts r with
    | Some num, Some fs => Some (shape_alt a num :: fs)
    | _, _ => None
    end
  end.

Definition shape_member (m : member) : option pmember :=
  match m with
  | MField n tg req t =>
    match rpc_tag tg with
    | Some num =>
      Some (PMField (match t with
                     | TArr e => PF LRepeated (sname e) (field_name n) num
                     | TMap kt vt => PMapF (sname kt) (sname vt) (field_name n) num
                     | _ => PF (if negb req && is_prim t then LOptional else LNone) (sname t) (field_name n) num
                     end))
    | None => None
    end
  | MOneof u alts =>
    match shape_alts alts with
    | Some fs => Some (PMOneof (field_name u) fs)
    | None => None
    end
  end.

Fixpoint shape_members (ms : list member) : option (list pmember) :=
  match ms with
  | [] => Some []
  | m :: r =>
    match shape_member m, shape_members r with
    | Some a, Some b => Some (a :: b)
    | _, _ => None
    end
  end.

Definition shape_msg (m : msg) : option pmsg :=
  match m with Msg n ms => match shape_members ms with Some p => Some (n, p) | None => None end end.

Definition shape_rpc (r : rpc) : prpc :=
  match r with (n, kd, rq, rs) => (n, client_streams kd, rq, server_streams kd, rs) end.

Fixpoint shape_msgs (ms : list msg) : option (list pmsg) :=
  match ms with
  | [] => Some []
  | m :: r =>
    match shape_msg m, shape_msgs r with
    | Some a, Some b => Some (a :: b)
    | _, _ => None
    end
  end.

Definition shape_file (f : file) : option pfile :=
  match f with
  | File pkg svc rs ms =>
    match shape_msgs ms with
    | Some pms => Some (PFile pkg [(kw_go_package, 47 :: pkg ++ s_pb)] [] svc (map shape_rpc rs) pms)
    | None => None
    end
  end.

(* ------------------------------------------------- request / response split *)
(* Finalize: the message keeps the payload (result) attributes that are not mapped to
   metadata (headers, trailers), in payload order *)
Definition split_message (attrs : list str) (removed : list (list str)) : list str :=
  filter (fun a => negb (existsb (mem a) removed)) attrs.

(* with an explicit Message(...) DSL the listed attributes come first, in the listed
   order; the other unmapped attributes follow in payload order *)
Definition build_message (listed attrs : list str) (removed : list (list str)) : list str :=
  listed ++ split_message attrs (listed :: removed).

(* Finalize: a metadata (header, trailer) attribute is required exactly when the
   payload (result) requires it *)
Definition required_metadata (md required : list str) : list str := filter (fun a => mem a required) md.

(* ------------------------------------- request metadata and the handler's order *)
(* grpc/client.go Invoke: the request encoder appends to the metadata the caller's
   context already carries (or to an empty one); the result is what the server's
   decoder reads. grpc metadata.MD: key -> list of values, Append adds at the end. *)
Definition mdata := list (str * list str).

Fixpoint md_get (m : mdata) (key : str) : list str :=
  match m with
  | [] => []
  | (k', vs) :: r => if str_eqb key k' then vs else md_get r key
  end.

Fixpoint md_append (m : mdata) (key : str) (vs : list str) : mdata :=
  match m with
  | [] => [(key, vs)]
  | (k', vs') :: r => if str_eqb key k' then (k', vs' ++ vs) :: r else (k', vs') :: md_append r key vs
  end.

Definition md_write (caller : mdata) (written : list (str * list str)) : mdata :=
  fold_left (fun m kv => md_append m (fst kv) (snd kv)) written caller.

(* grpc/handler.go unaryHandler.Handle: decode, then the endpoint, then encode; a
   failing step ends the call *)
Inductive stage := SDecode | SEndpoint | SEncode.

Definition handle_trace (decode_ok endpoint_ok : bool) : list stage :=
  SDecode :: (if decode_ok then SEndpoint :: (if endpoint_ok then [SEncode] else []) else []).

(* the response metadata of one call: what the endpoint sent early, then what the
   response encoder wrote; the handler takes fresh header / trailer maps for every
   call, so a history of calls is just the calls one by one *)
Definition run_history (calls : list (mdata * list (str * list str))) : list mdata :=
  map (fun c => md_write (fst c) (snd c)) calls.

(* ------------------------------------------- the streaming kind of a method *)
(* dsl.StreamingPayload / dsl.StreamingResult update MethodExpr.Stream as they are met,
   in whatever order the Method DSL declares its parts (Payload and Result leave it) *)
Inductive decl := DPayload | DStreamingPayload | DResult | DStreamingResult.

Definition decl_step (kd : skind) (d : decl) : skind :=
  match d with
  | DStreamingPayload => match kd with ServerStream => Bidi | _ => ClientStream end
  | DStreamingResult => match kd with ClientStream => Bidi | _ => ServerStream end
  | _ => kd
  end.

Definition kind_of_decls (ds : list decl) : skind := fold_left decl_step ds Unary.

Definition designed_kind (streams_payload streams_result : bool) : skind :=
  if streams_payload then (if streams_result then Bidi else ClientStream)
  else (if streams_result then ServerStream else Unary).

Definition decl_eqb (a b : decl) : bool :=
  match a, b with
  | DPayload, DPayload | DStreamingPayload, DStreamingPayload | DResult, DResult | DStreamingResult, DStreamingResult => true
  | _, _ => false
  end.
Definition has_decl (d : decl) (ds : list decl) : bool := existsb (decl_eqb d) ds.

(* the attributes of the payload that travel as request metadata: the ones listed in
   Metadata(...), the credentials of the method's scheme, and with a streaming
   payload every attribute of the payload *)
Definition request_metadata_names (attrs explicit creds : list str) (streaming_payload : bool) : list str :=
  if streaming_payload then attrs else explicit ++ filter (fun c => negb (mem c explicit)) creds.

(* grpc/handler.go streamHandler as the generated server methods drive it: Decode (the
   request decoder runs whenever the method has one - for client and bidirectional
   streaming the message handed to it is nil and the payload comes from the metadata),
   then Handle (the endpoint) unless decoding failed *)
Definition stream_trace (has_decoder decode_ok : bool) : list stage :=
  (if has_decoder then [SDecode] else []) ++ (if negb has_decoder || decode_ok then [SEndpoint] else []).

(* ------------------------------------------- attribute names that stay identifiers *)
(* the first character of the attribute name that survives goa's CamelCase (letters and
   digits survive) is a letter: the negation of the recorded finding
   field-name-not-identifier (1abc -> 1_abc). A name without any such character becomes
   the field "val". *)
Definition letter_led (n : str) : bool :=
  match n with
  | [] => false
  | _ => match filter valid_id (strip_colon n) with
         | c :: _ => is_letter c
         | [] => true
         end
  end.

(* well-formed descriptions stated on the attribute NAMES as designed (letter-led)
   instead of on the field names goa derives from them *)
Definition wf_alt_src (a : str * tag * ty) : bool :=
  letter_led (fst (fst a)) && match simple_name (snd a) with Some _ => true | None => false end.

Definition wf_member_src (m : member) : bool :=
  match m with
  | MField n tg req t => letter_led n && wf_member (MField [97] tg req t)
  | MOneof u alts => letter_led u && forallb wf_alt_src alts && match alts with [] => false | _ => true end
  end.

Definition wf_msg_src (m : msg) : bool :=
  match m with Msg n ms => ident_ok n && forallb wf_member_src ms end.
