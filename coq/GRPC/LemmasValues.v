(* C10 — proofs about the value conversions. *)
From GRPC Require Import Model Values.
From Coq Require Import Lia.
Local Open Scope Z_scope.

Section VtyInd.
  Variable P : vty -> Prop.
  Hypothesis HP : forall p, P (VPrim p).
  Hypothesis HO : forall p, P (VOpt p).
  Hypothesis HA : forall e, P e -> P (VArr e).
  Hypothesis HM : forall k e, P k -> P e -> P (VMap k e).
  Hypothesis HS : forall fs, Forall P fs -> P (VMsg fs).
  Fixpoint vty_ind' (t : vty) : P t :=
    match t with
    | VPrim p => HP p
    | VOpt p => HO p
    | VArr e => HA e (vty_ind' e)
    | VMap k e => HM k e (vty_ind' k) (vty_ind' e)
    | VMsg fs => HS fs ((fix go (fs : list vty) : Forall P fs :=
                           match fs with
                           | [] => Forall_nil P
                           | f :: r => Forall_cons f (vty_ind' f) (go r)
                           end) fs)
    end.
End VtyInd.

Lemma wrap32_small z : -2147483648 <= z < 2147483648 -> wrap32 z = z.
Proof. intro H. unfold wrap32. rewrite Z.mod_small by lia. lia. Qed.

Lemma prim_roundtrip p v : fits_prim p v = true ->
  exists m, prim_to p v = Some m /\ prim_from m = Some v.
Proof.
  destruct v as [z|s| | | |]; cbn [fits_prim]; try discriminate; intro H.
  - exists (SInt (narrow p z)). split; [reflexivity|]. cbn [prim_from]. do 2 f_equal.
    apply andb_true_iff in H as [_ H]. destruct p; cbn [narrow]; try reflexivity.
    + apply wrap32_small. lia.
    + apply Z.mod_small. lia.
  - exists (SStr s). split; reflexivity.
Qed.

Definition rt (t : vty) : Prop :=
  forall v, fits t v = true -> exists m, to_proto t v = Some m /\ from_proto t m = Some v.

Lemma rt_elems e (He : rt e) l : forallb (fits e) l = true ->
  exists ms,
    all_some (map (fun x => if is_coll e then option_map (fun y => SObj [y]) (to_proto e x) else to_proto e x) l) = Some ms /\
    all_some (map (fun y => if is_coll e then match unwrap y with Some x => from_proto e x | None => None end else from_proto e y) ms) = Some l.
Proof.
  induction l as [|x l IH]; intro H.
  - exists []. split; reflexivity.
  - cbn [forallb] in H. apply andb_true_iff in H as [Hx Hl]. destruct (IH Hl) as (ms & E1 & E2).
    destruct (He x Hx) as (m & Et & Ef). cbn [map all_some].
    destruct (is_coll e).
    + rewrite Et. cbn [option_map]. rewrite E1. exists (SObj [m] :: ms). split; [reflexivity|].
      cbn [map all_some unwrap]. now rewrite Ef, E2.
    + rewrite Et, E1. exists (m :: ms). split; [reflexivity|]. cbn [map all_some]. now rewrite Ef, E2.
Qed.

Lemma rt_entries kt e (Hk : rt kt) (He : rt e) l :
  forallb (fun kv => fits kt (fst kv) && fits e (snd kv)) l = true ->
  exists ms,
    all_some (map (fun kv =>
        match to_proto kt (fst kv),
              (if is_coll e then option_map (fun y => SObj [y]) (to_proto e (snd kv)) else to_proto e (snd kv)) with
        | Some a, Some b => Some (a, b) | _, _ => None end) l) = Some ms /\
    all_some (map (fun kv =>
        match from_proto kt (fst kv),
              (if is_coll e then match unwrap (snd kv) with Some x => from_proto e x | None => None end else from_proto e (snd kv)) with
        | Some a, Some b => Some (a, b) | _, _ => None end) ms) = Some l.
Proof.
  induction l as [|[k v] l IH]; intro H.
  - exists []. split; reflexivity.
  - cbn [forallb fst snd] in H. apply andb_true_iff in H as [Hkv Hl]. apply andb_true_iff in Hkv as [Hkk Hvv].
    destruct (IH Hl) as (ms & E1 & E2).
    destruct (Hk k Hkk) as (mk & Ekt & Ekf). destruct (He v Hvv) as (mv & Evt & Evf).
    cbn [map all_some fst snd]. rewrite Ekt.
    destruct (is_coll e).
    + rewrite Evt. cbn [option_map]. rewrite E1. exists ((mk, SObj [mv]) :: ms). split; [reflexivity|].
      cbn [map all_some fst snd unwrap]. now rewrite Ekf, Evf, E2.
    + rewrite Evt, E1. exists ((mk, mv) :: ms). split; [reflexivity|]. cbn [map all_some fst snd]. now rewrite Ekf, Evf, E2.
Qed.

Lemma roundtrip_all t : rt t.
Proof.
  induction t as [p|p|e IHe|kt e IHk IHe|fs IHfs] using vty_ind'; intros v Hv.
  - cbn [fits] in Hv. now apply prim_roundtrip.
  - cbn [fits] in Hv. destruct v as [z|s| | | |]; try discriminate.
    + destruct (prim_roundtrip p (SInt z) Hv) as (m & E1 & E2). exists m. cbn [to_proto from_proto]. split; [exact E1|].
      destruct m; cbn [prim_from] in E2 |- *; try discriminate; exact E2.
    + destruct (prim_roundtrip p (SStr s) Hv) as (m & E1 & E2). exists m. cbn [to_proto from_proto]. split; [exact E1|].
      destruct m; cbn [prim_from] in E2 |- *; try discriminate; exact E2.
    + exists SNil. split; reflexivity.
  - cbn [fits] in Hv. destruct v as [| | |l| |]; try discriminate.
    destruct (rt_elems e IHe l Hv) as (ms & E1 & E2).
    exists (SList ms). cbn [to_proto from_proto]. rewrite E1. cbn [option_map]. split; [reflexivity|]. now rewrite E2.
  - cbn [fits] in Hv. destruct v as [| | | |l|]; try discriminate.
    destruct (rt_entries kt e IHk IHe l Hv) as (ms & E1 & E2).
    exists (SMap ms). cbn [to_proto from_proto]. rewrite E1. cbn [option_map]. split; [reflexivity|]. now rewrite E2.
  - cbn [fits] in Hv. destruct v as [| | | | |l]; try discriminate.
    + exists SNil. split; reflexivity.
    + cbn [to_proto from_proto].
      assert (exists ms,
        (fix go (fs : list vty) (l : list sval) : option (list sval) :=
           match fs, l with
           | [], [] => Some []
           | f :: fs', x :: l' => match to_proto f x, go fs' l' with Some a, Some b => Some (a :: b) | _, _ => None end
           | _, _ => None
           end) fs l = Some ms /\
        (fix go (fs : list vty) (l : list sval) : option (list sval) :=
           match fs, l with
           | [], [] => Some []
           | f :: fs', x :: l' => match from_proto f x, go fs' l' with Some a, Some b => Some (a :: b) | _, _ => None end
           | _, _ => None
           end) fs ms = Some l) as (ms & E1 & E2).
      { revert l Hv. induction IHfs as [|f fs Hf _ IH]; intros [|x l] Hv; try discriminate.
        - exists []. split; reflexivity.
        - apply andb_true_iff in Hv as [Hx Hl]. destruct (IH l Hl) as (ms & E1 & E2).
          destruct (Hf x Hx) as (m & Et & Ef). exists (m :: ms). rewrite Et, E1. split; [reflexivity|]. now rewrite Ef, E2. }
      exists (SObj ms). rewrite E1. cbn [option_map]. split; [reflexivity|]. now rewrite E2.
Qed.

Lemma message_roundtrip t v : fits t v = true ->
  exists m, to_message t v = Some m /\ from_message t m = Some v.
Proof.
  intro H. destruct (roundtrip_all t v H) as (m & E1 & E2).
  destruct t; cbn [to_message from_message]; rewrite E1; cbn [option_map unwrap]; eauto.
Qed.
