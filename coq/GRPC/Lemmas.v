(* C10 — proofs about the GRPC model. *)
From GRPC Require Import Model.
From Coq Require Import Lia ZifyBool ZifyN PeanoNat.
Local Open Scope N_scope.

Ltac inv H := inversion H; subst; clear H.

(* ---------------------------------------------------------------- strings *)
Lemma str_eqb_refl s : str_eqb s s = true.
Proof. induction s as [|c s IH]; cbn [str_eqb]; [reflexivity|]. now rewrite N.eqb_refl, IH. Qed.

Lemma str_eqb_eq a b : str_eqb a b = true <-> a = b.
Proof.
  split; [|intros ->; apply str_eqb_refl].
  revert b; induction a as [|x a IH]; intros [|y b] H; cbn [str_eqb] in H; try discriminate; [reflexivity|].
  apply andb_true_iff in H as [H1 H2]. apply N.eqb_eq in H1. f_equal; auto.
Qed.

Lemma str_eqb_neq a b : str_eqb a b = false <-> a <> b.
Proof.
  split.
  - intros H E. apply str_eqb_eq in E. congruence.
  - intro H. destruct (str_eqb a b) eqn:E; [|reflexivity]. apply str_eqb_eq in E. contradiction.
Qed.

Lemma mem_In x l : mem x l = true <-> In x l.
Proof.
  unfold mem. rewrite existsb_exists. split.
  - intros (y & Hy & E). apply str_eqb_eq in E. now subst.
  - intro H. exists x. split; [assumption|apply str_eqb_refl].
Qed.

Lemma mem_false_cons x y l : mem x (y :: l) = false -> str_eqb x y = false /\ mem x l = false.
Proof. unfold mem. cbn [existsb]. intro H. now apply orb_false_iff in H. Qed.

Lemma nodup_str_NoDup l : nodup_str l = true <-> NoDup l.
Proof.
  induction l as [|x l IH]; cbn [nodup_str].
  - split; [constructor|reflexivity].
  - rewrite andb_true_iff, negb_true_iff, IH. split.
    + intros [H1 H2]. constructor; [|assumption]. intro Hin. apply mem_In in Hin. congruence.
    + intro H. inv H. split; [|assumption]. destruct (mem x l) eqn:E; [|reflexivity]. apply mem_In in E. contradiction.
Qed.

Lemma nodup_N_NoDup l : nodup_N l = true <-> NoDup l.
Proof.
  induction l as [|x l IH]; cbn [nodup_N].
  - split; [constructor|reflexivity].
  - rewrite andb_true_iff, negb_true_iff, IH. split.
    + intros [H1 H2]. constructor; [|assumption]. intro Hin.
      assert (existsb (N.eqb x) l = true) as E by (apply existsb_exists; exists x; split; [assumption|apply N.eqb_refl]). congruence.
    + intro H. inv H. split; [|assumption]. destruct (existsb (N.eqb x) l) eqn:E; [|reflexivity].
      apply existsb_exists in E as (y & Hy & E). apply N.eqb_eq in E. subst. contradiction.
Qed.

Lemma NoDup_map_inj_on {A B} (f : A -> B) l :
  (forall x y, In x l -> In y l -> f x = f y -> x = y) -> NoDup l -> NoDup (map f l).
Proof.
  intros Hinj Hnd. induction Hnd as [|x l Hx Hnd IH]; cbn [map]; constructor.
  - intro Hin. apply in_map_iff in Hin as (y & Hy & Hin). apply Hx.
    rewrite (Hinj x y); [assumption|now left|now right|now symmetry].
  - apply IH. intros a b Ha Hb. apply Hinj; now right.
Qed.

(* --------------------------------------------------------- decimal numerals *)
Definition dstep (a : N) (c : N) : N := 10 * a + (c - 48).

Lemma parse_digits_spec s : forall acc v, parse_digits acc s = Some v ->
  forallb is_digit s = true /\ v = fold_left dstep s acc.
Proof.
  induction s as [|c s IH]; intros acc v H; cbn [parse_digits] in H.
  - inv H. split; reflexivity.
  - unfold digit_val in H. destruct (is_digit c) eqn:Ed; [|discriminate].
    apply IH in H as [H1 H2]. cbn [forallb fold_left]. rewrite Ed, H1. split; [reflexivity|exact H2].
Qed.

Lemma parse_digits_complete s : forall acc, forallb is_digit s = true -> parse_digits acc s = Some (fold_left dstep s acc).
Proof.
  induction s as [|c s IH]; intros acc H; cbn [parse_digits fold_left]; [reflexivity|].
  cbn [forallb] in H. apply andb_true_iff in H as [Hc Hs]. unfold digit_val. rewrite Hc. now apply IH.
Qed.

Lemma is_digit_range c : is_digit c = true -> 48 <= c <= 57.
Proof. unfold is_digit. lia. Qed.

(* value bounds: acc * 10^len <= fold <  (acc + 1) * 10^len *)
Lemma fold_bounds s : forall acc, forallb is_digit s = true ->
  acc * 10 ^ N.of_nat (length s) <= fold_left dstep s acc < (acc + 1) * 10 ^ N.of_nat (length s).
Proof.
  induction s as [|c s IH]; intros acc H.
  - cbn [fold_left length]. change (N.of_nat 0) with 0. rewrite N.pow_0_r. lia.
  - cbn [forallb] in H. apply andb_true_iff in H as [Hc Hs]. apply is_digit_range in Hc.
    cbn [fold_left length]. specialize (IH (dstep acc c) Hs).
    rewrite Nat2N.inj_succ, N.pow_succ_r'. unfold dstep in *.
    remember (10 ^ N.of_nat (length s)) as P. nia.
Qed.

Lemma fold_snoc s c acc : fold_left dstep (s ++ [c]) acc = dstep (fold_left dstep s acc) c.
Proof. now rewrite fold_left_app. Qed.

(* same length: equal values force equal accumulators and equal digit strings *)
Lemma fold_inj_same_len s1 : forall s2 a1 a2, length s1 = length s2 ->
  forallb is_digit s1 = true -> forallb is_digit s2 = true ->
  fold_left dstep s1 a1 = fold_left dstep s2 a2 -> a1 = a2 /\ s1 = s2.
Proof.
  induction s1 as [|c s1 IH] using rev_ind; intros s2 a1 a2 Hlen H1 H2 E.
  - destruct s2; [|discriminate]. cbn in E. now split.
  - destruct s2 as [|d s2 _] using rev_ind.
    + rewrite app_length in Hlen. cbn in Hlen. lia.
    + rewrite !app_length in Hlen. cbn [length] in Hlen.
      rewrite forallb_app in H1, H2. cbn [forallb] in H1, H2.
      apply andb_true_iff in H1 as [H1 Hc], H2 as [H2 Hd]. rewrite andb_true_r in Hc, Hd.
      apply is_digit_range in Hc, Hd. rewrite !fold_snoc in E. unfold dstep at 1 3 in E.
      assert (fold_left dstep s1 a1 = fold_left dstep s2 a2 /\ c = d) as [E' ->] by lia.
      destruct (IH s2 a1 a2) as [-> ->]; try assumption; [lia|]. now split.
Qed.

Lemma canonical_spec s : canonical s = true ->
  exists c r, s = c :: r /\ 49 <= c <= 57 /\ forallb is_digit r = true.
Proof.
  destruct s as [|c r]; [discriminate|]. cbn [canonical]. intro H.
  apply andb_true_iff in H as [H Hr]. apply andb_true_iff in H as [Hc H0].
  apply is_digit_range in Hc. exists c, r. repeat split; try assumption; lia.
Qed.

Lemma canonical_digits s : canonical s = true -> forallb is_digit s = true.
Proof.
  intro H. apply canonical_spec in H as (c & r & -> & Hc & Hr). cbn [forallb]. rewrite Hr.
  unfold is_digit. lia.
Qed.

(* a canonical numeral of length L denotes a value in [10^(L-1), 10^L) *)
Lemma canonical_range s : canonical s = true ->
  10 ^ N.of_nat (pred (length s)) <= fold_left dstep s 0 < 10 ^ N.of_nat (length s).
Proof.
  intro H. apply canonical_spec in H as (c & r & -> & Hc & Hr). cbn [fold_left length pred].
  pose proof (fold_bounds r (dstep 0 c) Hr) as B. unfold dstep in *.
  rewrite Nat2N.inj_succ, N.pow_succ_r'. remember (10 ^ N.of_nat (length r)) as P. nia.
Qed.

Lemma canonical_value_inj s1 s2 : canonical s1 = true -> canonical s2 = true ->
  fold_left dstep s1 0 = fold_left dstep s2 0 -> s1 = s2.
Proof.
  intros C1 C2 E.
  assert (length s1 = length s2) as Hlen.
  { pose proof (canonical_range _ C1) as R1. pose proof (canonical_range _ C2) as R2. rewrite E in R1.
    destruct (Nat.lt_trichotomy (length s1) (length s2)) as [L|[L|L]]; [exfalso| assumption |exfalso].
    - assert (10 ^ N.of_nat (length s1) <= 10 ^ N.of_nat (pred (length s2))) by (apply N.pow_le_mono_r; lia). lia.
    - assert (10 ^ N.of_nat (length s2) <= 10 ^ N.of_nat (pred (length s1))) by (apply N.pow_le_mono_r; lia). lia. }
  apply (fold_inj_same_len s1 s2 0 0 Hlen (canonical_digits _ C1) (canonical_digits _ C2) E).
Qed.

Lemma parse_uint_value s v : parse_uint s = Some v -> forallb is_digit s = true /\ v = fold_left dstep s 0.
Proof.
  unfold parse_uint. destruct s as [|c r]; [discriminate|].
  destruct (parse_digits 0 (c :: r)) as [w|] eqn:E; [|discriminate].
  destruct (w <? 18446744073709551616); [|discriminate]. intro H. inv H. now apply parse_digits_spec.
Qed.

(* goa compares tag strings; on canonical numerals that is comparing numbers *)
Lemma canonical_parse_inj s1 s2 v : canonical s1 = true -> canonical s2 = true ->
  parse_uint s1 = Some v -> parse_uint s2 = Some v -> s1 = s2.
Proof.
  intros C1 C2 P1 P2. apply parse_uint_value in P1 as [_ ->], P2 as [_ E]. now apply canonical_value_inj.
Qed.

(* ------------------------------------------------------ printer / recogniser *)
Lemma native_type_ok p : type_ok (native p) = true.
Proof. destruct p; vm_compute; reflexivity. Qed.

Lemma simple_spec t : forall n, simple_name t = Some n -> type_tokens t = [TI n] /\ type_ok n = true.
Proof.
  induction t as [p|t IH|m|e _|kt _ vt _]; intros n H; cbn [simple_name type_tokens] in *; try discriminate.
  - inv H. split; [reflexivity|apply native_type_ok].
  - destruct (simple_name t) as [n'|]; [|discriminate]. destruct (is_prim t); [|discriminate]. inv H. now apply IH.
  - destruct (type_ok m) eqn:E; [|discriminate]. inv H. now split.
Qed.

Lemma type_ok_not_kw n : type_ok n = true ->
  str_eqb n kw_oneof = false /\ str_eqb n kw_message = false /\ str_eqb n kw_map = false /\
  str_eqb n kw_optional = false /\ str_eqb n kw_repeated = false /\ str_eqb n kw_stream = false.
Proof.
  unfold type_ok. intro H. apply andb_true_iff in H as [_ H]. apply negb_true_iff in H.
  unfold member_keywords in H.
  repeat (apply mem_false_cons in H as [? H]).
  repeat split; assumption.
Qed.

Lemma type_ok_ident n : type_ok n = true -> ident_ok n = true.
Proof. unfold type_ok. intro H. now apply andb_true_iff in H as [H _]. Qed.

(* a plain (unlabelled) field *)
Lemma parse_plain n name num rest : type_ok n = true -> ident_ok name = true ->
  parse_simple_member n (TI name :: TY 61 :: TD num :: TY 59 :: rest) = Some (PF LNone n name num, rest).
Proof.
  intros Hn Hname. destruct (type_ok_not_kw n Hn) as (_ & _ & Hm & Ho & Hr & _).
  unfold parse_simple_member. rewrite Hm, Ho, Hr. cbn [orb]. rewrite Hn, Hname. reflexivity.
Qed.

Lemma parse_optional n name num rest : type_ok n = true -> ident_ok name = true ->
  parse_simple_member kw_optional (TI n :: TI name :: TY 61 :: TD num :: TY 59 :: rest) = Some (PF LOptional n name num, rest).
Proof.
  intros Hn Hname. unfold parse_simple_member.
  change (str_eqb kw_optional kw_map) with false. change (str_eqb kw_optional kw_optional) with true.
  cbn [orb]. rewrite Hn, Hname. reflexivity.
Qed.

Lemma parse_repeated n name num rest : type_ok n = true -> ident_ok name = true ->
  parse_simple_member kw_repeated (TI n :: TI name :: TY 61 :: TD num :: TY 59 :: rest) = Some (PF LRepeated n name num, rest).
Proof.
  intros Hn Hname. unfold parse_simple_member.
  change (str_eqb kw_repeated kw_map) with false. change (str_eqb kw_repeated kw_optional) with false.
  change (str_eqb kw_repeated kw_repeated) with true.
  cbn [orb]. rewrite Hn, Hname. reflexivity.
Qed.

Lemma parse_mapfield kn vn name num rest : key_ok kn = true -> type_ok vn = true -> ident_ok name = true ->
  parse_simple_member kw_map (TY 60 :: TI kn :: TY 44 :: TI vn :: TY 62 :: TI name :: TY 61 :: TD num :: TY 59 :: rest)
  = Some (PMapF kn vn name num, rest).
Proof.
  intros Hk Hv Hname. unfold parse_simple_member. change (str_eqb kw_map kw_map) with true.
  cbn iota. rewrite Hk, Hv, Hname. reflexivity.
Qed.

Lemma sname_of t n : simple_name t = Some n -> sname t = n.
Proof. unfold sname. now intros ->. Qed.

(* one printed field: its first token is an identifier w that is neither `oneof` nor
   `message`, and the simple-member parser reads the field back as its shape *)
Lemma field_parse n tg req t num : rpc_tag tg = Some num -> wf_member (MField n tg req t) = true ->
  exists w r pf,
    field_tokens (negb req && is_prim t) t n num = TI w :: r /\
    shape_member (MField n tg req t) = Some (PMField pf) /\
    str_eqb w kw_oneof = false /\ str_eqb w kw_message = false /\
    forall rest, parse_simple_member w (r ++ rest) = Some (pf, rest).
Proof.
  intros Htag Hwf. cbn [wf_member] in Hwf. apply andb_true_iff in Hwf as [Hname Ht]. unfold wf_attr_name in Hname.
  cbn [shape_member]. rewrite Htag. unfold field_tokens.
  destruct t as [p|t'|m|e|kt vt].
  - (* primitive *)
    destruct (simple_name (TPrim p)) as [tn|] eqn:Es; [|discriminate].
    destruct (simple_spec _ _ Es) as [Etok Hok]. rewrite Etok, (sname_of _ _ Es).
    destruct (negb req && is_prim (TPrim p)).
    + exists kw_optional. eexists. eexists. split; [reflexivity|]. split; [reflexivity|].
      split; [reflexivity|]. split; [reflexivity|]. intro rest. cbn [app]. now apply parse_optional.
    + destruct (type_ok_not_kw _ Hok) as (Ho & Hm & _). exists tn. eexists. eexists. split; [reflexivity|]. split; [reflexivity|].
      split; [assumption|]. split; [assumption|]. intro rest. cbn [app]. now apply parse_plain.
  - (* alias *)
    destruct (simple_name (TAlias t')) as [tn|] eqn:Es; [|discriminate].
    destruct (simple_spec _ _ Es) as [Etok Hok]. rewrite Etok, (sname_of _ _ Es).
    destruct (negb req && is_prim (TAlias t')).
    + exists kw_optional. eexists. eexists. split; [reflexivity|]. split; [reflexivity|].
      split; [reflexivity|]. split; [reflexivity|]. intro rest. cbn [app]. now apply parse_optional.
    + destruct (type_ok_not_kw _ Hok) as (Ho & Hm & _). exists tn. eexists. eexists. split; [reflexivity|]. split; [reflexivity|].
      split; [assumption|]. split; [assumption|]. intro rest. cbn [app]. now apply parse_plain.
  - (* message *)
    destruct (simple_name (TMsg m)) as [tn|] eqn:Es; [|discriminate].
    destruct (simple_spec _ _ Es) as [Etok Hok]. rewrite Etok, (sname_of _ _ Es).
    cbn [is_prim]. rewrite andb_false_r.
    destruct (type_ok_not_kw _ Hok) as (Ho & Hm & _). exists tn. eexists. eexists. split; [reflexivity|]. split; [reflexivity|].
    split; [assumption|]. split; [assumption|]. intro rest. cbn [app]. now apply parse_plain.
  - (* array *)
    destruct (simple_name e) as [en|] eqn:Es; [|discriminate].
    destruct (simple_spec _ _ Es) as [Etok Hok]. cbn [is_prim type_tokens]. rewrite andb_false_r, Etok, (sname_of _ _ Es).
    exists kw_repeated. eexists. eexists. split; [reflexivity|]. split; [reflexivity|].
    split; [reflexivity|]. split; [reflexivity|]. intro rest. cbn [app]. now apply parse_repeated.
  - (* map *)
    destruct (simple_name kt) as [kn|] eqn:Ek; [|discriminate]. destruct (simple_name vt) as [vn|] eqn:Ev; [|discriminate].
    destruct (simple_spec _ _ Ek) as [Ektok _]. destruct (simple_spec _ _ Ev) as [Evtok Hvok].
    cbn [is_prim type_tokens]. rewrite andb_false_r, Ektok, Evtok, (sname_of _ _ Ek), (sname_of _ _ Ev).
    exists kw_map. eexists. eexists. split; [reflexivity|]. split; [reflexivity|].
    split; [reflexivity|]. split; [reflexivity|]. intro rest. cbn [app]. now apply parse_mapfield.
Qed.

Lemma alts_parse alts : forall toks, alts_tokens alts = Some toks -> forallb wf_alt alts = true ->
  exists fs, shape_alts alts = Some fs /\ length fs = length alts /\
    forall rest fuel, (fuel > length toks)%nat -> parse_alts fuel (toks ++ TY 125 :: rest) = Some (fs, rest).
Proof.
  induction alts as [|[[n tg] t] alts IH]; intros toks Hp Hwf.
  - cbn in Hp. inv Hp. exists []. split; [reflexivity|]. split; [reflexivity|]. intros rest [|f] Hf; [lia|]. reflexivity.
  - cbn [alts_tokens] in Hp. destruct (rpc_tag tg) as [num|] eqn:Etag; [|discriminate].
    destruct (alts_tokens alts) as [toks'|] eqn:Er; [|discriminate]. inv Hp.
    cbn [forallb] in Hwf. apply andb_true_iff in Hwf as [Ha Hwf]. unfold wf_alt in Ha. cbn [fst snd] in Ha.
    apply andb_true_iff in Ha as [Hname Ht]. unfold wf_attr_name in Hname.
    destruct (simple_name t) as [tn|] eqn:Es; [|discriminate]. destruct (simple_spec _ _ Es) as [Etok Hok].
    destruct (IH toks' eq_refl Hwf) as (fs & Hs & Hlen & Hparse).
    exists (shape_alt (n, tg, t) num :: fs). split.
    { cbn [shape_alts fst snd]. now rewrite Etag, Hs. }
    split; [cbn [length]; now rewrite Hlen|].
    intros rest fuel Hf. unfold field_tokens in *. rewrite Etok in *. cbn [app length] in *.
    destruct fuel as [|f]; [lia|]. cbn [parse_alts]. rewrite Hok, Hname. cbn [andb].
    rewrite (Hparse rest f) by lia. unfold shape_alt. cbn [fst snd]. now rewrite (sname_of _ _ Es).
Qed.

Lemma members_parse ms : forall toks, members_tokens ms = Some toks -> forallb wf_member ms = true ->
  exists pms, shape_members ms = Some pms /\
    forall rest fuel, (fuel > length toks)%nat -> parse_members fuel (toks ++ TY 125 :: rest) = Some (pms, rest).
Proof.
  induction ms as [|m ms IH]; intros toks Hp Hwf.
  - cbn in Hp. inv Hp. exists []. split; [reflexivity|]. intros rest [|f] Hf; [lia|]. reflexivity.
  - cbn [members_tokens] in Hp. destruct (member_tokens m) as [mt|] eqn:Em; [|discriminate].
    destruct (members_tokens ms) as [toks'|] eqn:Er; [|discriminate]. inv Hp.
    cbn [forallb] in Hwf. apply andb_true_iff in Hwf as [Hm Hwf].
    destruct (IH toks' eq_refl Hwf) as (pms & Hs & Hparse).
    destruct m as [n tg req t|u alts].
    + (* field *)
      cbn [member_tokens] in Em. destruct (rpc_tag tg) as [num|] eqn:Etag; [|discriminate]. inv Em.
      destruct (field_parse n tg req t num Etag Hm) as (w & r & pf & Etok & Hshape & Ho & Hmsg & Hsimple).
      exists (PMField pf :: pms). split.
      { cbn [shape_members]. now rewrite Hshape, Hs. }
      intros rest fuel Hf. rewrite Etok in *. cbn [app length] in *.
      destruct fuel as [|f]; [lia|]. cbn [parse_members]. rewrite Ho, Hmsg.
      rewrite <- app_assoc, Hsimple. rewrite (Hparse rest f); [reflexivity|]. rewrite app_length in Hf. lia.
    + (* oneof *)
      cbn [member_tokens] in Em. destruct (alts_tokens alts) as [at_|] eqn:Ea; [|discriminate]. inv Em.
      cbn [wf_member] in Hm. apply andb_true_iff in Hm as [Hm Hne]. apply andb_true_iff in Hm as [Hu Halts].
      unfold wf_attr_name in Hu.
      destruct (alts_parse alts at_ Ea Halts) as (fs & Hsa & Hlen & Hpa).
      exists (PMOneof (field_name u) fs :: pms). split.
      { cbn [shape_members shape_member]. now rewrite Hsa, Hs. }
      intros rest fuel Hf. cbn [app length] in *. destruct fuel as [|f]; [lia|]. cbn [parse_members].
      change (str_eqb kw_oneof kw_oneof) with true. cbn iota. rewrite Hu.
      rewrite <- !app_assoc. cbn [app]. rewrite !app_length in Hf. cbn [length] in Hf.
      rewrite (Hpa (toks' ++ TY 125 :: rest) f) by lia.
      destruct fs as [|f0 fs]; [destruct alts; [discriminate|cbn in Hlen; lia]|].
      rewrite (Hparse rest f) by lia. reflexivity.
Qed.

(* msgdef_parses *)
Lemma message_parse m toks : print_msg m = Some toks -> wf_msg m = true ->
  exists pm, shape_msg m = Some pm /\
    forall rest fuel, (fuel > length toks)%nat -> parse_message fuel (toks ++ rest) = Some (pm, rest).
Proof.
  destruct m as [n ms]. cbn [print_msg wf_msg shape_msg]. intros Hp Hwf.
  destruct (members_tokens ms) as [mt|] eqn:Em; [|discriminate]. inv Hp.
  apply andb_true_iff in Hwf as [Hn Hwf].
  destruct (members_parse ms mt Em Hwf) as (pms & Hs & Hparse). rewrite Hs.
  exists (n, pms). split; [reflexivity|]. intros rest fuel Hf. cbn [app length] in *. rewrite app_length in Hf. cbn [length] in Hf.
  unfold parse_message. change (str_eqb kw_message kw_message) with true. rewrite Hn. cbn [andb].
  rewrite <- app_assoc. cbn [app]. rewrite (Hparse rest fuel) by lia. reflexivity.
Qed.

(* ------------------------------------------------ numbers and names are designed *)
Definition numbered (f : pfield) : str * option N := (pfield_name f, Some (pfield_num f)).
Definition designed (a : str * tag) : str * option N := (field_name (fst a), rpc_tag (snd a)).

Lemma shape_alts_designed alts : forall fs, shape_alts alts = Some fs ->
  map numbered fs = map designed (map (fun a => (fst (fst a), snd (fst a))) alts).
Proof.
  induction alts as [|[[n tg] t] alts IH]; intros fs H; cbn [shape_alts fst snd] in H.
  - inv H. reflexivity.
  - destruct (rpc_tag tg) as [num|] eqn:Etag; [|discriminate]. destruct (shape_alts alts) as [fs'|]; [|discriminate]. inv H.
    cbn [map fst snd]. rewrite (IH fs' eq_refl). f_equal. unfold numbered, designed, shape_alt. cbn [fst snd pfield_name pfield_num].
    now rewrite Etag.
Qed.

Lemma shape_member_designed m pm : shape_member m = Some pm ->
  map numbered (member_fields pm) = map designed (member_attrs m).
Proof.
  destruct m as [n tg req t|u alts]; cbn [shape_member member_attrs]; intro H.
  - destruct (rpc_tag tg) as [num|] eqn:Etag; [|discriminate]. inv H. cbn [member_fields map].
    unfold numbered, designed. cbn [fst snd]. rewrite Etag. destruct t; reflexivity.
  - destruct (shape_alts alts) as [fs|] eqn:E; [|discriminate]. inv H. cbn [member_fields]. now apply shape_alts_designed.
Qed.

Lemma shape_members_designed ms : forall pms, shape_members ms = Some pms ->
  map numbered (msg_fields pms) = map designed (msg_attrs ms).
Proof.
  induction ms as [|m ms IH]; intros pms H; cbn [shape_members] in H.
  - inv H. reflexivity.
  - destruct (shape_member m) as [pm|] eqn:Em; [|discriminate]. destruct (shape_members ms) as [pms'|]; [|discriminate]. inv H.
    unfold msg_fields, msg_attrs. cbn [flat_map]. rewrite !map_app. f_equal; [now apply shape_member_designed|now apply IH].
Qed.

(* ------------------------------------------------------- tags_unique_partial *)
Lemma tag_in_range_spec t : tag_in_range t = true ->
  exists s n, t = Some s /\ canonical s = true /\ parse_uint s = Some n /\ number_ok n = true.
Proof.
  destruct t as [s|]; [|discriminate]. cbn [tag_in_range]. intro H. apply andb_true_iff in H as [Hc H].
  destruct (parse_uint s) as [n|] eqn:E; [|discriminate]. exists s, n. now repeat split.
Qed.

Lemma valid_from_designed (pms : list pmember) (attrs : list (str * tag)) :
  map numbered (msg_fields pms) = map designed attrs ->
  forallb (fun a => tag_in_range (snd a)) attrs = true ->
  NoDup (flat_map (fun a => match snd a with Some s => [s] | None => [] end) attrs) ->
  NoDup (map (fun a => field_name (fst a)) attrs) ->
  valid_tags pms = true.
Proof.
  intros Hmap Hrange Htags Hnames. unfold valid_tags.
  remember (msg_fields pms) as fs eqn:Efs. clear Efs pms.
  assert (map pfield_name fs = map (fun a => field_name (fst a)) attrs) as Enames.
  { apply (f_equal (map fst)) in Hmap. rewrite !map_map in Hmap. exact Hmap. }
  assert (map (fun f => Some (pfield_num f)) fs = map (fun a => rpc_tag (snd a)) attrs) as Enums.
  { apply (f_equal (map snd)) in Hmap. rewrite !map_map in Hmap. exact Hmap. }
  apply andb_true_iff. split; [apply andb_true_iff; split|].
  - (* every number in range *)
    clear Hmap Enames Htags Hnames. revert attrs Hrange Enums.
    induction fs as [|f fs IH]; intros [|a attrs] Hr E; cbn [map] in E; try discriminate; [reflexivity|].
    cbn [forallb] in *. apply andb_true_iff in Hr as [Ha Hr]. inv E.
    apply tag_in_range_spec in Ha as (s & n & Es & _ & Ep & Hok). rewrite Es in H0. cbn [rpc_tag] in H0. rewrite Ep in H0. inv H0.
    rewrite Hok. cbn [andb]. now apply (IH attrs).
  - (* no number twice: tag strings are distinct and canonical numerals are injective *)
    apply nodup_N_NoDup.
    assert (exists ss : list str, map (fun a => snd a) attrs = map Some ss /\ Forall (fun s => canonical s = true) ss /\
            map (fun s => parse_uint s) ss = map Some (map pfield_num fs)) as (ss & Ess & Hcan & Epar).
    { clear Hmap Enames Htags Hnames. revert attrs Hrange Enums.
      induction fs as [|f fs IH]; intros [|a attrs] Hr E; cbn [map] in E; try discriminate.
      - exists []. repeat split; constructor.
      - cbn [forallb] in Hr. apply andb_true_iff in Hr as [Ha Hr]. inv E.
        destruct (IH attrs Hr H1) as (ss & E1 & E2 & E3).
        apply tag_in_range_spec in Ha as (s & n & Es & Hc & Ep & _). rewrite Es in H0. cbn [rpc_tag] in H0. rewrite Ep in H0. inv H0.
        exists (s :: ss). split; [|split].
        + cbn [map]. f_equal; [exact Es|exact E1].
        + now constructor.
        + cbn [map]. f_equal; [exact Ep|exact E3]. }
    assert (flat_map (fun a => match snd a with Some s => [s] | None => [] end) attrs = ss) as Eflat.
    { clear - Ess. revert ss Ess. induction attrs as [|[n [t|]] attrs IH]; intros [|s ss] E; cbn [map snd] in E; try discriminate; [reflexivity|].
      inv E. cbn [flat_map snd app]. f_equal. now apply IH. }
    rewrite Eflat in Htags.
    assert (forall x y, In x ss -> In y ss -> parse_uint x = parse_uint y -> x = y) as Hinj.
    { intros x y Hx Hy E. rewrite Forall_forall in Hcan.
      assert (exists v, parse_uint x = Some v) as [v Ev].
      { apply (in_map (fun s => parse_uint s)) in Hx. rewrite Epar in Hx. apply in_map_iff in Hx as (v & <- & _). now exists v. }
      apply (canonical_parse_inj x y v); auto. congruence. }
    pose proof (NoDup_map_inj_on (fun s => parse_uint s) ss Hinj Htags) as Hnd. rewrite Epar in Hnd.
    clear - Hnd. remember (map pfield_num fs) as l. clear Heql. induction l as [|x l IH]; [constructor|].
    cbn [map] in Hnd. inv Hnd. constructor; [|now apply IH]. intro Hin. apply H1. now apply in_map.
  - (* no name twice *)
    apply nodup_str_NoDup. now rewrite Enames.
Qed.

Lemma tags_hyp_spec ms : tags_hyp ms = true ->
  forallb (fun a => tag_in_range (snd a)) (msg_attrs ms) = true /\
  NoDup (flat_map (fun a => match snd a with Some s => [s] | None => [] end) (msg_attrs ms)) /\
  NoDup (map (fun a => field_name (fst a)) (msg_attrs ms)).
Proof.
  unfold tags_hyp. intro H. apply andb_true_iff in H as [H H3]. apply andb_true_iff in H as [H1 H2].
  apply nodup_str_NoDup in H2, H3. now repeat split.
Qed.

(* ------------------------------------------------------------ service block *)
Lemma take_stream_yes x r : take_stream (TI kw_stream :: TI x :: r) = (true, TI x :: r).
Proof. unfold take_stream. change (str_eqb kw_stream kw_stream) with true. reflexivity. Qed.

Lemma take_stream_no x c r : take_stream (TI x :: TY c :: r) = (false, TI x :: TY c :: r).
Proof. reflexivity. Qed.

Lemma rpcs_parse rs : forallb wf_rpc rs = true -> forall rest fuel, (fuel > length rs)%nat ->
  parse_rpcs fuel (flat_map rpc_tokens rs ++ TY 125 :: rest) = Some (map shape_rpc rs, rest).
Proof.
  induction rs as [|[[[n kd] rq] rs_] rs IH]; intros Hwf rest fuel Hf.
  - destruct fuel; [cbn in Hf; lia|]. reflexivity.
  - cbn [forallb] in Hwf. apply andb_true_iff in Hwf as [Hr Hwf]. cbn [wf_rpc] in Hr.
    apply andb_true_iff in Hr as [Hr Hrs]. apply andb_true_iff in Hr as [Hn Hrq].
    cbn [length] in Hf. destruct fuel as [|f]; [lia|].
    cbn [flat_map map shape_rpc]. rewrite <- app_assoc. specialize (IH Hwf rest f ltac:(lia)).
    remember (flat_map rpc_tokens rs ++ TY 125 :: rest) as tail eqn:Etail.
    unfold rpc_tokens.
    destruct kd; cbn [client_streams server_streams app]; cbn [parse_rpcs];
      change (str_eqb kw_rpc kw_rpc) with true; rewrite Hn; cbn [andb];
      rewrite ?take_stream_yes, ?take_stream_no; cbn iota; rewrite Hrq; change (str_eqb kw_returns kw_returns) with true; cbn [andb];
      rewrite ?take_stream_yes, ?take_stream_no; cbn iota; rewrite Hrs, IH; reflexivity.
Qed.

(* ------------------------------------------------------------- whole file *)
Lemma msgs_parse ms : forall toks, msgs_tokens ms = Some toks -> forallb wf_msg ms = true ->
  exists pms, shape_msgs ms = Some pms /\
    forall fuel, (fuel > S (length toks))%nat -> parse_messages fuel toks = Some pms.
Proof.
  induction ms as [|m ms IH]; intros toks Hp Hwf.
  - cbn in Hp. inv Hp. exists []. split; [reflexivity|]. intros [|f] Hf; [lia|]. reflexivity.
  - cbn [msgs_tokens] in Hp. destruct (print_msg m) as [mt|] eqn:Em; [|discriminate].
    destruct (msgs_tokens ms) as [toks'|] eqn:Er; [|discriminate]. inv Hp.
    cbn [forallb] in Hwf. apply andb_true_iff in Hwf as [Hm Hwf].
    destruct (IH toks' eq_refl Hwf) as (pms & Hs & Hparse).
    destruct (message_parse m mt Em Hm) as (pm & Hsm & Hpm).
    exists (pm :: pms). split; [cbn [shape_msgs]; now rewrite Hsm, Hs|].
    intros fuel Hf. rewrite app_length in Hf. destruct fuel as [|f]; [lia|]. cbn [parse_messages].
    destruct mt as [|t0 tl].
    { destruct m as [n0 ms0]. cbn [print_msg] in Em. destruct (members_tokens ms0); discriminate. }
    cbn [app]. change (t0 :: tl ++ toks') with ((t0 :: tl) ++ toks').
    cbn [length] in Hf. rewrite (Hpm toks' f) by (cbn [length]; lia). rewrite (Hparse f) by lia. reflexivity.
Qed.

Definition parse_file_fuel (fuel : nat) (ts : list token) : option pfile :=
  match ts with
  | TI w1 :: TY 61 :: TQ v :: TY 59 :: TI w2 :: TI pkg :: TY 59 :: r =>
    if str_eqb w1 kw_syntax && str_eqb v kw_proto3 && str_eqb w2 kw_package && ident_ok pkg then
      match parse_options fuel r with
      | Some (os, is, TI w3 :: TI svc :: TY 123 :: r1) =>
        if str_eqb w3 kw_service && ident_ok svc then
          match parse_rpcs fuel r1 with
          | Some (rs, r2) =>
            match parse_messages fuel r2 with
            | Some ms => Some (PFile pkg os is svc rs ms)
            | None => None
            end
          | None => None
          end
        else None
      | _ => None
      end
    else None
  | _ => None
  end.

Lemma parse_file_unfold ts : parse_file ts = parse_file_fuel (S (length ts)) ts.
Proof. reflexivity. Qed.

Lemma rpc_tokens_length rs : (length (flat_map rpc_tokens rs) >= length rs)%nat.
Proof.
  induction rs as [|r rs IH]; [cbn; lia|]. cbn [flat_map]. rewrite app_length. cbn [length].
  remember (length (flat_map rpc_tokens rs)) as L.
  destruct r as [[[? k0] ?] ?]. unfold rpc_tokens. destruct k0; cbn [length app client_streams server_streams]; lia.
Qed.

Lemma file_parse_fuel pkg svc rs mt pms fuel :
  ident_ok pkg = true -> ident_ok svc = true -> forallb wf_rpc rs = true ->
  (forall fuel, (fuel > S (length mt))%nat -> parse_messages fuel mt = Some pms) ->
  (fuel > 2 + length rs + length mt)%nat ->
  parse_file_fuel fuel (header_tokens pkg ++ service_tokens svc rs ++ mt)
  = Some (PFile pkg [(kw_go_package, 47 :: pkg ++ s_pb)] [] svc (map shape_rpc rs) pms).
Proof.
  intros Hpkg Hsvc Hrs Hparse Hf.
  unfold parse_file_fuel, header_tokens, service_tokens. cbn [app].
  change (str_eqb kw_syntax kw_syntax) with true. change (str_eqb kw_proto3 kw_proto3) with true.
  change (str_eqb kw_package kw_package) with true. rewrite Hpkg. cbn [andb].
  destruct fuel as [|[|f]]; [lia|lia|]. cbn [parse_options].
  change (str_eqb kw_option kw_option) with true. change (ident_ok kw_go_package) with true. cbn [andb].
  change (str_eqb kw_service kw_service) with true. rewrite Hsvc. cbn [andb].
  rewrite <- app_assoc. cbn [app].
  rewrite (rpcs_parse rs Hrs mt (S (S f))) by lia.
  rewrite (Hparse (S (S f))) by lia. reflexivity.
Qed.

Lemma file_parse f toks : print_file f = Some toks -> wf_file f = true ->
  exists pf, shape_file f = Some pf /\ parse_file toks = Some pf.
Proof.
  destruct f as [pkg svc rs ms]. cbn [print_file wf_file shape_file]. intros Hp Hwf.
  destruct (msgs_tokens ms) as [mt|] eqn:Em; [|discriminate]. inv Hp.
  apply andb_true_iff in Hwf as [Hwf Hms]. apply andb_true_iff in Hwf as [Hwf Hrs]. apply andb_true_iff in Hwf as [Hpkg Hsvc].
  destruct (msgs_parse ms mt Em Hms) as (pms & Hs & Hparse). rewrite Hs. eexists. split; [reflexivity|].
  rewrite parse_file_unfold. apply file_parse_fuel; try assumption.
  pose proof (rpc_tokens_length rs).
  unfold header_tokens, service_tokens. repeat (rewrite ?app_length; cbn [length app]). lia.
Qed.

(* ------------------------------------------------------ tags_unique_partial *)
Lemma emits_valid_partial ms : forallb wf_member ms = true -> tags_hyp ms = true -> emits_valid ms = true.
Proof.
  intros Hwf Hhyp. unfold emits_valid.
  assert (exists toks, members_tokens ms = Some toks) as [mt Em].
  { (* every attribute has a parsable tag under the hypothesis *)
    apply tags_hyp_spec in Hhyp as (Hr & _ & _). clear Hwf.
    induction ms as [|m ms IH]; [now exists []|].
    unfold msg_attrs in Hr. cbn [flat_map] in Hr. rewrite forallb_app in Hr. apply andb_true_iff in Hr as [Hm Hr].
    destruct (IH Hr) as [mt' Emt]. cbn [members_tokens]. rewrite Emt.
    destruct m as [n tg req t|u alts]; cbn [member_tokens member_attrs forallb snd] in *.
    - rewrite andb_true_r in Hm. apply tag_in_range_spec in Hm as (s & v & -> & _ & Ep & _). cbn [rpc_tag]. rewrite Ep. eauto.
    - assert (exists at_, alts_tokens alts = Some at_) as [at_ Ea].
      { clear - Hm. induction alts as [|[[n tg] t] alts IH]; [now exists []|].
        cbn [map forallb fst snd] in Hm. apply andb_true_iff in Hm as [Ha Hm]. destruct (IH Hm) as [x Ex].
        apply tag_in_range_spec in Ha as (s & v & -> & _ & Ep & _). cbn [alts_tokens rpc_tag]. rewrite Ep, Ex. eauto. }
      rewrite Ea. eauto. }
  cbn [print_msg]. rewrite Em.
  destruct (members_parse ms mt Em Hwf) as (pms & Hs & Hparse).
  set (toks := [TI kw_message; TI [77]; TY 123] ++ mt ++ [TY 125]).
  assert (parse_message (S (length toks)) toks = Some (([77], pms), [])) as Ep.
  { unfold toks, parse_message. cbn [app]. change (str_eqb kw_message kw_message) with true. change (ident_ok [77]) with true. cbn [andb].
    rewrite (Hparse [] _); [reflexivity|]. cbn [length]. rewrite app_length. cbn [length]. lia. }
  rewrite Ep. cbn [snd].
  apply tags_hyp_spec in Hhyp as (Hr & Ht & Hn).
  apply (valid_from_designed pms (msg_attrs ms)); try assumption. now apply shape_members_designed.
Qed.

(* ---------------------------------------------------------------- decimal *)
Lemma dec_le_value fuel : forall n, n < 2 ^ N.of_nat fuel ->
  forallb is_digit (dec_le fuel n) = true /\ fold_left dstep (rev (dec_le fuel n)) 0 = n.
Proof.
  induction fuel as [|f IH]; intros n Hn.
  - change (N.of_nat 0) with 0 in Hn. rewrite N.pow_0_r in Hn. assert (n = 0) as -> by lia. split; reflexivity.
  - cbn [dec_le]. destruct (n <? 10) eqn:E.
    + apply N.ltb_lt in E. cbn [forallb rev app fold_left]. unfold dstep, is_digit. split; lia.
    + apply N.ltb_ge in E. rewrite Nat2N.inj_succ, N.pow_succ_r' in Hn.
      assert (n / 10 < 2 ^ N.of_nat f) as Hq.
      { apply N.div_lt_upper_bound; lia. }
      destruct (IH _ Hq) as [Hd Hv]. cbn [forallb rev]. rewrite fold_left_app, Hv. cbn [fold_left]. unfold dstep.
      pose proof (N.mod_lt n 10 ltac:(lia)). pose proof (N.div_mod n 10 ltac:(lia)).
      split; [|lia]. rewrite Hd, andb_true_r. unfold is_digit. lia.
Qed.

Lemma log2_bound n : n < 2 ^ N.of_nat (S (N.to_nat (N.log2 n))).
Proof.
  rewrite Nat2N.inj_succ, N2Nat.id. destruct n as [|p]; [reflexivity|].
  apply (N.log2_spec (Npos p)). reflexivity.
Qed.

Lemma parse_uint_decimal n : n < 18446744073709551616 -> parse_uint (decimal n) = Some n.
Proof.
  intro Hn. unfold decimal. destruct (dec_le_value _ n (log2_bound n)) as [Hd Hv].
  unfold parse_uint.
  remember (rev (dec_le (S (N.to_nat (N.log2 n))) n)) as s eqn:Es.
  assert (forallb is_digit s = true) as Hds.
  { rewrite Es. rewrite forallb_forall in *. intros x Hx. apply Hd. now apply in_rev. }
  destruct s as [|c r].
  { exfalso. cbn [dec_le] in Es. apply (f_equal (@length N)) in Es.
    destruct (n <? 10); cbn [rev] in Es; rewrite app_length in Es; cbn [length] in Es; lia. }
  rewrite (parse_digits_complete _ 0 Hds), Hv. apply N.ltb_lt in Hn. now rewrite Hn.
Qed.

(* -------------------------------------------------- request / response split *)
Lemma split_message_In attrs removed a :
  In a (split_message attrs removed) <-> In a attrs /\ forall r, In r removed -> ~ In a r.
Proof.
  unfold split_message. rewrite filter_In. split; intros [H1 H2]; (split; [assumption|]).
  - intros r Hr Ha. apply negb_true_iff in H2. assert (existsb (mem a) removed = true); [|congruence].
    apply existsb_exists. exists r. split; [assumption|now apply mem_In].
  - apply negb_true_iff. destruct (existsb (mem a) removed) eqn:E; [|reflexivity].
    apply existsb_exists in E as (r & Hr & Hm). apply mem_In in Hm. exfalso. now apply (H2 r).
Qed.

Lemma split_message_none attrs : split_message attrs [] = attrs.
Proof. unfold split_message. cbn [existsb negb]. induction attrs as [|a l IH]; [reflexivity|]. cbn [filter]. now rewrite IH. Qed.

Lemma split_message_NoDup attrs removed : NoDup attrs -> NoDup (split_message attrs removed).
Proof. apply NoDup_filter. Qed.

(* -------------------------------------------------------- request metadata *)
Lemma md_get_append m key vs k :
  md_get (md_append m key vs) k = if str_eqb k key then md_get m k ++ vs else md_get m k.
Proof.
  induction m as [|[k' vs'] m IH]; cbn [md_append md_get].
  - destruct (str_eqb k key); reflexivity.
  - destruct (str_eqb key k') eqn:E1; cbn [md_get].
    + apply str_eqb_eq in E1. subst k'. destruct (str_eqb k key); reflexivity.
    + destruct (str_eqb k k') eqn:E2.
      * apply str_eqb_eq in E2. subst k'. destruct (str_eqb k key) eqn:E3; [|reflexivity].
        apply str_eqb_eq in E3. subst. rewrite str_eqb_refl in E1. discriminate.
      * apply IH.
Qed.

Definition written_for (k : str) (written : list (str * list str)) : list str :=
  flat_map (fun kv => if str_eqb k (fst kv) then snd kv else []) written.

Lemma md_get_write written : forall caller k,
  md_get (md_write caller written) k = md_get caller k ++ written_for k written.
Proof.
  unfold md_write. induction written as [|[key vs] w IH]; intros caller k; cbn [fold_left written_for flat_map fst snd].
  - now rewrite app_nil_r.
  - rewrite IH, md_get_append. fold (written_for k w). destruct (str_eqb k key); [now rewrite app_assoc|reflexivity].
Qed.

Lemma endpoint_after_decode d e : In SEndpoint (handle_trace d e) -> d = true.
Proof. destruct d; [reflexivity|]. cbn. intros [H|[]]. discriminate. Qed.

Lemma encode_after_endpoint d e : In SEncode (handle_trace d e) -> d = true /\ e = true.
Proof. destruct d, e; cbn; intuition discriminate. Qed.

Lemma build_message_In listed attrs removed a :
  In a (build_message listed attrs removed) <->
  In a listed \/ (In a attrs /\ forall r, In r removed -> ~ In a r).
Proof.
  unfold build_message. rewrite in_app_iff, split_message_In. split.
  - intros [H|[H1 H2]]; [now left|]. destruct (in_dec (list_eq_dec N.eq_dec) a listed) as [Hl|Hl]; [now left|].
    right. split; [assumption|]. intros r Hr. apply H2. now right.
  - intros [H|[H1 H2]]; [now left|]. destruct (in_dec (list_eq_dec N.eq_dec) a listed) as [Hl|Hl]; [now left|].
    right. split; [assumption|]. intros r [<-|Hr]; [assumption|now apply H2].
Qed.

Lemma required_metadata_In md required a : In a (required_metadata md required) <-> In a md /\ In a required.
Proof. unfold required_metadata. rewrite filter_In, mem_In. tauto. Qed.

Lemma run_history_last h c : last (run_history (h ++ [c])) [] = md_write (fst c) (snd c).
Proof. unfold run_history. rewrite map_app. cbn [map]. apply last_last. Qed.

(* ------------------------------------------------------------ streaming kind *)
Lemma decl_eqb_eq a b : decl_eqb a b = true <-> a = b.
Proof. destruct a, b; cbn; split; intro H; try reflexivity; try discriminate. Qed.

Lemma has_decl_In d ds : has_decl d ds = true <-> In d ds.
Proof.
  unfold has_decl. rewrite existsb_exists. split.
  - intros (x & Hx & E). apply decl_eqb_eq in E. now subst.
  - intro H. exists d. split; [assumption|now apply decl_eqb_eq].
Qed.

Lemma kind_fold ds : forall a b, NoDup ds ->
  (a = true -> ~ In DStreamingPayload ds) -> (b = true -> ~ In DStreamingResult ds) ->
  fold_left decl_step ds (designed_kind a b) =
  designed_kind (a || has_decl DStreamingPayload ds) (b || has_decl DStreamingResult ds).
Proof.
  induction ds as [|d ds IH]; intros a b Hnd Ha Hb.
  - cbn. now rewrite !orb_false_r.
  - inversion Hnd as [|? ? Hnotin Hnd']; subst. cbn [fold_left].
    assert (forall x, ~ In x (d :: ds) -> x <> d /\ ~ In x ds) as Hsplit.
    { intros x Hx. split; [intro E; apply Hx; now left|intro E; apply Hx; now right]. }
    destruct d.
    + (* Payload *)
      cbn [decl_step]. rewrite IH; [|assumption| |].
      * unfold has_decl. cbn [existsb decl_eqb orb]. reflexivity.
      * intro E. now apply Hsplit, Ha.
      * intro E. now apply Hsplit, Hb.
    + (* StreamingPayload *)
      assert (a = false) as -> by (destruct a; [exfalso; apply (Ha eq_refl); now left|reflexivity]).
      replace (decl_step (designed_kind false b) DStreamingPayload) with (designed_kind true b) by (destruct b; reflexivity).
      rewrite IH; [|assumption| |].
      * unfold has_decl. cbn [existsb decl_eqb orb]. reflexivity.
      * intros _. exact Hnotin.
      * intro E. now apply Hsplit, Hb.
    + (* Result *)
      cbn [decl_step]. rewrite IH; [|assumption| |].
      * unfold has_decl. cbn [existsb decl_eqb orb]. reflexivity.
      * intro E. now apply Hsplit, Ha.
      * intro E. now apply Hsplit, Hb.
    + (* StreamingResult *)
      assert (b = false) as -> by (destruct b; [exfalso; apply (Hb eq_refl); now left|reflexivity]).
      replace (decl_step (designed_kind a false) DStreamingResult) with (designed_kind a true) by (destruct a; reflexivity).
      rewrite IH; [|assumption| |].
      * unfold has_decl. cbn [existsb decl_eqb orb]. reflexivity.
      * intro E. now apply Hsplit, Ha.
      * intros _. exact Hnotin.
Qed.

Lemma kind_of_decls_designed ds : NoDup ds ->
  kind_of_decls ds = designed_kind (has_decl DStreamingPayload ds) (has_decl DStreamingResult ds).
Proof.
  intro H. unfold kind_of_decls. change Unary with (designed_kind false false).
  rewrite (kind_fold ds false false H); [reflexivity| |]; discriminate.
Qed.

Lemma request_metadata_names_In attrs explicit creds sp a :
  In a (request_metadata_names attrs explicit creds sp) <->
  if sp then In a attrs else In a explicit \/ In a creds.
Proof.
  unfold request_metadata_names. destruct sp; [reflexivity|].
  rewrite in_app_iff, filter_In, negb_true_iff. split.
  - intros [H|[H _]]; tauto.
  - intros [H|H]; [now left|]. destruct (mem a explicit) eqn:E; [left; now apply mem_In|right; now split].
Qed.

(* ----------------------------------- the repaired validation implies validity *)
Lemma tag_number_spec t n : tag_number t = Some n -> rpc_tag t = Some n /\ number_ok n = true.
Proof.
  destruct t as [s|]; cbn [tag_number rpc_tag]; [|discriminate].
  destruct (parse_uint s) as [v|]; [|discriminate]. destruct (number_ok v) eqn:E; [|discriminate].
  intro H. inv H. now split.
Qed.

Lemma goa_numbers_spec attrs : forall seen, goa_numbers_ok seen attrs = true ->
  exists nums, map (fun a => rpc_tag (snd a)) attrs = map Some nums /\
               forallb number_ok nums = true /\ NoDup nums /\ (forall n, In n nums -> ~ In n seen).
Proof.
  induction attrs as [|a attrs IH]; intros seen H; cbn [goa_numbers_ok] in H.
  - exists []. repeat split; [constructor|intros n []].
  - destruct (tag_number (snd a)) as [n|] eqn:Et; [|discriminate].
    apply andb_true_iff in H as [Hn H]. apply negb_true_iff in Hn.
    destruct (tag_number_spec _ _ Et) as [Er Hok].
    destruct (IH (n :: seen) H) as (nums & Em & Hall & Hnd & Hdis).
    exists (n :: nums). cbn [map forallb]. rewrite Er, Em, Hok, Hall. repeat split.
    + constructor; [|assumption]. intro Hin. apply (Hdis n Hin). now left.
    + intros x [<-|Hx] Hs.
      * assert (existsb (N.eqb n) seen = true) as E by (apply existsb_exists; exists n; split; [assumption|apply N.eqb_refl]). congruence.
      * apply (Hdis x Hx). now right.
Qed.

Lemma map_Some_inj {A} (l1 l2 : list A) : map Some l1 = map Some l2 -> l1 = l2.
Proof.
  revert l2; induction l1 as [|x l1 IH]; intros [|y l2] H; cbn in H; try discriminate; [reflexivity|].
  inv H. f_equal. now apply IH.
Qed.

Lemma valid_from_numbers (pms : list pmember) (attrs : list (str * tag)) nums :
  map numbered (msg_fields pms) = map designed attrs ->
  map (fun a => rpc_tag (snd a)) attrs = map Some nums ->
  forallb number_ok nums = true -> NoDup nums ->
  NoDup (map (fun a => field_name (fst a)) attrs) ->
  valid_tags pms = true.
Proof.
  intros Hmap Hnums Hok Hnd Hnames. unfold valid_tags.
  remember (msg_fields pms) as fs eqn:Efs. clear Efs pms.
  assert (map pfield_name fs = map (fun a => field_name (fst a)) attrs) as Enames.
  { apply (f_equal (map fst)) in Hmap. rewrite !map_map in Hmap. exact Hmap. }
  assert (map pfield_num fs = nums) as Enums.
  { apply (f_equal (map snd)) in Hmap. rewrite !map_map in Hmap. cbn [numbered designed snd] in Hmap.
    apply map_Some_inj. rewrite map_map. rewrite <- Hnums. exact Hmap. }
  rewrite forallb_forall in Hok.
  apply andb_true_iff. split; [apply andb_true_iff; split|].
  - apply forallb_forall. intros f Hf. apply Hok. rewrite <- Enums. now apply in_map.
  - apply nodup_N_NoDup. now rewrite Enums.
  - apply nodup_str_NoDup. now rewrite Enames.
Qed.

Lemma members_tokens_some ms : (forall a, In a (msg_attrs ms) -> rpc_tag (snd a) <> None) ->
  exists mt, members_tokens ms = Some mt.
Proof.
  induction ms as [|m ms IH]; intro H; [now exists []|].
  unfold msg_attrs in H. cbn [flat_map] in H.
  destruct IH as [mt' Emt]. { intros a Ha. apply H, in_or_app. now right. }
  cbn [members_tokens]. rewrite Emt.
  destruct m as [n tg req t|u alts]; cbn [member_tokens member_attrs] in *.
  - destruct (rpc_tag tg) as [num|] eqn:E; [eauto|]. exfalso. apply (H (n, tg)); [now left|exact E].
  - assert (exists at_, alts_tokens alts = Some at_) as [at_ Ea].
    { assert (forall a, In a alts -> rpc_tag (snd (fst a)) <> None) as Ha.
      { intros a Hin. apply (H (fst (fst a), snd (fst a))). apply in_or_app. left. apply in_map_iff. now exists a. }
      clear - Ha. induction alts as [|[[n tg] t] alts IH]; [now exists []|].
      destruct IH as [x Ex]. { intros a Hin. apply Ha. now right. }
      cbn [alts_tokens]. destruct (rpc_tag tg) as [num|] eqn:E; [rewrite Ex; eauto|].
      exfalso. apply (Ha (n, tg, t)); [now left|exact E]. }
    rewrite Ea. eauto.
Qed.

Lemma emits_valid_accepted sc ms : forallb wf_member ms = true -> goa_accepts sc ms = true ->
  nodup_str (map (fun a => field_name (fst a)) (msg_attrs ms)) = true -> emits_valid ms = true.
Proof.
  intros Hwf Hacc Hnames. unfold goa_accepts in Hacc. apply andb_true_iff in Hacc as [Hnum _].
  destruct (goa_numbers_spec _ _ Hnum) as (nums & Em & Hok & Hnd & _).
  apply nodup_str_NoDup in Hnames. unfold emits_valid.
  destruct (members_tokens_some ms) as [mt Emt].
  { intros a Ha E. apply (in_map (fun a => rpc_tag (snd a))) in Ha. rewrite Em, E in Ha.
    apply in_map_iff in Ha as (x & Hx & _). discriminate. }
  cbn [print_msg]. rewrite Emt.
  destruct (members_parse ms mt Emt Hwf) as (pms & Hs & Hparse).
  set (toks := [TI kw_message; TI [77]; TY 123] ++ mt ++ [TY 125]).
  assert (parse_message (S (length toks)) toks = Some (([77], pms), [])) as Ep.
  { unfold toks, parse_message. cbn [app]. change (str_eqb kw_message kw_message) with true. change (ident_ok [77]) with true. cbn [andb].
    rewrite (Hparse [] _); [reflexivity|]. cbn [length]. rewrite app_length. cbn [length]. lia. }
  rewrite Ep. cbn [snd].
  apply (valid_from_numbers pms (msg_attrs ms) nums); try assumption. now apply shape_members_designed.
Qed.

Lemma stream_trace_spec hd dok :
  (In SDecode (stream_trace hd dok) <-> hd = true) /\
  (In SEndpoint (stream_trace hd dok) <-> hd = false \/ dok = true).
Proof. destruct hd, dok; cbn; intuition discriminate. Qed.
