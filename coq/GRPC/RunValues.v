(* Correspondence glue for the value conversions (tier B, thorough). *)
From GRPC Require Import Model Values.
Local Open Scope Z_scope.

Fixpoint zlist_eqb (a b : list Z) : bool :=
  match a, b with
  | [], [] => true
  | x :: a', y :: b' => (x =? y) && zlist_eqb a' b'
  | _, _ => false
  end.

(* equality of dumps; map entries are compared as sets (the dump orders them by the
   printed key) *)
Fixpoint sval_eqb (a b : sval) : bool :=
  match a, b with
  | SInt x, SInt y => x =? y
  | SStr x, SStr y => zlist_eqb x y
  | SNil, SNil => true
  | SList x, SList y | SObj x, SObj y =>
    (fix go (x y : list sval) : bool :=
       match x, y with
       | [], [] => true
       | p :: x', q :: y' => sval_eqb p q && go x' y'
       | _, _ => false
       end) x y
  | SMap x, SMap y =>
    Nat.eqb (length x) (length y) &&
    (fix all (x : list (sval * sval)) : bool :=
       match x with
       | [] => true
       | (k1, v1) :: x' =>
         (fix any (y : list (sval * sval)) : bool :=
            match y with
            | [] => false
            | (k2, v2) :: y' => (sval_eqb k1 k2 && sval_eqb v1 v2) || any y'
            end) y && all x'
       end) x
  | _, _ => false
  end.

Definition opt_eqb (a : option sval) (b : sval) : bool :=
  match a with Some x => sval_eqb x b | None => false end.

(* (index, shape, value sent, message observed, value received): the model must
   produce the observed message from the value and the received value from the message *)
Definition value_mismatches (cs : list (Z * vty * sval * sval * sval)) : list Z :=
  flat_map (fun c => match c with (i, t, vin, msg, vout) =>
     if opt_eqb (to_message t vin) msg && opt_eqb (from_message t msg) vout then [] else [i] end) cs.
