(* C10 — the proto field name goa derives from an attribute name is an identifier
   whenever the name is letter-led (Model.letter_led). *)
From GRPC Require Import Model.
From Coq Require Import Lia ZifyBool ZifyN Wf_nat PeanoNat.
Local Open Scope N_scope.

(* ---------------------------------------------------------------- characters *)
Ltac chr :=
  unfold valid_id, ident_char, ident_start, is_letter, is_upper, is_lowerL, is_digit, to_lower, to_upper, is_upper, is_lowerL, us in *;
  repeat match goal with
         | |- context [?a <=? ?b] => destruct (N.leb_spec a b)
         | H : context [?a <=? ?b] |- _ => destruct (N.leb_spec a b)
         | |- context [?a =? ?b] => destruct (N.eqb_spec a b)
         | H : context [?a =? ?b] |- _ => destruct (N.eqb_spec a b)
         end; cbn [andb orb negb] in *; try reflexivity; try discriminate; try lia.

Lemma to_lower_letter c : is_letter c = true -> is_lowerL (to_lower c) = true.
Proof. intro H. chr. Qed.

Lemma to_lower_lower c : is_lowerL c = true -> to_lower c = c.
Proof. intro H. chr. Qed.

Lemma to_lower_valid c : valid_id c = true -> valid_id (to_lower c) = true.
Proof. intro H. chr. Qed.

Lemma to_upper_valid c : valid_id c = true -> valid_id (to_upper c) = true.
Proof. intro H. chr. Qed.

Lemma valid_ident_char c : valid_id c = true -> ident_char c = true.
Proof. intro H. chr. Qed.

Lemma to_lower_ident c : ident_char c = true -> ident_char (to_lower c) = true.
Proof. intro H. chr. Qed.

Lemma lower_ident_start c : is_lowerL c = true -> ident_start c = true.
Proof. intro H. chr. Qed.

Lemma lower_not_O c : is_lowerL c = true -> (c =? 79) = false.
Proof. intro H. chr. Qed.

(* ------------------------------------------------------- words and CamelCase *)
Lemma map_first_forallb (p : N -> bool) f w : (forall c, p c = true -> p (f c) = true) ->
  forallb p w = true -> forallb p (map_first f w) = true.
Proof. intros Hf. destruct w as [|c w]; [reflexivity|]. cbn [map_first forallb]. intro H. apply andb_true_iff in H as [H1 H2]. now rewrite (Hf c H1), H2. Qed.

Lemma map_forallb (p : N -> bool) f w : (forall c, p c = true -> p (f c) = true) ->
  forallb p w = true -> forallb p (map f w) = true.
Proof.
  intros Hf. induction w as [|c w IH]; [reflexivity|]. cbn [map forallb]. intro H.
  apply andb_true_iff in H as [H1 H2]. now rewrite (Hf c H1), (IH H2).
Qed.

Lemma fix_word_valid first w : forallb valid_id w = true -> forallb valid_id (fix_word first w) = true.
Proof.
  intro H. unfold fix_word.
  assert (forallb valid_id (if mem (map to_upper w) initialisms
            then if first then map to_lower w else map_first to_upper (map to_lower w)
            else if negb first && forallb (fun c => negb (is_upper c)) w then map_first to_upper w else w) = true) as H1.
  { destruct (mem (map to_upper w) initialisms).
    - destruct first; [apply map_forallb; [apply to_lower_valid|assumption]|].
      apply map_first_forallb; [apply to_upper_valid|]. apply map_forallb; [apply to_lower_valid|assumption].
    - destruct (negb first && forallb (fun c => negb (is_upper c)) w); [|assumption].
      apply map_first_forallb; [apply to_upper_valid|assumption]. }
  destruct first; [|assumption]. apply map_first_forallb; [apply to_lower_valid|assumption].
Qed.

(* the first word of a name: its head is a letter -> the head of the result is a
   lower-case letter *)
Lemma fix_word_head c0 w : is_letter c0 = true ->
  exists x r, fix_word true (c0 :: w) = x :: r /\ is_lowerL x = true.
Proof.
  intro H. unfold fix_word. cbn [negb andb].
  destruct (mem (map to_upper (c0 :: w)) initialisms); cbn [map map_first].
  - eexists. eexists. split; [reflexivity|]. apply to_lower_letter. unfold is_letter. now rewrite (to_lower_letter c0 H), orb_true_r.
  - eexists. eexists. split; [reflexivity|]. now apply to_lower_letter.
Qed.

Lemma camel_valid s : forall cur first, forallb valid_id cur = true -> forallb valid_id (camel cur first s) = true.
Proof.
  induction s as [|c r IH]; intros cur first Hcur; cbn [camel]; [reflexivity|].
  destruct (valid_id c) eqn:Ec; cbn [negb]; [|now apply IH].
  assert (forallb valid_id (cur ++ [c]) = true) as Hc by (rewrite forallb_app, Hcur; cbn; now rewrite Ec).
  destruct (match r with [] => true | d :: _ => (d =? us) || (go_is_lower c && negb (go_is_lower d)) end).
  - rewrite forallb_app, (fix_word_valid _ _ Hc). now apply IH.
  - now apply IH.
Qed.

(* the scan ends on a valid character (what strip_trailing_invalid guarantees) *)
Definition ends_valid (s : str) : Prop := s = [] \/ valid_id (last s 0) = true.

Lemma ends_valid_tail c r : ends_valid (c :: r) -> ends_valid r.
Proof.
  intros [H|H]; [discriminate|]. destruct r as [|d r]; [now left|]. right. exact H.
Qed.

Lemma camel_head s : forall cur c0 w, ends_valid s -> (s = [] -> cur = []) ->
  cur ++ filter valid_id s = c0 :: w -> is_letter c0 = true ->
  exists x r, camel cur true s = x :: r /\ is_lowerL x = true.
Proof.
  induction s as [|c r IH]; intros cur c0 w He Hne Hh Hl.
  - rewrite (Hne eq_refl) in Hh. discriminate.
  - cbn [camel]. destruct (valid_id c) eqn:Ec; cbn [negb].
    + cbn [filter] in Hh. rewrite Ec in Hh.
      assert (exists w', cur ++ [c] = c0 :: w') as [w' Ew].
      { destruct cur as [|a cur]; cbn [app] in *; inversion Hh; subst; eauto. }
      destruct r as [|d r'].
      * rewrite Ew. destruct (fix_word_head c0 w' Hl) as (x & t & Ef & Hx). rewrite Ef. cbn [app]. eauto.
      * destruct ((d =? us) || (go_is_lower c && negb (go_is_lower d))).
        -- rewrite Ew. destruct (fix_word_head c0 w' Hl) as (x & t & Ef & Hx). rewrite Ef. cbn [app]. eauto.
        -- apply (IH (cur ++ [c]) c0 w); [now apply ends_valid_tail in He|discriminate| |assumption].
           rewrite <- app_assoc. exact Hh.
    + cbn [filter] in Hh. rewrite Ec in Hh.
      apply (IH cur c0 w); [now apply ends_valid_tail in He| |assumption|assumption].
      intro Er. subst r. destruct He as [He|He]; [discriminate|]. cbn [last] in He. congruence.
Qed.

(* ------------------------------------------------- stripping and digit marks *)
Lemma filter_drop_while (p : N -> bool) l : filter p (drop_while (fun c => negb (p c)) l) = filter p l.
Proof.
  induction l as [|c l IH]; [reflexivity|]. cbn [drop_while filter]. destruct (p c) eqn:E; cbn [negb]; [|exact IH].
  cbn [filter]. now rewrite E.
Qed.

Lemma filter_rev {A} (p : A -> bool) l : filter p (rev l) = rev (filter p l).
Proof.
  induction l as [|c l IH]; [reflexivity|]. cbn [rev filter]. rewrite filter_app, IH. cbn [filter].
  destruct (p c); [reflexivity|now rewrite app_nil_r].
Qed.

Lemma strip_trailing_filter s : filter valid_id (strip_trailing_invalid s) = filter valid_id s.
Proof.
  unfold strip_trailing_invalid. rewrite filter_rev, filter_drop_while, <- filter_rev, rev_involutive. reflexivity.
Qed.

Lemma drop_while_head (p : N -> bool) l c r : drop_while p l = c :: r -> p c = false.
Proof.
  induction l as [|a l IH]; cbn [drop_while]; [discriminate|]. destruct (p a) eqn:E; [exact IH|].
  intro H. inversion H; subst. exact E.
Qed.

Lemma strip_trailing_ends s : ends_valid (strip_trailing_invalid s).
Proof.
  unfold strip_trailing_invalid, ends_valid.
  destruct (drop_while (fun c => negb (valid_id c)) (rev s)) as [|c r] eqn:E; [now left|right].
  cbn [rev]. rewrite last_last. apply drop_while_head in E. now apply negb_false_iff in E.
Qed.

Lemma us_not_valid : valid_id us = false.
Proof. reflexivity. Qed.

Lemma digits_us_filter s : filter valid_id (digits_us s) = filter valid_id s.
Proof.
  induction s as [|c r IH]; [reflexivity|]. cbn [digits_us].
  destruct (is_digit c) eqn:Ed.
  - destruct r as [|d r'].
    + cbn [filter]. rewrite us_not_valid. reflexivity.
    + destruct (is_digit d); cbn [filter]; [now rewrite IH|]. rewrite us_not_valid, IH. reflexivity.
  - cbn [filter]. now rewrite IH.
Qed.

(* ------------------------------------------------------------ SnakeCase part *)
Lemma replace_oauth_ident_n n : forall s, (length s <= n)%nat ->
  forallb ident_char s = true -> forallb ident_char (replace_oauth s) = true.
Proof.
  induction n as [|n IHn]; intros s Hlen H.
  - destruct s; [reflexivity|cbn [length] in Hlen; lia].
  - destruct s as [|c r]; [reflexivity|]. cbn [replace_oauth].
    cbn [forallb] in H. apply andb_true_iff in H as [Hc Hr]. cbn [length] in Hlen.
    assert (forallb ident_char (c :: replace_oauth r) = true) as Hplain.
    { cbn [forallb]. rewrite Hc. cbn [andb]. apply IHn; [lia|exact Hr]. }
    destruct r as [|b [|c2 [|d [|e r5]]]]; try exact Hplain.
    destruct ((c =? 79) && (b =? 65) && (c2 =? 117) && (d =? 116) && (e =? 104)); [|exact Hplain].
    cbn [forallb]. change (ident_char 111) with true. change (ident_char 97) with true. change (ident_char 117) with true.
    change (ident_char 116) with true. change (ident_char 104) with true. cbn [andb].
    apply IHn; [cbn [length] in *; lia|].
    cbn [forallb] in Hr. repeat (apply andb_true_iff in Hr as [_ Hr]). exact Hr.
Qed.

Lemma replace_oauth_ident s : forallb ident_char s = true -> forallb ident_char (replace_oauth s) = true.
Proof. apply (replace_oauth_ident_n (length s)). lia. Qed.

Lemma replace_oauth_head x r : is_lowerL x = true -> exists r', replace_oauth (x :: r) = x :: r'.
Proof.
  intro H. cbn [replace_oauth].
  destruct r as [|b [|c2 [|d [|e r5]]]]; eauto.
  rewrite (lower_not_O x H). cbn [andb]. eauto.
Qed.

Lemma snake_loop_ident s : forall a b, forallb ident_char s = true -> forallb ident_char (snake_loop a b s) = true.
Proof.
  induction s as [|c r IH]; intros a b H; [reflexivity|]. cbn [snake_loop].
  cbn [forallb] in H. apply andb_true_iff in H as [Hc Hr].
  rewrite forallb_app. apply andb_true_iff. split.
  - match goal with |- forallb _ (if ?x then _ else _) = true => destruct x end; reflexivity.
  - cbn [forallb]. rewrite (to_lower_ident c Hc). cbn [andb]. now apply IH.
Qed.

(* --------------------------------------------------------------- the theorem *)
Lemma protobufify_shape n : n <> [] -> letter_led n = true ->
  protobufify n = s_val \/
  exists x r, protobufify n = x :: r /\ is_lowerL x = true /\ forallb ident_char r = true.
Proof.
  intros Hn Hl. destruct n as [|n0 n']; [congruence|].
  change (letter_led (n0 :: n')) with
    (match filter valid_id (strip_colon (n0 :: n')) with c :: _ => is_letter c | [] => true end) in Hl.
  change (protobufify (n0 :: n')) with
    (match camel_case (digits_us (strip_colon (n0 :: n'))) with
     | [] => s_val
     | _ => if mem (camel_case (camel_case (digits_us (strip_colon (n0 :: n'))))) reserved_protobuf
            then camel_case (digits_us (strip_colon (n0 :: n'))) ++ [us]
            else camel_case (digits_us (strip_colon (n0 :: n')))
     end).
  remember (n0 :: n') as n eqn:En. clear En Hn n0 n'.
  set (src := digits_us (strip_colon n)).
  assert (filter valid_id (strip_trailing_invalid src) = filter valid_id (strip_colon n)) as Ef.
  { unfold src. now rewrite strip_trailing_filter, digits_us_filter. }
  destruct (camel_case src) as [|x0 r0] eqn:Ec; [now left|right].
  unfold camel_case in Ec.
  assert (forallb valid_id (camel [] true (strip_trailing_invalid src)) = true) as Hv by (now apply camel_valid).
  destruct (filter valid_id (strip_colon n)) as [|c0 w] eqn:Efil.
  - (* no valid character: camel yields nothing *)
    exfalso. clear - Ec Ef.
    assert (forall s cur first, filter valid_id s = [] -> camel cur first s = []) as Hnil.
    { induction s as [|c r IH]; intros cur first H; [reflexivity|]. cbn [camel]. cbn [filter] in H.
      destruct (valid_id c); [discriminate|]. cbn [negb]. now apply IH. }
    rewrite (Hnil _ _ _ Ef) in Ec. discriminate.
  - destruct (camel_head (strip_trailing_invalid src) [] c0 w (strip_trailing_ends src)) as (x & r & Ex & Hx);
      [reflexivity|cbn [app]; exact Ef|exact Hl|].
    rewrite Ec in Ex, Hv. inversion Ex; subst x0 r0. cbn [forallb] in Hv. apply andb_true_iff in Hv as [_ Hr].
    assert (forallb ident_char r = true) as Hri.
    { rewrite forallb_forall in *. intros y Hy. apply valid_ident_char. now apply Hr. }
    destruct (mem (camel_case (x :: r)) reserved_protobuf).
    + exists x, (r ++ [us]). split; [reflexivity|]. split; [assumption|]. rewrite forallb_app, Hri. reflexivity.
    + exists x, r. now repeat split.
Qed.

Lemma field_name_identifier n : n <> [] -> letter_led n = true -> ident_ok (field_name n) = true.
Proof.
  intros Hn Hl. unfold field_name. destruct (protobufify_shape n Hn Hl) as [E|(x & r & E & Hx & Hr)].
  - rewrite E. reflexivity.
  - rewrite E. unfold snake_case. destruct (replace_oauth_head x r Hx) as [r' Er].
    assert (forallb ident_char (replace_oauth (x :: r)) = true) as Hall.
    { apply replace_oauth_ident. cbn [forallb]. rewrite Hr, andb_true_r. apply valid_ident_char.
      unfold valid_id, is_letter. now rewrite Hx, orb_true_r. }
    rewrite Er in *. cbn [forallb] in Hall. apply andb_true_iff in Hall as [_ Hr'].
    cbn [ident_ok]. rewrite (to_lower_lower x Hx), (lower_ident_start x Hx). cbn [andb]. now apply snake_loop_ident.
Qed.

Lemma letter_led_nonempty n : letter_led n = true -> n <> [].
Proof. destruct n; [discriminate|discriminate]. Qed.

Lemma letter_led_wf_name n : letter_led n = true -> wf_attr_name n = true.
Proof. intro H. unfold wf_attr_name. apply field_name_identifier; [now apply letter_led_nonempty|assumption]. Qed.

Lemma wf_member_src_wf m : wf_member_src m = true -> wf_member m = true.
Proof.
  destruct m as [n tg req t|u alts]; cbn [wf_member_src wf_member]; intro H.
  - apply andb_true_iff in H as [Hn Ht]. apply andb_true_iff in Ht as [_ Ht]. now rewrite (letter_led_wf_name n Hn), Ht.
  - apply andb_true_iff in H as [H Hne]. apply andb_true_iff in H as [Hu Ha]. rewrite (letter_led_wf_name u Hu), Hne.
    cbn [andb]. rewrite andb_true_r. rewrite forallb_forall in *. intros a Hin. specialize (Ha a Hin).
    unfold wf_alt_src in Ha. unfold wf_alt. apply andb_true_iff in Ha as [H1 H2]. now rewrite (letter_led_wf_name _ H1), H2.
Qed.

Lemma wf_msg_src_wf m : wf_msg_src m = true -> wf_msg m = true.
Proof.
  destruct m as [n ms]. cbn [wf_msg_src wf_msg]. intro H. apply andb_true_iff in H as [Hn Hms]. rewrite Hn. cbn [andb].
  rewrite forallb_forall in *. intros x Hx. apply wf_member_src_wf. now apply Hms.
Qed.
