(* Correspondence glue: evaluated by vm_compute on the cases the harness wrote.
   Every function returns the list of case indexes (with a small reason code) on
   which the model and the real goa output disagree. *)
From GRPC Require Import Model.
From Coq Require Import ZArith Uint63.
Local Open Scope N_scope.

(* strings travel as one (hexadecimal) numeral: the bytes in base 256 behind a
   leading 1. Decoding reads the binary representation once, eight bits at a time. *)
Fixpoint pos_bytes (p : positive) (w cur : N) (k : nat) (acc : str) : str :=
  let step (b : bool) (p' : positive) :=
    let cur' := if b then cur + w else cur in
    match k with
    | 7%nat => pos_bytes p' 1 0 0%nat (cur' :: acc)
    | _ => pos_bytes p' (2 * w) cur' (S k) acc
    end in
  match p with
  | xH => acc
  | xO p' => step false p'
  | xI p' => step true p'
  end.
Definition z (n : N) : str := match n with N0 => [] | Npos p => pos_bytes p 1 0 0%nat [] end.
(* in case files a string is a list of primitive integers, each holding up to seven
   bytes behind a leading 1 (primitive integer literals elaborate fast) *)
Definition n_of (i : int) : N := Z.to_N (Uint63.to_Z i).
Definition z1 (i : int) : str := z (n_of i).
Definition zl (l : list int) : str := flat_map z1 l.

(* the harness marks a lexeme that is no proto3 token (1_abc) as Bad; the model
   prints the field name it computed as one identifier token *)
Definition token_eqb (a b : token) : bool :=
  match a, b with
  | TI x, TI y => str_eqb x y
  | TI x, TBad y => str_eqb x y
  | TD x, TD y => x =? y
  | TQ x, TQ y => str_eqb x y
  | TY x, TY y => x =? y
  | _, _ => false
  end.

Fixpoint tokens_eqb (a b : list token) : bool :=
  match a, b with
  | [], [] => true
  | x :: a', y :: b' => token_eqb x y && tokens_eqb a' b'
  | _, _ => false
  end.

Fixpoint pmember_valid (m : pmember) : bool :=
  match m with
  | PMMsg _ sub => valid_tags sub && forallb pmember_valid sub
  | _ => true
  end.
Definition pmsg_valid (ms : list pmember) : bool := valid_tags ms && forallb pmember_valid ms.

Definition pfile_valid (f : pfile) : bool :=
  match f with PFile _ _ _ _ _ ms => forallb (fun m => pmsg_valid (snd m)) ms end.

Definition file_msgs (f : file) : list msg := match f with File _ _ _ ms => ms end.
Definition msg_members (m : msg) : list member := match m with Msg _ ms => ms end.

(* reason codes: 1 model cannot print (predicts a panic), 2 tokens differ, 3 the
   description is outside the well-formedness hypotheses, 4 the verified recogniser
   rejects the real tokens, 5 a parsed message has invalid numbers / names,
   6 a message is outside the hypotheses of tags_unique_partial *)
Definition main_code (f : file) (text : list int) : N :=
  let real := tokenize (zl text) in
  match print_file f with
  | None => 1
  | Some ts =>
    if negb (tokens_eqb ts real) then 2
    else if negb (wf_file f) then 3
    else match parse_file real with
         | None => 4
         | Some pf =>
           if negb (pfile_valid pf) then 5
           else if negb (forallb (fun m => tags_hyp (msg_members m)) (file_msgs f)) then 6
           else if negb (forallb (fun m => goa_accepts TopPlain (msg_members m)) (file_msgs f)) then 7
           else if negb (forallb wf_msg_src (file_msgs f)) then 8
           else 0
         end
  end.

Definition mismatches (cs : list (int * file * list int)) : list N :=
  flat_map (fun c => match c with (i, f, real) =>
     match main_code f real with 0 => [] | code => [8 * n_of i + code] end end) cs.

Definition name_mismatches (cs : list (int * str * str)) : list N :=
  flat_map (fun c => match c with (i, n, got) =>
     if str_eqb (field_name n) got && implb (letter_led n) (ident_ok got) then [] else [n_of i] end) cs.

Fixpoint strs_eqb (a b : list str) : bool :=
  match a, b with
  | [], [] => true
  | x :: a', y :: b' => str_eqb x y && strs_eqb a' b'
  | _, _ => false
  end.

Definition split_mismatches (cs : list (int * list str * list str * list (list str) * list str)) : list N :=
  flat_map (fun c => match c with (i, attrs, listed, removed, got) =>
     if strs_eqb (build_message listed attrs removed) got then [] else [n_of i] end) cs.

(* (metadata / header / trailer attribute names, required payload / result attributes,
   the names goa's finalised expression marks required) *)
Definition reqmd_mismatches (cs : list (int * list str * list str * list str)) : list N :=
  flat_map (fun c => match c with (i, md, required, got) =>
     if strs_eqb (required_metadata md required) got then [] else [n_of i] end) cs.

(* witness designs of the recorded findings: the model must predict the defect *)
Inductive wobs := WPanic | WText (text : list int).

Definition witness_ok (f : file) (o : wobs) : bool :=
  match o, print_file f with
  | WPanic, None => true
  | WText text, Some ts =>
    tokens_eqb ts (tokenize (zl text)) &&
    match parse_file ts with
    | None => true
    | Some pf => negb (pfile_valid pf)
    end
  | _, _ => false
  end.

Definition witness_mismatches (cs : list (int * file * wobs)) : list N :=
  flat_map (fun c => match c with (i, f, o) => if witness_ok f o then [] else [n_of i] end) cs.

(* runtime stream: the metadata the server decoder saw per key, the handler's stages *)
Definition stage_eqb (a b : stage) : bool :=
  match a, b with SDecode, SDecode | SEndpoint, SEndpoint | SEncode, SEncode => true | _, _ => false end.
Fixpoint stages_eqb (a b : list stage) : bool :=
  match a, b with
  | [], [] => true
  | x :: a', y :: b' => stage_eqb x y && stages_eqb a' b'
  | _, _ => false
  end.

Definition runtime_mismatches
  (cs : list (int * mdata * list (str * list str) * list (str * list str) * bool * bool * list stage)) : list N :=
  flat_map (fun c => match c with (i, caller, written, seen, dok, eok, tr) =>
     let m := md_write caller written in
     if forallb (fun kv => strs_eqb (md_get m (fst kv)) (snd kv)) seen && stages_eqb (handle_trace dok eok) tr
     then [] else [n_of i] end) cs.

(* two metadata maps hold the same values under every key of either *)
Definition md_same (a b : mdata) : bool :=
  forallb (fun kv => strs_eqb (md_get b (fst kv)) (md_get a (fst kv))) a &&
  forallb (fun kv => strs_eqb (md_get a (fst kv)) (md_get b (fst kv))) b.

(* history stream: (sent early by the endpoint, headers written, headers the client
   decoded, trailers written, trailers the client decoded) for every delivered call *)
Definition history_mismatches
  (cs : list (int * mdata * list (str * list str) * mdata * list (str * list str) * mdata)) : list N :=
  flat_map (fun c => match c with (i, pre, hw, hseen, tw, tseen) =>
     if md_same (md_write pre hw) hseen && md_same (md_write [] tw) tseen then [] else [n_of i] end) cs.

(* declaration-order stream: the kind goa computed for the method (MethodExpr.Stream)
   from the order its DSL declared the parts *)
Definition skind_eqb (a b : skind) : bool :=
  match a, b with Unary, Unary | ClientStream, ClientStream | ServerStream, ServerStream | Bidi, Bidi => true | _, _ => false end.

Definition order_mismatches (cs : list (int * list decl * skind)) : list N :=
  flat_map (fun c => match c with (i, ds, observed) =>
     if skind_eqb (kind_of_decls ds) observed
        && skind_eqb observed (designed_kind (has_decl DStreamingPayload ds) (has_decl DStreamingResult ds))
     then [] else [n_of i] end) cs.

(* must-reject stream: the members of the defective message of a design goa refused; the
   model of goa's validation must refuse them too *)
Definition reject_mismatches (cs : list (int * list member)) : list N :=
  flat_map (fun c => match c with (i, ms) => if goa_accepts TopPlain ms then [n_of i] else [] end) cs.

(* stream-handler stream: (metadata the client encoder wrote, what the server request
   decoder read per key, the method has a request decoder, decoding succeeds, stages) *)
Definition streamhandler_mismatches
  (cs : list (int * list (str * list str) * list (str * list str) * bool * bool * list stage)) : list N :=
  flat_map (fun c => match c with (i, written, seen, hasdec, dok, tr) =>
     let m := md_write [] written in
     if forallb (fun kv => strs_eqb (md_get m (fst kv)) (snd kv)) seen && stages_eqb (stream_trace hasdec dok) tr
     then [] else [n_of i] end) cs.
