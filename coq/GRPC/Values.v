(* C10 — model of the conversions between service values and protocol buffer message
   values that goa generates (grpc/codegen/protobuf_transform.go): primitives with the
   int -> int32 / uint -> uint32 narrowing goa performs towards protobuf and the
   widening back, optional primitives (pointers), arrays, maps, nested messages, and
   the wrapper messages (single field `field`) around collections nested in
   collections. Definitions only.

   Values are dumped canonically by the harness: a nil and an empty slice / map / byte
   string are the same value (protobuf cannot tell them apart); floats travel as their
   bit patterns, booleans as 0 / 1. *)
From Coq Require Export List ZArith Bool.
From GRPC Require Import Model.
Export ListNotations.
Local Open Scope Z_scope.

Inductive sval :=
| SInt (z : Z)
| SStr (s : list Z)
| SNil
| SList (l : list sval)
| SMap (l : list (sval * sval))
| SObj (l : list sval).

(* the shape of a position: a primitive held by value, a primitive held by pointer
   (optional attribute), an array, a map, a message (pointer to struct) *)
Inductive vty :=
| VPrim (p : prim)
| VOpt (p : prim)
| VArr (e : vty)
| VMap (k e : vty)
| VMsg (fs : list vty).

Definition wrap32 (z : Z) : Z := (z + 2147483648) mod 4294967296 - 2147483648.

(* convertPrimitiveToProto: int32(v) for Int, uint32(v) for UInt, nothing otherwise *)
Definition narrow (p : prim) (z : Z) : Z :=
  match p with PInt => wrap32 z | PUInt => z mod 4294967296 | _ => z end.

Definition is_coll (t : vty) : bool := match t with VArr _ | VMap _ _ => true | _ => false end.

Fixpoint all_some {A} (l : list (option A)) : option (list A) :=
  match l with
  | [] => Some []
  | Some x :: r => match all_some r with Some r' => Some (x :: r') | None => None end
  | None :: _ => None
  end.

Definition prim_to (p : prim) (v : sval) : option sval :=
  match v with
  | SInt z => Some (SInt (narrow p z))
  | SStr s => Some (SStr s)
  | _ => None
  end.

(* service value -> message value *)
Fixpoint to_proto (t : vty) (v : sval) : option sval :=
  match t with
  | VPrim p => prim_to p v
  | VOpt p => match v with SNil => Some SNil | _ => prim_to p v end
  | VArr e =>
    match v with
    | SList l =>
      option_map SList (all_some (map (fun x =>
        if is_coll e then option_map (fun y => SObj [y]) (to_proto e x) else to_proto e x) l))
    | _ => None
    end
  | VMap kt e =>
    match v with
    | SMap l =>
      option_map SMap (all_some (map (fun kv =>
        match to_proto kt (fst kv),
              (if is_coll e then option_map (fun y => SObj [y]) (to_proto e (snd kv)) else to_proto e (snd kv)) with
        | Some a, Some b => Some (a, b)
        | _, _ => None
        end) l))
    | _ => None
    end
  | VMsg fs =>
    match v with
    | SNil => Some SNil
    | SObj l =>
      option_map SObj
        ((fix go (fs : list vty) (l : list sval) : option (list sval) :=
            match fs, l with
            | [], [] => Some []
            | f :: fs', x :: l' =>
              match to_proto f x, go fs' l' with
              | Some a, Some b => Some (a :: b)
              | _, _ => None
              end
            | _, _ => None
            end) fs l)
    | _ => None
    end
  end.

Definition prim_from (v : sval) : option sval :=
  match v with
  | SInt z => Some (SInt z)      (* int(v) / uint(v): widening keeps the value *)
  | SStr s => Some (SStr s)
  | _ => None
  end.

Definition unwrap (v : sval) : option sval := match v with SObj [x] => Some x | _ => None end.

(* message value -> service value *)
Fixpoint from_proto (t : vty) (v : sval) : option sval :=
  match t with
  | VPrim _ => prim_from v
  | VOpt _ => match v with SNil => Some SNil | _ => prim_from v end
  | VArr e =>
    match v with
    | SList l =>
      option_map SList (all_some (map (fun y =>
        if is_coll e then match unwrap y with Some x => from_proto e x | None => None end else from_proto e y) l))
    | _ => None
    end
  | VMap kt e =>
    match v with
    | SMap l =>
      option_map SMap (all_some (map (fun kv =>
        match from_proto kt (fst kv),
              (if is_coll e then match unwrap (snd kv) with Some x => from_proto e x | None => None end else from_proto e (snd kv)) with
        | Some a, Some b => Some (a, b)
        | _, _ => None
        end) l))
    | _ => None
    end
  | VMsg fs =>
    match v with
    | SNil => Some SNil
    | SObj l =>
      option_map SObj
        ((fix go (fs : list vty) (l : list sval) : option (list sval) :=
            match fs, l with
            | [], [] => Some []
            | f :: fs', x :: l' =>
              match from_proto f x, go fs' l' with
              | Some a, Some b => Some (a :: b)
              | _, _ => None
              end
            | _, _ => None
            end) fs l)
    | _ => None
    end
  end.

(* the request / response message of a payload / result: an object maps to the
   message itself, any other value is wrapped in a message with the single field
   `field` *)
Definition to_message (t : vty) (v : sval) : option sval :=
  match t with
  | VMsg _ => to_proto t v
  | _ => option_map (fun y => SObj [y]) (to_proto t v)
  end.

Definition from_message (t : vty) (m : sval) : option sval :=
  match t with
  | VMsg _ => from_proto t m
  | _ => match unwrap m with Some y => from_proto t y | None => None end
  end.

(* values of a position. Int and UInt values are required to fit protobuf's 32-bit
   representation: this is the hypothesis of proto_roundtrip (the Go types int / uint
   hold 64 bits) *)
Definition is_text (p : prim) : bool := match p with PString | PBytes => true | _ => false end.

Definition fits_prim (p : prim) (v : sval) : bool :=
  match v with
  | SInt z =>
    negb (is_text p) &&
    match p with
    | PInt => (-2147483648 <=? z) && (z <? 2147483648)
    | PUInt => (0 <=? z) && (z <? 4294967296)
    | _ => true
    end
  | SStr _ => is_text p
  | _ => false
  end.

(* the same without the 32-bit bound: what the Go types admit *)
Definition typed_prim (p : prim) (v : sval) : bool :=
  match v with
  | SInt z =>
    negb (is_text p) &&
    match p with
    | PInt | PInt64 => (-9223372036854775808 <=? z) && (z <? 9223372036854775808)
    | PUInt | PUInt64 => (0 <=? z) && (z <? 18446744073709551616)
    | _ => true
    end
  | SStr _ => is_text p
  | _ => false
  end.

Fixpoint fits (t : vty) (v : sval) : bool :=
  match t with
  | VPrim p => fits_prim p v
  | VOpt p => match v with SNil => true | _ => fits_prim p v end
  | VArr e => match v with SList l => forallb (fits e) l | _ => false end
  | VMap kt e => match v with SMap l => forallb (fun kv => fits kt (fst kv) && fits e (snd kv)) l | _ => false end
  | VMsg fs =>
    match v with
    | SNil => true
    | SObj l =>
      (fix go (fs : list vty) (l : list sval) : bool :=
         match fs, l with
         | [], [] => true
         | f :: fs', x :: l' => fits f x && go fs' l'
         | _, _ => false
         end) fs l
    | _ => false
    end
  end.
