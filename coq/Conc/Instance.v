(* C20 — the instance: the footprint that translate/c20 extracted from the goa source
   tree (anchored runtime files + generated server/client packages) on THIS run obeys
   the locking discipline, hence no interleaving of any number of concurrent requests
   (each goroutine serving any sequence of request bodies) reaches a race.
   The proof is one boolean computation on Generated_footprint.v; an unprotected write
   introduced on the request path makes [vm_compute; reflexivity] fail. *)
From Coq Require Import List Arith Bool.
Import ListNotations.
From Conc Require Import Model Lemmas Properties Generated_footprint.

Definition program_of_footprint : prog := fp_bodies.

Theorem goa_request_path_race_free :
  forall P, Forall (session fp_bodies) P -> forall s, reach P s -> ~ race P s.
Proof. apply checked_pool_race_free; vm_compute; reflexivity. Qed.
Print Assumptions goa_request_path_race_free.

(* one goroutine per extracted path, all started together *)
Corollary goa_footprint_program_race_free :
  forall s, reach program_of_footprint s -> ~ race program_of_footprint s.
Proof.
  apply goa_request_path_race_free. apply incl_sessions. apply incl_refl.
Qed.
Print Assumptions goa_footprint_program_race_free.

(* any number of goroutines, each running any one extracted path *)
Corollary goa_any_number_of_requests_race_free :
  forall P, incl P fp_bodies -> forall s, reach P s -> ~ race P s.
Proof. intros P H. apply goa_request_path_race_free. now apply incl_sessions. Qed.
Print Assumptions goa_any_number_of_requests_race_free.

(* Isolation discipline: every write that request-phase code performs on a shared location
   (plain, atomic, sync.Map / sync.Pool, opaque mutator calls) hits a location that
   translate/c20/shared_writes.json classifies as memo table, monotone helper state or
   request-private storage. A new "remember something from this request in shared state"
   write — racy or not — makes this fail. It is a discipline check (it feeds memo_isolation
   for the memo class), NOT a noninterference proof about values. *)
Theorem goa_request_path_isolated : isolated fp_bodies fp_opaque_writes fp_write_classes.
Proof. apply isolation_checker_sound; vm_compute; reflexivity. Qed.
Print Assumptions goa_request_path_isolated.

(* the instance is not vacuous: the extraction saw locations that do need a lock (the
   pattern cache, the sampler's window start) and found the mutex protecting each *)
Example footprint_has_locked_locations :
  2 <=? length (need_list fp_bodies) = true /\
  length (infer_prot fp_bodies) = length (need_list fp_bodies) /\ unprotected fp_bodies = [].
Proof. split; [|split]; vm_compute; reflexivity. Qed.
