(* C20 — the instance: the footprint that translate/c20 extracted from the goa source
   tree (anchored runtime files + generated server/client packages) on THIS run obeys
   the locking discipline, hence no interleaving of any number of concurrent requests
   (each goroutine serving any sequence of request bodies) reaches a race.
   The proof is one boolean computation on Generated_footprint.v; an unprotected write
   introduced on the request path makes [vm_compute; reflexivity] fail. *)
From Coq Require Import List Arith Bool.
Import ListNotations.
From Conc Require Import Model Lemmas Properties Generated_footprint.

Definition program_of_footprint : prog := fp_bodies.

Theorem goa_request_path_race_free :
  forall P, Forall (session fp_bodies) P -> forall s, reach P s -> ~ race P s.
Proof. apply checked_pool_race_free; vm_compute; reflexivity. Qed.
Print Assumptions goa_request_path_race_free.

(* one goroutine per extracted path, all started together *)
Corollary goa_footprint_program_race_free :
  forall s, reach program_of_footprint s -> ~ race program_of_footprint s.
Proof.
  apply goa_request_path_race_free. apply incl_sessions. apply incl_refl.
Qed.
Print Assumptions goa_footprint_program_race_free.

(* any number of goroutines, each running any one extracted path *)
Corollary goa_any_number_of_requests_race_free :
  forall P, incl P fp_bodies -> forall s, reach P s -> ~ race P s.
Proof. intros P H. apply goa_request_path_race_free. now apply incl_sessions. Qed.
Print Assumptions goa_any_number_of_requests_race_free.

(* Isolation discipline: every write that request-phase code performs on a shared location
   (plain, atomic, sync.Map / sync.Pool, opaque mutator calls) hits a location that
   translate/c20/shared_writes.json classifies as memo table, monotone helper state or
   request-private storage. A new "remember something from this request in shared state"
   write — racy or not — makes this fail. It is a discipline check (it feeds memo_isolation
   for the memo class), NOT a noninterference proof about values. *)
Theorem goa_request_path_isolated : isolated fp_bodies fp_opaque_writes fp_write_classes.
Proof. apply isolation_checker_sound; vm_compute; reflexivity. Qed.
Print Assumptions goa_request_path_isolated.

(* Semantic isolation for the request bodies that share only read-only state: the locations
   that request-phase code may change are those written by an extracted action plus the
   classified opaque objects other than the ones contracted safe/read-only (WSync). Whatever
   the data semantics, a request whose access skeleton is one of [fp_isolated_bodies] ends, in
   every interleaving with any number of requests drawn from the footprint, with exactly the
   registers it has when it runs alone. *)
Definition fp_mutable_extra : list nat :=
  map fst (filter (fun p => match snd p with WSync => false | _ => true end) fp_write_classes).
Definition fp_isolated_bodies : list thread :=
  isolated_bodies fp_bodies (written_locs fp_bodies ++ fp_mutable_extra).

Theorem goa_read_only_sharing_bodies_isolated (V : Type) (P : list (vthread V)) init m0 t :
  t < length P -> length init = length P ->
  (forall t', t' < length P -> exists b, In b fp_bodies /\ vaccs V (nth t' P []) = accs b) ->
  (exists b, In b fp_isolated_bodies /\ vaccs V (nth t P []) = accs b) ->
  forall s, vreach V P init m0 s ->
  nth t (vrs V s) [] = fst (solo V (nth t P []) (nth t init []) m0 (nth t (vpc V s) 0)).
Proof. exact (pool_value_isolation V fp_bodies fp_mutable_extra P init m0 t). Qed.
Print Assumptions goa_read_only_sharing_bodies_isolated.

(* most extracted bodies are of that kind (all generated handler / encoder / decoder closures) *)
Example footprint_mostly_read_only_sharing :
  length fp_bodies * 8 <=? length fp_isolated_bodies * 10 = true.
Proof. vm_compute; reflexivity. Qed.

(* the instance is not vacuous: the extraction saw locations that do need a lock (the
   pattern cache, the sampler's window start) and found the mutex protecting each *)
Example footprint_has_locked_locations :
  2 <=? length (need_list fp_bodies) = true /\
  length (infer_prot fp_bodies) = length (need_list fp_bodies) /\ unprotected fp_bodies = [].
Proof. split; [|split]; vm_compute; reflexivity. Qed.
