(* C20 — property statements only. Every theorem is closed by a lemma of Lemmas.v
   and followed by Print Assumptions; the Examples show the statements are not
   vacuous (races are reachable without the discipline, readers really overlap). *)
From Coq Require Import List Arith Bool Lia.
Import ListNotations.
From Conc Require Import Model Lemmas.

(* Lockset soundness: for every program (any number of threads, any actions), if
   every location that is written and non-atomically accessed has one mutex that is
   held exclusively at each of its writes and at least in read mode at each of its
   reads, then no state reachable under any interleaving has two threads about to
   perform conflicting accesses. *)
Theorem lockset_sound P prot : disciplined P prot -> forall s, reach P s -> ~ race P s.
Proof. exact (lockset_sound_lemma P prot). Qed.
Print Assumptions lockset_sound.

(* The discipline is a property of the pool of request bodies: any number of
   concurrent requests, each running any body of a disciplined pool, never race. *)
Theorem lockset_sound_pool B prot P : disciplined B prot -> incl P B ->
  forall s, reach P s -> ~ race P s.
Proof. exact (lockset_sound_pool_lemma B prot P). Qed.
Print Assumptions lockset_sound_pool.

(* ... and so do goroutines that each serve any sequence of requests one after the
   other, provided every body releases what it acquires. *)
Theorem lockset_sound_sessions B prot P : disciplined B prot -> Forall balanced B ->
  Forall (session B) P -> forall s, reach P s -> ~ race P s.
Proof. exact (lockset_sound_sessions_lemma B prot P). Qed.
Print Assumptions lockset_sound_sessions.

(* The boolean checker that is run on the footprint extracted from the source
   implies the discipline. *)
Theorem discipline_checker_sound B prot : disciplinedb B prot = true -> disciplined B prot.
Proof. exact (disciplinedb_sound B prot). Qed.
Print Assumptions discipline_checker_sound.

Theorem checked_pool_race_free B :
  disciplinedb_auto B = true -> forallb balancedb B = true ->
  forall P, Forall (session B) P -> forall s, reach P s -> ~ race P s.
Proof. exact (checked_pool_race_free_lemma B). Qed.
Print Assumptions checked_pool_race_free.

(* Isolation for a memoising cache (the pattern cache: cache[k] := F k): under every
   interleaving of any number of requests, each finished request holds the value of
   its own key — the value it ends with when it runs alone. *)
Theorem memo_isolation (V : Type) (F : nat -> V) keys s : mreach V F keys s ->
  forall t k v, nth_error (fst s) t = Some (k, MDone V v) ->
  v = F k /\ exists s1, mreach V F [k] s1 /\ nth_error (fst s1) 0 = Some (k, MDone V v).
Proof.
  intros H t k v Hn. pose proof (memo_isolation_lemma V F keys s H t k v Hn) as ->.
  split; [reflexivity|]. eexists. split; [apply memo_alone|reflexivity].
Qed.
Print Assumptions memo_isolation.

(* Isolation DISCIPLINE (not a noninterference proof): the boolean check run on the extracted
   footprint implies that every request-phase write to a shared location — plain or atomic —
   and every opaque mutation hits a location that the committed table classifies as memo
   (then memo_isolation applies), monotone helper state, or request-private storage. *)
Theorem isolation_checker_sound B opaque cls : isolatedb B opaque cls = true -> isolated B opaque cls.
Proof. exact (isolatedb_sound B opaque cls). Qed.
Print Assumptions isolation_checker_sound.

(* Recycled objects (sync.Pool): whatever earlier requests left in the object, if every field
   the response shows is written by this request after Get, the response is a function of this
   request's own values ... *)
Theorem pool_reuse_isolated (V : Type) (o : pobj V) ws rs (own : nat -> V) :
  (forall f, In f rs -> In f ws) -> pobserve V (pfill V o ws own) rs = map own rs.
Proof. exact (pool_reuse_lemma V o ws rs own). Qed.
Print Assumptions pool_reuse_isolated.

(* ... and it is not when one shown field is left as found (the shape of an error response
   struct recycled without resetting its temporary / timeout flags). *)
Theorem pool_reuse_partial_init_refuted :
  exists (o : pobj bool) ws rs own, ~ (forall f, In f rs -> In f ws) /\
    pobserve bool (pfill bool o ws own) rs <> map own rs.
Proof.
  exists (fun _ => true), [0; 1; 2; 5], [0; 1; 2; 3; 4; 5], (fun _ => false). split.
  - intro H. specialize (H 3 (or_intror (or_intror (or_intror (or_introl eq_refl))))).
    simpl in H. intuition discriminate.
  - vm_compute. discriminate.
Qed.
Print Assumptions pool_reuse_partial_init_refuted.


(* SEMANTIC isolation on a machine with values (registers private to the request, shared
   memory): if nobody else writes what request t reads, then in EVERY reachable state of every
   interleaving with any number of other requests, t's registers (decoded payload, response
   under construction) are exactly those of t running alone from the initial memory for the
   same number of its own steps. Other requests may write anything else, t may write anything. *)
Theorem value_isolation (V : Type) (P : list (vthread V)) init m0 t :
  t < length P -> length init = length P -> undisturbed V P t ->
  forall s, vreach V P init m0 s ->
  nth t (vrs V s) [] = fst (solo V (nth t P []) (nth t init []) m0 (nth t (vpc V s) 0)).
Proof. exact (value_isolation_lemma V P init m0 t). Qed.
Print Assumptions value_isolation.

(* ... in terms of access skeletons: whatever the data semantics, a request whose skeleton is
   a body of the pool that reads no location the pool may write is isolated. *)
Theorem pool_value_isolation (V : Type) (B : list thread) (extra : list nat)
  (P : list (vthread V)) init m0 t :
  t < length P -> length init = length P ->
  (forall t', t' < length P -> exists b, In b B /\ vaccs V (nth t' P []) = accs b) ->
  (exists b, In b (isolated_bodies B (written_locs B ++ extra)) /\ vaccs V (nth t P []) = accs b) ->
  forall s, vreach V P init m0 s ->
  nth t (vrs V s) [] = fst (solo V (nth t P []) (nth t init []) m0 (nth t (vpc V s) 0)).
Proof. exact (pool_value_isolation_lemma V B extra P init m0 t). Qed.
Print Assumptions pool_value_isolation.

(* The hypothesis is needed: a request that reads what another one writes (a "last value"
   variable) ends with a value it never has alone. *)
Theorem value_isolation_disturbed_refuted :
  exists (P : list (vthread nat)) init m0 t s, t < length P /\ length init = length P /\
    vreach nat P init m0 s /\
    nth t (vrs nat s) [] <> fst (solo nat (nth t P []) (nth t init []) m0 (nth t (vpc nat s) 0)).
Proof.
  exists [[VRead nat 0 7]; [VWrite nat 7 (fun _ => 1)]], [[0]; [0]], (fun _ => 0), 0.
  eexists. split; [simpl; lia|]. split; [reflexivity|]. split.
  - eapply vr_step; [eapply vr_step; [apply vr_init|]|].
    + apply (vs_step nat _ _ _ _ 1 (VWrite nat 7 (fun _ => 1))); [simpl; lia|reflexivity].
    + apply (vs_step nat _ _ _ _ 0 (VRead nat 0 7)); [simpl; lia|reflexivity].
  - vm_compute. discriminate.
Qed.
Print Assumptions value_isolation_disturbed_refuted.

(* ---------- non-vacuity ---------- *)

(* the shape of goa.ValidatePattern: read under RLock, write under Lock *)
Definition cache_req : thread := [RLk 1; Acc 1 false; RUlk 1; Lk 1; Acc 1 true; Ulk 1].

Example cache_disciplined : disciplinedb_auto [cache_req] = true /\ balancedb cache_req = true.
Proof. split; vm_compute; reflexivity. Qed.

Example cache_race_free n s : reach (repeat cache_req n) s -> ~ race (repeat cache_req n) s.
Proof.
  apply (checked_pool_race_free [cache_req]); try (vm_compute; reflexivity).
  apply incl_sessions. intros th Hin. apply repeat_spec in Hin. subst. now left.
Qed.

(* read mode is really shared: two requests are both inside the read section *)
Example readers_overlap : exists s, reach [cache_req; cache_req] s /\
  instr [cache_req; cache_req] (fst s) 0 = Some (Acc 1 false) /\
  instr [cache_req; cache_req] (fst s) 1 = Some (Acc 1 false).
Proof.
  eexists. split.
  - eapply r_step; [eapply r_step; [apply r_init|]|].
    + apply (s_rlk _ _ _ 0 1 []); [simpl; lia|reflexivity|reflexivity].
    + apply (s_rlk _ _ _ 1 1 [0]); [simpl; lia|reflexivity|reflexivity].
  - split; reflexivity.
Qed.

(* the same request without the read lock (the mutation "remove RLock/RUnlock"):
   the checker rejects it and a race is reachable *)
Definition racy_req : thread := [Acc 1 false; Lk 1; Acc 1 true; Ulk 1].

Example racy_rejected : disciplinedb_auto [racy_req] = false /\ unprotected [racy_req] = [1].
Proof. split; vm_compute; reflexivity. Qed.

Example racy_race_reachable : exists s, reach [racy_req; racy_req] s /\ race [racy_req; racy_req] s.
Proof.
  eexists. split.
  - eapply r_step; [eapply r_step; [apply r_init|]|].
    + apply (s_acc _ _ _ 1 1 false); [simpl; lia|reflexivity].
    + apply (s_lk _ _ _ 1 1); [simpl; lia|reflexivity|reflexivity].
  - exists 0, 1, (Acc 1 false), (Acc 1 true), 1. simpl. repeat split; auto.
Qed.

(* a write under the read lock only is rejected too (mode matters) *)
Example write_under_rlock_rejected :
  disciplinedb_auto [[RLk 1; Acc 1 true; RUlk 1]] = false.
Proof. vm_compute; reflexivity. Qed.

(* mixing atomic writes with plain reads of one location is a race *)
Example mixed_atomic_plain_rejected :
  disciplinedb_auto [[AAcc 1 true]; [Acc 1 false]] = false /\
  disciplinedb_auto [[AAcc 1 true]; [AAcc 1 false]] = true.
Proof. split; vm_compute; reflexivity. Qed.

(* the shape of goahttp.ErrorEncoder before d17a564: the per-request closure writes
   the captured variable *)
Example captured_write_rejected :
  disciplinedb_auto [[Acc 7 false; Acc 7 true; Acc 7 false]] = false.
Proof. vm_compute; reflexivity. Qed.

Example two_writers x : exists s, reach [[Acc x true]; [Acc x true]] s /\ race [[Acc x true]; [Acc x true]] s.
Proof. eexists. exact (two_writers_race x). Qed.

(* "remember the last negotiated value" in an atomic variable: no race, not isolated *)
Example atomic_last_value_not_isolated :
  disciplinedb_auto [[AAcc 9 true; AAcc 9 false]] = true /\
  isolatedb [[AAcc 9 true; AAcc 9 false]] [] [(1, WMemo)] = false /\
  unclassified_writes [[AAcc 9 true; AAcc 9 false]] [] [(1, WMemo)] = [9].
Proof. repeat split. Qed.

Example classified_memo_isolated :
  isolatedb [cache_req] [] [(1, WMemo)] = true /\ isolatedb [cache_req] [3] [(1, WMemo)] = false.
Proof. split; reflexivity. Qed.

(* of three bodies, the one that reads what another writes is not among the isolated ones *)
Example read_only_sharing_isolated :
  let B := [[Acc 3 false; Acc 4 false]; [Acc 9 true]; [Acc 4 false; Acc 9 false]] in
  isolated_bodies B (written_locs B ++ []) = [[Acc 3 false; Acc 4 false]; [Acc 9 true]].
Proof. reflexivity. Qed.
