(* C20 — proofs about the lockset machine of Model.v. *)
From Coq Require Import List Arith Bool Lia.
Import ListNotations.
From Conc Require Import Model.

(* ---------- small list facts ---------- *)

Fixpoint cnt (x : nat) (l : list nat) : nat :=
  match l with [] => 0 | y :: r => (if Nat.eqb x y then 1 else 0) + cnt x r end.

Lemma cnt_remove1_same x l : cnt x (remove1 x l) = pred (cnt x l).
Proof.
  induction l as [|y r IH]; [reflexivity|]. simpl.
  destruct (Nat.eqb x y) eqn:E; simpl; [reflexivity|]. rewrite E. simpl. exact IH.
Qed.

Lemma cnt_remove1_other x y l : x <> y -> cnt y (remove1 x l) = cnt y l.
Proof.
  intro Hne. induction l as [|z r IH]; [reflexivity|]. simpl.
  destruct (Nat.eqb x z) eqn:E.
  - apply Nat.eqb_eq in E. subst z.
    destruct (Nat.eqb y x) eqn:E2; [apply Nat.eqb_eq in E2; congruence|reflexivity].
  - simpl. now rewrite IH.
Qed.

Lemma In_cnt x l : In x l -> 1 <= cnt x l.
Proof.
  induction l as [|y r IH]; [contradiction|]. intros [->|H]; simpl.
  - rewrite Nat.eqb_refl. lia.
  - specialize (IH H). lia.
Qed.

Lemma memb_In x l : memb x l = true <-> In x l.
Proof.
  induction l as [|y r IH]; simpl; [split; [discriminate|contradiction]|].
  rewrite orb_true_iff, IH, Nat.eqb_eq. split; intros [H|H]; auto.
Qed.

Lemma firstn_S_nth {A} (l : list A) n a : nth_error l n = Some a -> firstn (S n) l = firstn n l ++ [a].
Proof.
  revert n; induction l as [|b l IH]; intros [|n] H; simpl in *; try discriminate.
  - now injection H as ->.
  - now rewrite (IH n H).
Qed.

Lemma nth_set_nth_eq l i v : i < length l -> nth i (set_nth l i v) 0 = v.
Proof. revert i; induction l as [|a l IH]; intros [|i] H; simpl in *; try lia; try reflexivity. apply IH; lia. Qed.

Lemma nth_set_nth_neq l i j v : i <> j -> nth j (set_nth l i v) 0 = nth j l 0.
Proof. revert i j; induction l as [|a l IH]; intros [|i] [|j] H; simpl; try reflexivity; try congruence. apply IH; congruence. Qed.

Lemma length_set_nth l i v : length (set_nth l i v) = length l.
Proof. revert i; induction l as [|a l IH]; intros [|i]; simpl; auto. Qed.

Lemma nth_repeat0 n t : nth t (repeat 0 n) 0 = 0.
Proof. revert t. induction n; destruct t; simpl; auto. Qed.

(* ---------- static held sets ---------- *)

Lemma held_after_app l1 l2 h : held_after (l1 ++ l2) h = held_after l2 (held_after l1 h).
Proof. revert h; induction l1 as [|a l IH]; intro h; simpl; [reflexivity|apply IH]. Qed.

Lemma held_step th pc a : nth_error th pc = Some a ->
  held_at th (S pc) = step_held a (held_at th pc).
Proof. intro H. unfold held_at. rewrite (firstn_S_nth _ _ _ H), held_after_app. reflexivity. Qed.

(* ---------- the invariant: static held sets are included in the dynamic mutex state ---------- *)

Definition readers_count (ms : mstate) (t : nat) : nat :=
  match ms with MW _ => 0 | MR rs => cnt t rs end.

Definition inv (P : prog) (s : state) : Prop :=
  length (fst s) = length P /\
  forall t m, t < length P ->
    (In m (fst (held_at (nth t P []) (nth t (fst s) 0))) -> snd s m = MW t) /\
    cnt m (snd (held_at (nth t P []) (nth t (fst s) 0))) <= readers_count (snd s m) t.

Lemma inv_init P : inv P (init P).
Proof.
  split; [apply repeat_length|]. intros t m Ht. cbn [fst snd init].
  rewrite nth_repeat0. unfold held_at. simpl. split; [contradiction|lia].
Qed.

(* what one step does to the static held set of each thread *)
Lemma held_bump P pc t t' a : length pc = length P -> t < length P ->
  instr P pc t = Some a ->
  held_at (nth t' P []) (nth t' (bump pc t) 0) =
  if Nat.eqb t t' then step_held a (held_at (nth t P []) (nth t pc 0))
  else held_at (nth t' P []) (nth t' pc 0).
Proof.
  intros Hlen Ht Hi. unfold bump. destruct (Nat.eqb t t') eqn:E.
  - apply Nat.eqb_eq in E. subst t'. rewrite nth_set_nth_eq by lia. now apply held_step.
  - apply Nat.eqb_neq in E. now rewrite nth_set_nth_neq.
Qed.

Lemma inv_step P s s' : inv P s -> step P s s' -> inv P s'.
Proof.
  intros [Hlen Hinv] Hst.
  inversion Hst as [pc ls t x w Ht Hi | pc ls t x w Ht Hi | pc ls t m Ht Hi Hfree
                   | pc ls t m Ht Hi Hown | pc ls t m rs Ht Hi Hrd | pc ls t m rs Ht Hi Hrd Hin];
    subst; cbn [fst snd] in *;
    (split; [cbn [fst]; unfold bump; rewrite length_set_nth; assumption|]);
    intros t' m' Ht'; cbn [fst snd];
    rewrite (held_bump P pc t t' _ Hlen Ht Hi);
    destruct (Hinv t' m' Ht') as [HW' HR']; destruct (Hinv t m' Ht) as [HWt HRt].
  (* Acc, AAcc: nothing changes *)
  1,2: destruct (Nat.eqb t t') eqn:Et;
       [apply Nat.eqb_eq in Et; subst t'; cbn [step_held]; split; assumption | split; assumption].
  all: destruct (Hinv t' m Ht') as [HWm' HRm']; destruct (Hinv t m Ht) as [HWm HRm];
    destruct (Nat.eqb t t') eqn:Et;
    try (apply Nat.eqb_eq in Et; subst t'); try apply Nat.eqb_neq in Et;
    cbn [step_held fst snd]; unfold upd.
  (* Lk m by t, same thread *)
  - destruct (Nat.eqb m' m) eqn:Em.
    + apply Nat.eqb_eq in Em. subst m'. split; [reflexivity|].
      rewrite Hfree in HRm. simpl in *. lia.
    + split; [|assumption]. intros [Heq|Hin]; [apply Nat.eqb_neq in Em; congruence|auto].
  (* Lk m by t, other thread *)
  - destruct (Nat.eqb m' m) eqn:Em.
    + apply Nat.eqb_eq in Em. subst m'. split.
      * intro Hin. specialize (HWm' Hin). congruence.
      * rewrite Hfree in HRm'. simpl in *. lia.
    + split; assumption.
  (* Ulk m by t, same thread *)
  - destruct (Nat.eqb m' m) eqn:Em.
    + apply Nat.eqb_eq in Em. subst m'. split.
      * intro Hin. apply in_remove in Hin. destruct Hin as [_ Hne]. congruence.
      * rewrite Hown in HRm. simpl in *. lia.
    + split; [|assumption]. intro Hin. apply in_remove in Hin. destruct Hin as [Hin _]. auto.
  (* Ulk m by t, other thread *)
  - destruct (Nat.eqb m' m) eqn:Em.
    + apply Nat.eqb_eq in Em. subst m'. split.
      * intro Hin. specialize (HWm' Hin). congruence.
      * rewrite Hown in HRm'. simpl in *. lia.
    + split; assumption.
  (* RLk m by t, same thread *)
  - destruct (Nat.eqb m' m) eqn:Em.
    + apply Nat.eqb_eq in Em. subst m'. split.
      * intro Hin. specialize (HWm Hin). congruence.
      * rewrite Hrd in HRm. simpl in *. rewrite !Nat.eqb_refl. lia.
    + split; [assumption|]. simpl. rewrite Em. simpl. assumption.
  (* RLk m by t, other thread *)
  - destruct (Nat.eqb m' m) eqn:Em.
    + apply Nat.eqb_eq in Em. subst m'. split.
      * intro Hin. specialize (HWm' Hin). congruence.
      * rewrite Hrd in HRm'. simpl in *.
        destruct (Nat.eqb t' t) eqn:E2; [apply Nat.eqb_eq in E2; congruence|]. simpl. assumption.
    + split; assumption.
  (* RUlk m by t, same thread *)
  - destruct (Nat.eqb m' m) eqn:Em.
    + apply Nat.eqb_eq in Em. subst m'. split.
      * intro Hin'. specialize (HWm Hin'). congruence.
      * rewrite Hrd in HRm. simpl in *. rewrite !cnt_remove1_same. lia.
    + split; [assumption|]. apply Nat.eqb_neq in Em. rewrite cnt_remove1_other by congruence. assumption.
  (* RUlk m by t, other thread *)
  - destruct (Nat.eqb m' m) eqn:Em.
    + apply Nat.eqb_eq in Em. subst m'. split.
      * intro Hin'. specialize (HWm' Hin'). congruence.
      * rewrite Hrd in HRm'. simpl in *. rewrite cnt_remove1_other by assumption. assumption.
    + split; assumption.
Qed.

Lemma inv_reach P s : reach P s -> inv P s.
Proof. induction 1; [apply inv_init | eapply inv_step; eauto]. Qed.

(* ---------- soundness of the discipline ---------- *)

Lemma nth_In_prog (P : prog) t : t < length P -> In (nth t P []) P.
Proof. intro H. now apply nth_In. Qed.

Lemma protected_excl P s t1 t2 m a1 a2 :
  inv P s -> t1 <> t2 -> t1 < length P -> t2 < length P ->
  acc_write a1 = true ->
  protected m a1 (held_at (nth t1 P []) (nth t1 (fst s) 0)) ->
  protected m a2 (held_at (nth t2 P []) (nth t2 (fst s) 0)) -> False.
Proof.
  intros [_ Hinv] Hne H1 H2 Hw P1 P2. unfold protected in *. rewrite Hw in P1.
  destruct (Hinv t1 m H1) as [W1 _]. destruct (Hinv t2 m H2) as [W2 R2].
  specialize (W1 P1).
  destruct (acc_write a2).
  - specialize (W2 P2). congruence.
  - destruct P2 as [P2|P2]; [specialize (W2 P2); congruence|].
    apply In_cnt in P2. rewrite W1 in R2. simpl in R2. lia.
Qed.

Theorem lockset_sound_lemma P prot : disciplined P prot -> forall s, reach P s -> ~ race P s.
Proof.
  intros Hd s Hr (t1 & t2 & a1 & a2 & x & Hne & H1 & H2 & I1 & I2 & L1 & L2 & Hw & Hp).
  pose proof (inv_reach _ _ Hr) as Hinv.
  unfold instr in I1, I2.
  pose proof (nth_In_prog P t1 H1) as In1. pose proof (nth_In_prog P t2 H2) as In2.
  assert (needs_lock P x) as Hn.
  { split.
    - apply orb_true_iff in Hw. destruct Hw as [Hw|Hw].
      + exists (nth t1 P []), (nth t1 (fst s) 0), a1. auto.
      + exists (nth t2 P []), (nth t2 (fst s) 0), a2. auto.
    - apply orb_true_iff in Hp. destruct Hp as [Hp|Hp].
      + exists (nth t1 P []), (nth t1 (fst s) 0), a1. auto.
      + exists (nth t2 P []), (nth t2 (fst s) 0), a2. auto. }
  pose proof (Hd _ _ _ _ In1 I1 L1 Hn) as P1.
  pose proof (Hd _ _ _ _ In2 I2 L2 Hn) as P2.
  apply orb_true_iff in Hw. destruct Hw as [Hw|Hw].
  - exact (protected_excl P s t1 t2 _ a1 a2 Hinv Hne H1 H2 Hw P1 P2).
  - exact (protected_excl P s t2 t1 _ a2 a1 Hinv (not_eq_sym Hne) H2 H1 Hw P2 P1).
Qed.

(* the discipline of a pool of request bodies carries over to every program whose
   threads are drawn from the pool (any number of threads, any repetition) *)
Lemma written_incl P B x : incl P B -> written P x -> written B x.
Proof. intros Hi (th & i & a & H & R). exists th, i, a. split; [now apply Hi|assumption]. Qed.
Lemma plain_incl P B x : incl P B -> plainly_accessed P x -> plainly_accessed B x.
Proof. intros Hi (th & i & a & H & R). exists th, i, a. split; [now apply Hi|assumption]. Qed.

Lemma disciplined_incl P B prot : incl P B -> disciplined B prot -> disciplined P prot.
Proof.
  intros Hi Hd th i a x Hin Hn Hl [Hw Hp]. apply (Hd th i a x); auto.
  split; [eapply written_incl|eapply plain_incl]; eauto.
Qed.

Theorem lockset_sound_pool_lemma B prot P : disciplined B prot -> incl P B ->
  forall s, reach P s -> ~ race P s.
Proof. intros Hd Hi. apply (lockset_sound_lemma P prot). eapply disciplined_incl; eauto. Qed.

(* ---------- sessions ---------- *)

Lemma session_pos B th : Forall balanced B -> session B th ->
  forall i a, nth_error th i = Some a ->
  exists b j, In b B /\ nth_error b j = Some a /\ held_at th i = held_at b j.
Proof.
  intros Hb Hs. induction Hs as [|b th Hin Hs IH]; intros i a Hn.
  - destruct i; discriminate.
  - destruct (Nat.lt_ge_cases i (length b)) as [Hlt|Hge].
    + exists b, i. rewrite nth_error_app1 in Hn by assumption. repeat split; auto.
      unfold held_at. rewrite firstn_app.
      replace (i - length b) with 0 by lia. simpl. now rewrite app_nil_r.
    + rewrite nth_error_app2 in Hn by assumption.
      destruct (IH _ _ Hn) as (b' & j & Hb' & Hj & Hh). exists b', j. repeat split; auto.
      rewrite <- Hh. unfold held_at. rewrite firstn_app, firstn_all2 by assumption.
      rewrite held_after_app.
      rewrite Forall_forall in Hb. specialize (Hb b Hin). unfold balanced in Hb. now rewrite Hb.
Qed.

Lemma disciplined_sessions B prot P : disciplined B prot -> Forall balanced B ->
  Forall (session B) P -> disciplined P prot.
Proof.
  intros Hd Hb Hs th i a x Hin Hn Hl [Hw Hp].
  rewrite Forall_forall in Hs.
  destruct (session_pos B th Hb (Hs th Hin) i a Hn) as (b & j & Hb' & Hj & Hh).
  rewrite Hh. apply (Hd b j a x); auto. split.
  - destruct Hw as (th' & i' & a' & Hin' & Hn' & R).
    destruct (session_pos B th' Hb (Hs th' Hin') i' a' Hn') as (b2 & j2 & ? & ? & _).
    exists b2, j2, a'. auto.
  - destruct Hp as (th' & i' & a' & Hin' & Hn' & R).
    destruct (session_pos B th' Hb (Hs th' Hin') i' a' Hn') as (b2 & j2 & ? & ? & _).
    exists b2, j2, a'. auto.
Qed.

Theorem lockset_sound_sessions_lemma B prot P : disciplined B prot -> Forall balanced B ->
  Forall (session B) P -> forall s, reach P s -> ~ race P s.
Proof. intros Hd Hb Hs. apply (lockset_sound_lemma P prot). eapply disciplined_sessions; eauto. Qed.

(* ---------- the boolean checker is sound ---------- *)

Lemma protectedb_sound m a h : protectedb m a h = true -> protected m a h.
Proof.
  unfold protectedb, protected. destruct (acc_write a).
  - apply memb_In.
  - rewrite orb_true_iff, !memb_In. auto.
Qed.

Lemma check_thread_sound need prot th : forall h, check_thread need prot th h = true ->
  forall i a x, nth_error th i = Some a -> acc_loc a = Some x -> need x = true ->
    protectedb (prot x) a (held_after (firstn i th) h) = true.
Proof.
  induction th as [|a0 r IH]; intros h Hc i a x Hn Hl Hneed.
  - destruct i; discriminate.
  - simpl in Hc. apply andb_true_iff in Hc. destruct Hc as [Hhd Htl].
    destruct i as [|i]; simpl in *.
    + injection Hn as ->. rewrite Hl, Hneed in Hhd. exact Hhd.
    + exact (IH _ Htl i a x Hn Hl Hneed).
Qed.

Lemma writes_of_In th i a x : nth_error th i = Some a -> acc_loc a = Some x -> acc_write a = true ->
  In x (writes_of th).
Proof.
  intros Hn Hl Hw. unfold writes_of. apply in_flat_map. exists a. split; [eapply nth_error_In; eauto|].
  rewrite Hl, Hw. now left.
Qed.

Lemma accessesb_true f x a : acc_loc a = Some x -> f a = true -> accessesb f x a = true.
Proof. intros Hl Hf. unfold accessesb. now rewrite Hl, Nat.eqb_refl, Hf. Qed.

Lemma needs_lockb_complete B x : needs_lock B x -> needs_lockb B x = true.
Proof.
  intros [(th & i & a & Hin & Hn & Hl & Hw) (th' & i' & a' & Hin' & Hn' & Hl' & Hp)].
  unfold needs_lockb, writtenb, plainb. apply andb_true_iff. split; apply existsb_exists.
  - exists th. split; [assumption|]. apply existsb_exists. exists a.
    split; [eapply nth_error_In; eauto|now apply accessesb_true].
  - exists th'. split; [assumption|]. apply existsb_exists. exists a'.
    split; [eapply nth_error_In; eauto|now apply accessesb_true].
Qed.

Lemma In_nodup_nat x l : In x l -> In x (nodup_nat l).
Proof.
  induction l as [|y r IH]; [contradiction|]. simpl. intros [->|H].
  - destruct (memb x r) eqn:E; [apply IH; now apply memb_In|now left].
  - destruct (memb y r); [auto|right; auto].
Qed.

Lemma need_list_complete B x : needs_lock B x -> memb x (need_list B) = true.
Proof.
  intros Hn. pose proof (needs_lockb_complete B x Hn) as Hb.
  unfold needs_lockb in Hb. apply andb_true_iff in Hb. destruct Hb as [_ Hp].
  destruct Hn as [(th & i & a & Hin & Hnth & Hl & Hw) _].
  apply memb_In. unfold need_list. apply filter_In. split; [|exact Hp].
  unfold written_locs. apply In_nodup_nat. apply in_flat_map. exists th. split; [assumption|].
  eapply writes_of_In; eauto.
Qed.

Theorem disciplinedb_sound B prot : disciplinedb B prot = true -> disciplined B prot.
Proof.
  intros Hc th i a x Hin Hn Hl Hneed. unfold disciplinedb in Hc.
  rewrite forallb_forall in Hc. specialize (Hc th Hin).
  apply protectedb_sound. unfold held_at.
  exact (check_thread_sound _ _ _ _ Hc i a x Hn Hl (need_list_complete B x Hneed)).
Qed.

Theorem disciplinedb_auto_sound B : disciplinedb_auto B = true -> exists prot, disciplined B prot.
Proof. intro H. eexists. apply disciplinedb_sound. exact H. Qed.

Lemma balancedb_sound th : balancedb th = true -> balanced th.
Proof.
  unfold balancedb, balanced. destruct (held_after th ([], [])) as [[|? ?] [|? ?]]; simpl; try discriminate. reflexivity.
Qed.

Lemma forallb_balanced B : forallb balancedb B = true -> Forall balanced B.
Proof. rewrite forallb_forall, Forall_forall. intros H th Hin. apply balancedb_sound. auto. Qed.

(* what the instance uses: one boolean computation gives race freedom of every
   program made of sessions over the pool *)
Theorem checked_pool_race_free_lemma B :
  disciplinedb_auto B = true -> forallb balancedb B = true ->
  forall P, Forall (session B) P -> forall s, reach P s -> ~ race P s.
Proof.
  intros Hd Hb P HP. destruct (disciplinedb_auto_sound B Hd) as [prot Hp].
  exact (lockset_sound_sessions_lemma B prot P Hp (forallb_balanced B Hb) HP).
Qed.

Lemma session_single B b : In b B -> session B b.
Proof. intro H. rewrite <- (app_nil_r b). apply ses_app; [assumption|apply ses_nil]. Qed.

Lemma incl_sessions B P : incl P B -> Forall (session B) P.
Proof. intro Hi. apply Forall_forall. intros th Hin. apply session_single. now apply Hi. Qed.

(* ---------- isolation discipline checker ---------- *)

Lemma classified_sound cls x : classified cls x = true -> exists c, In (x, c) cls.
Proof.
  induction cls as [|[y c] r IH]; simpl; [discriminate|].
  rewrite orb_true_iff. intros [H|H].
  - apply Nat.eqb_eq in H. subst. exists c. now left.
  - destruct (IH H) as [c' Hc]. exists c'. now right.
Qed.

Theorem isolatedb_sound B opaque cls : isolatedb B opaque cls = true -> isolated B opaque cls.
Proof.
  unfold isolatedb. rewrite andb_true_iff, !forallb_forall. intros [HB HO]. split.
  - intros th i a x Hin Hn Hl Hw. apply classified_sound.
    specialize (HB th Hin). rewrite forallb_forall in HB. apply HB. eapply writes_of_In; eauto.
  - intros x Hin. apply classified_sound. now apply HO.
Qed.

(* a pool without any request-phase shared write is trivially isolated *)
Lemma isolated_no_writes B : (forall th, In th B -> writes_of th = []) -> isolated B [] [].
Proof.
  intro H. split; [|intros x []]. intros th i a x Hin Hn Hl Hw.
  pose proof (writes_of_In th i a x Hn Hl Hw) as Hi. rewrite (H th Hin) in Hi. destruct Hi.
Qed.

(* ---------- a race is reachable when the discipline is absent (non-vacuity) ---------- *)

Lemma two_writers_race x :
  reach [[Acc x true]; [Acc x true]] (init [[Acc x true]; [Acc x true]]) /\
  race [[Acc x true]; [Acc x true]] (init [[Acc x true]; [Acc x true]]).
Proof.
  split; [apply r_init|].
  exists 0, 1, (Acc x true), (Acc x true), x. simpl. repeat split; auto.
Qed.

(* ---------- memo cache: every request sees the value of its own key ---------- *)

Section MemoProofs.
  Variable V : Type.
  Variable F : nat -> V.

  Lemma nth_error_set_mth (l : list (mthread V)) i v j x :
    nth_error (set_mth V l i v) j = Some x -> (j = i /\ x = v) \/ nth_error l j = Some x.
  Proof.
    revert i j; induction l as [|a l IH]; intros [|i] [|j] H; simpl in *; auto; try discriminate.
    - injection H as <-. auto.
    - destruct (IH i j H) as [[-> ->]|H']; auto.
  Qed.

  Definition minv (s : mstate_ V) : Prop :=
    (forall k v, snd s k = Some v -> v = F k) /\
    (forall t k v, nth_error (fst s) t = Some (k, MDone V v) -> v = F k).

  Lemma minv_init keys : minv (minit V keys).
  Proof.
    split; cbn [fst snd minit]; [discriminate|]. intros t k v H.
    apply nth_error_In, in_map_iff in H. destruct H as (k' & E & _). discriminate.
  Qed.

  Lemma minv_step s s' : minv s -> mstep V F s s' -> minv s'.
  Proof.
    intros [Hc Ht] Hst. inversion Hst as [ths c t k v Hn Hhit | ths c t k Hn Hmiss | ths c t k Hn];
      subst; cbn [fst snd] in *; split; auto.
    - intros t' k' v' H. cbn [fst snd] in H. apply nth_error_set_mth in H. destruct H as [[_ E]|H]; [|eauto].
      injection E as -> ->. eauto.
    - intros t' k' v' H. cbn [fst snd] in H. apply nth_error_set_mth in H. destruct H as [[_ E]|H]; [discriminate|eauto].
    - intros k' v' H. cbn [fst snd] in H. unfold mupd in H. destruct (Nat.eqb k' k) eqn:E; [|eauto].
      apply Nat.eqb_eq in E. subst. now injection H as <-.
    - intros t' k' v' H. cbn [fst snd] in H. apply nth_error_set_mth in H. destruct H as [[_ E]|H]; [|eauto].
      now injection E as -> ->.
  Qed.

  Theorem memo_isolation_lemma keys s : mreach V F keys s ->
    forall t k v, nth_error (fst s) t = Some (k, MDone V v) -> v = F k.
  Proof.
    intro H. assert (minv s) as [_ Hm]; [|exact Hm].
    induction H; [apply minv_init|eapply minv_step; eauto].
  Qed.

  (* the same request running alone ends with the same value *)
  Lemma memo_alone k : mreach V F [k] ([(k, MDone V (F k))], mupd V (fun _ => None) k (F k)).
  Proof.
    apply (mr_step V F [k] ([(k, MMiss V)], fun _ => None)).
    - apply (mr_step V F [k] (minit V [k])); [apply mr_init|].
      exact (m_miss V F [(k, MStart V)] (fun _ => None) 0 k eq_refl eq_refl).
    - exact (m_store V F [(k, MMiss V)] (fun _ => None) 0 k eq_refl).
  Qed.
End MemoProofs.

(* ---------- recycled objects ---------- *)

Lemma pool_reuse_lemma (V : Type) (o : pobj V) ws rs (own : nat -> V) :
  (forall f, In f rs -> In f ws) -> pobserve V (pfill V o ws own) rs = map own rs.
Proof.
  intro H. unfold pobserve. apply map_ext_in. intros f Hf. unfold pfill.
  destruct (memb f ws) eqn:E; [reflexivity|].
  apply H, memb_In in Hf. congruence.
Qed.

(* ---------- semantic isolation on the value machine ---------- *)

Section ValueProofs.
  Variable V : Type.

  Lemma vrun_snoc (l : list (vaction V)) a s : vrun V (l ++ [a]) s = vexec V a (vrun V l s).
  Proof. revert s; induction l as [|b l IH]; intro s; simpl; [reflexivity|apply IH]. Qed.

  Lemma solo_S th rg m k a : nth_error th k = Some a ->
    solo V th rg m (S k) = vexec V a (solo V th rg m k).
  Proof. intro H. unfold solo. rewrite (firstn_S_nth _ _ _ H). apply vrun_snoc. Qed.

  Lemma nth_set_regs_eq (l : list (vregs V)) i v : i < length l -> nth i (set_regs V l i v) [] = v.
  Proof. revert i; induction l as [|a l IH]; intros [|i] H; simpl in *; try lia; try reflexivity. apply IH; lia. Qed.

  Lemma nth_set_regs_neq (l : list (vregs V)) i j v : i <> j -> nth j (set_regs V l i v) [] = nth j l [].
  Proof. revert i j; induction l as [|a l IH]; intros [|i] [|j] H; simpl; try reflexivity; try congruence. apply IH; congruence. Qed.

  Lemma length_set_regs (l : list (vregs V)) i v : length (set_regs V l i v) = length l.
  Proof. revert i; induction l as [|a l IH]; intros [|i]; simpl; auto. Qed.

  (* for the fixed request t: its registers and the memory it reads are those of its solo run *)
  Definition vinv (P : list (vthread V)) (init : list (vregs V)) (m0 : vmem V) (t : nat) (s : vstate V) : Prop :=
    length (vpc V s) = length P /\ length (vrs V s) = length P /\
    nth t (vrs V s) [] = fst (solo V (nth t P []) (nth t init []) m0 (nth t (vpc V s) 0)) /\
    forall x, vreads V (nth t P []) x ->
      snd s x = snd (solo V (nth t P []) (nth t init []) m0 (nth t (vpc V s) 0)) x.

  Lemma vinv_step P init m0 t s s' : t < length P -> undisturbed V P t ->
    vinv P init m0 t s -> vstep V P s s' -> vinv P init m0 t s'.
  Proof.
    intros Ht Hu (Hl1 & Hl2 & Hr & Hm) Hst.
    inversion Hst as [pc rs m t' a Ht' Hi]; subst. unfold vinv, vpc, vrs in *; cbn [fst snd] in *.
    split; [unfold bump; rewrite length_set_nth; assumption|].
    split; [rewrite length_set_regs; assumption|].
    destruct (Nat.eq_dec t' t) as [->|Hne].
    - (* the request itself steps: same action on the same registers and read values *)
      unfold bump. rewrite nth_set_nth_eq by lia. rewrite nth_set_regs_eq by lia.
      rewrite (solo_S _ _ _ _ _ Hi).
      set (so := solo V (nth t P []) (nth t init []) m0 (nth t pc 0)) in *.
      destruct a as [r x|x f|r f|]; cbn [vexec fst snd].
      + assert (m x = snd so x) as E by (apply Hm; exists (nth t pc 0), r; exact Hi).
        rewrite Hr, E. split; [reflexivity|exact Hm].
      + rewrite Hr. split; [reflexivity|]. intros y Hy. unfold updm.
        destruct (Nat.eqb y x); [reflexivity|auto].
      + rewrite Hr. split; [reflexivity|exact Hm].
      + split; assumption.
    - (* another request steps: it does not write what t reads *)
      unfold bump. rewrite nth_set_nth_neq by assumption. rewrite nth_set_regs_neq by assumption.
      split; [assumption|]. intros y Hy.
      destruct a as [r x|x f|r f|]; cbn [vexec fst snd]; auto.
      unfold updm. destruct (Nat.eqb y x) eqn:E; [|auto].
      apply Nat.eqb_eq in E. subst y. exfalso.
      apply (Hu x Hy t' Ht' Hne). exists (nth t' pc 0), f. exact Hi.
  Qed.

  Theorem value_isolation_lemma P init m0 t : t < length P -> length init = length P ->
    undisturbed V P t -> forall s, vreach V P init m0 s ->
    nth t (vrs V s) [] = fst (solo V (nth t P []) (nth t init []) m0 (nth t (vpc V s) 0)).
  Proof.
    intros Ht Hlen Hu s Hr. assert (vinv P init m0 t s) as (_ & _ & H & _); [|exact H].
    induction Hr as [|s s' _ IH Hst]; [|exact (vinv_step P init m0 t s s' Ht Hu IH Hst)].
    unfold vinv, vpc, vrs; cbn [fst snd]. rewrite nth_repeat0.
    repeat split; auto using repeat_length.
  Qed.

  (* skeleton facts *)
  Lemma vreads_vaccs th x : vreads V th x -> In (x, false) (vaccs V th).
  Proof.
    intros (i & r & H). unfold vaccs. apply in_flat_map. exists (VRead V r x).
    split; [eapply nth_error_In; eauto|now left].
  Qed.
  Lemma vwrites_vaccs th x : vwrites V th x -> In (x, true) (vaccs V th).
  Proof.
    intros (i & f & H). unfold vaccs. apply in_flat_map. exists (VWrite V x f).
    split; [eapply nth_error_In; eauto|now left].
  Qed.
End ValueProofs.

Lemma accs_read_In b x : In (x, false) (accs b) -> In x (reads_of b).
Proof.
  unfold accs, reads_of. rewrite !in_flat_map. intros (a & Ha & Hin). exists a. split; [assumption|].
  destruct (acc_loc a) as [y|]; [|destruct Hin]. destruct Hin as [E|[]]. injection E as -> Hw. rewrite Hw. now left.
Qed.
Lemma accs_write_In b x : In (x, true) (accs b) -> In x (writes_of b).
Proof.
  unfold accs, writes_of. rewrite !in_flat_map. intros (a & Ha & Hin). exists a. split; [assumption|].
  destruct (acc_loc a) as [y|]; [|destruct Hin]. destruct Hin as [E|[]]. injection E as -> Hw. rewrite Hw. now left.
Qed.

Lemma writes_in_written_locs B b x : In b B -> In x (writes_of b) -> In x (written_locs B).
Proof. intros Hb Hx. unfold written_locs. apply In_nodup_nat. apply in_flat_map. exists b. auto. Qed.

(* a value program whose bodies have the access skeletons of a pool B: a request whose
   skeleton is one of the read-only-sharing bodies of B computes what it computes alone *)
Theorem pool_value_isolation_lemma (V : Type) (B : list thread) (extra : list nat)
  (P : list (vthread V)) init m0 t :
  t < length P -> length init = length P ->
  (forall t', t' < length P -> exists b, In b B /\ vaccs V (nth t' P []) = accs b) ->
  (exists b, In b (isolated_bodies B (written_locs B ++ extra)) /\ vaccs V (nth t P []) = accs b) ->
  forall s, vreach V P init m0 s ->
  nth t (vrs V s) [] = fst (solo V (nth t P []) (nth t init []) m0 (nth t (vpc V s) 0)).
Proof.
  intros Ht Hlen Hall (b & Hb & Eb). apply value_isolation_lemma; auto.
  intros x Hx t' Ht' Hne Hw.
  apply filter_In in Hb. destruct Hb as [_ Hf]. rewrite forallb_forall in Hf.
  apply vreads_vaccs in Hx. rewrite Eb in Hx. apply accs_read_In in Hx.
  specialize (Hf x Hx). apply negb_true_iff in Hf.
  destruct (Hall t' Ht') as (b' & Hb' & Eb').
  apply vwrites_vaccs in Hw. rewrite Eb' in Hw. apply accs_write_In in Hw.
  pose proof (writes_in_written_locs B b' x Hb' Hw) as Hin.
  assert (memb x (written_locs B ++ extra) = true) as Hm by (apply memb_In, in_or_app; now left).
  congruence.
Qed.
