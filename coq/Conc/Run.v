(* C20 — comparison glue for the correspondence of [value_isolation]: for every echo request
   the harness records a digest of the response it got while N other requests were in flight
   and a digest of the response to the same request replayed ALONE afterwards; the model says
   they are equal (a request handled by read-only-sharing bodies computes what it computes
   alone). Evaluated inside Coq on every run. *)
From Coq Require Import List NArith Bool.
Import ListNotations.

Definition solo_mismatches (cases : list (nat * N * N)) : list nat :=
  map (fun c => fst (fst c)) (filter (fun c => negb (N.eqb (snd (fst c)) (snd c))) cases).

Example solo_mismatches_example :
  solo_mismatches [(0, 5%N, 5%N); (1, 5%N, 6%N); (2, 0%N, 0%N)] = [1].
Proof. reflexivity. Qed.
