(* C20 — abstract shared-memory machine for the lockset argument.
   Definitions only; everything is computable except the step/reach relations.

   Threads are straight-line lists of actions over numbered locations and numbered
   mutexes. A program is a list of threads (thread id = position). The machine state
   is a program counter per thread plus the state of every mutex. Schedules are
   arbitrary interleavings: [step] picks any thread whose next action is enabled.

   Go constructs this stands for (see translate/c20):
     Acc x w    plain read (w=false) / write (w=true) of a shared location
     AAcc x w   sync/atomic function or method, sync.Map method (atomic access)
     Lk / Ulk   sync.Mutex.Lock/Unlock and sync.RWMutex.Lock/Unlock (exclusive)
     RLk / RUlk sync.RWMutex.RLock/RUnlock (shared)                              *)
From Coq Require Import List Arith Bool.
Import ListNotations.

Inductive action :=
| Acc  (x : nat) (w : bool)
| AAcc (x : nat) (w : bool)
| Lk   (m : nat)
| Ulk  (m : nat)
| RLk  (m : nat)
| RUlk (m : nat).

Definition thread := list action.
Definition prog := list thread.
Definition pcs := list nat.

(* state of one RW mutex: held by a writer, or by a multiset of readers
   ([MR []] = free). A plain sync.Mutex is an RW mutex that is never RLock-ed. *)
Inductive mstate := MW (t : nat) | MR (rs : list nat).
Definition lockst := nat -> mstate.
Definition state := (pcs * lockst)%type.

Definition upd (ls : lockst) (m : nat) (v : mstate) : lockst :=
  fun m' => if Nat.eqb m' m then v else ls m'.

Fixpoint set_nth (l : list nat) (i v : nat) : list nat :=
  match l, i with
  | [], _ => []
  | _ :: r, 0 => v :: r
  | a :: r, S i' => a :: set_nth r i' v
  end.

(* remove one occurrence *)
Fixpoint remove1 (x : nat) (l : list nat) : list nat :=
  match l with
  | [] => []
  | y :: r => if Nat.eqb x y then r else y :: remove1 x r
  end.

Fixpoint memb (x : nat) (l : list nat) : bool :=
  match l with [] => false | y :: r => Nat.eqb x y || memb x r end.

Definition instr (P : prog) (pc : pcs) (t : nat) : option action :=
  nth_error (nth t P []) (nth t pc 0).

Definition bump (pc : pcs) (t : nat) : pcs := set_nth pc t (S (nth t pc 0)).

Inductive step (P : prog) : state -> state -> Prop :=
| s_acc pc ls t x w : t < length P -> instr P pc t = Some (Acc x w) ->
    step P (pc, ls) (bump pc t, ls)
| s_aacc pc ls t x w : t < length P -> instr P pc t = Some (AAcc x w) ->
    step P (pc, ls) (bump pc t, ls)
| s_lk pc ls t m : t < length P -> instr P pc t = Some (Lk m) -> ls m = MR [] ->
    step P (pc, ls) (bump pc t, upd ls m (MW t))
| s_ulk pc ls t m : t < length P -> instr P pc t = Some (Ulk m) -> ls m = MW t ->
    step P (pc, ls) (bump pc t, upd ls m (MR []))
| s_rlk pc ls t m rs : t < length P -> instr P pc t = Some (RLk m) -> ls m = MR rs ->
    step P (pc, ls) (bump pc t, upd ls m (MR (t :: rs)))
| s_rulk pc ls t m rs : t < length P -> instr P pc t = Some (RUlk m) -> ls m = MR rs -> In t rs ->
    step P (pc, ls) (bump pc t, upd ls m (MR (remove1 t rs))).

Definition init (P : prog) : state := (repeat 0 (length P), fun _ => MR []).

Inductive reach (P : prog) : state -> Prop :=
| r_init : reach P (init P)
| r_step s s' : reach P s -> step P s s' -> reach P s'.

(* ---- accesses and races ---- *)

Definition acc_loc (a : action) : option nat :=
  match a with Acc x _ | AAcc x _ => Some x | _ => None end.
Definition acc_write (a : action) : bool :=
  match a with Acc _ w | AAcc _ w => w | _ => false end.
Definition acc_plain (a : action) : bool :=
  match a with Acc _ _ => true | _ => false end.

(* Two different threads are both about to access the same location, at least
   one access is a write and at least one is not atomic. *)
Definition race (P : prog) (s : state) : Prop :=
  exists t1 t2 a1 a2 x, t1 <> t2 /\ t1 < length P /\ t2 < length P /\
    instr P (fst s) t1 = Some a1 /\ instr P (fst s) t2 = Some a2 /\
    acc_loc a1 = Some x /\ acc_loc a2 = Some x /\
    (acc_write a1 || acc_write a2 = true) /\ (acc_plain a1 || acc_plain a2 = true).

(* ---- static lock sets ---- *)

(* (mutexes held in write mode, mutexes held in read mode — with multiplicity) *)
Definition heldst := (list nat * list nat)%type.

Definition step_held (a : action) (h : heldst) : heldst :=
  match a with
  | Lk m => (m :: fst h, snd h)
  | Ulk m => (remove Nat.eq_dec m (fst h), snd h)
  | RLk m => (fst h, m :: snd h)
  | RUlk m => (fst h, remove1 m (snd h))
  | _ => h
  end.

Fixpoint held_after (acts : list action) (h : heldst) : heldst :=
  match acts with
  | [] => h
  | a :: r => held_after r (step_held a h)
  end.

Definition held_at (th : thread) (i : nat) : heldst := held_after (firstn i th) ([], []).

(* ---- the locking discipline ---- *)

(* some thread of the set writes x (plainly or atomically) *)
Definition written (B : list thread) (x : nat) : Prop :=
  exists th i a, In th B /\ nth_error th i = Some a /\ acc_loc a = Some x /\ acc_write a = true.
(* some thread of the set accesses x non-atomically *)
Definition plainly_accessed (B : list thread) (x : nat) : Prop :=
  exists th i a, In th B /\ nth_error th i = Some a /\ acc_loc a = Some x /\ acc_plain a = true.

(* only such locations can be raced on *)
Definition needs_lock (B : list thread) (x : nat) : Prop := written B x /\ plainly_accessed B x.

(* a write holds the location's mutex exclusively, a read at least in read mode *)
Definition protected (m : nat) (a : action) (h : heldst) : Prop :=
  if acc_write a then In m (fst h) else In m (fst h) \/ In m (snd h).

Definition disciplined (B : list thread) (prot : nat -> nat) : Prop :=
  forall th i a x, In th B -> nth_error th i = Some a -> acc_loc a = Some x ->
    needs_lock B x -> protected (prot x) a (held_at th i).

(* ---- boolean checker (run by vm_compute on the extracted footprint) ---- *)

Definition writes_of (th : thread) : list nat :=
  flat_map (fun a => match acc_loc a with
                     | Some x => if acc_write a then [x] else []
                     | None => [] end) th.

Definition accessesb (f : action -> bool) (x : nat) (a : action) : bool :=
  match acc_loc a with Some y => Nat.eqb x y && f a | None => false end.

Definition writtenb (B : list thread) (x : nat) : bool :=
  existsb (fun th => existsb (accessesb acc_write x) th) B.
Definition plainb (B : list thread) (x : nat) : bool :=
  existsb (fun th => existsb (accessesb acc_plain x) th) B.
Definition needs_lockb (B : list thread) (x : nat) : bool := writtenb B x && plainb B x.

Definition protectedb (m : nat) (a : action) (h : heldst) : bool :=
  if acc_write a then memb m (fst h) else memb m (fst h) || memb m (snd h).

Fixpoint check_thread (need : nat -> bool) (prot : nat -> nat) (th : thread) (h : heldst) : bool :=
  match th with
  | [] => true
  | a :: r =>
      (match acc_loc a with
       | Some x => if need x then protectedb (prot x) a h else true
       | None => true
       end) && check_thread need prot r (step_held a h)
  end.

Fixpoint nodup_nat (l : list nat) : list nat :=
  match l with [] => [] | x :: r => if memb x r then nodup_nat r else x :: nodup_nat r end.

(* the locations that need a lock, computed once: written somewhere and plainly accessed
   somewhere (the translator numbers written locations first, so these are small numbers) *)
Definition written_locs (B : list thread) : list nat := nodup_nat (flat_map writes_of B).
Definition need_list (B : list thread) : list nat := filter (plainb B) (written_locs B).

Definition disciplinedb (B : list thread) (prot : nat -> nat) : bool :=
  let nl := need_list B in
  forallb (fun th => check_thread (fun x => memb x nl) prot th ([], [])) B.

(* inference of the protecting mutex: the first mutex of the program under which
   every access of the location is protected *)
Definition mutex_of (a : action) : option nat :=
  match a with Lk m | Ulk m | RLk m | RUlk m => Some m | _ => None end.

Definition mutexes (B : list thread) : list nat :=
  nodup_nat (flat_map (fun th => flat_map (fun a => match mutex_of a with Some m => [m] | None => [] end) th) B).
Definition locations (B : list thread) : list nat :=
  nodup_nat (flat_map (fun th => flat_map (fun a => match acc_loc a with Some x => [x] | None => [] end) th) B).

Definition only_loc (x : nat) (y : nat) : bool := Nat.eqb x y.

Definition loc_ok (B : list thread) (x m : nat) : bool :=
  forallb (fun th => check_thread (only_loc x) (fun _ => m) th ([], [])) B.

Fixpoint assoc (tbl : list (nat * nat)) (x : nat) : nat :=
  match tbl with
  | [] => 0
  | (y, m) :: r => if Nat.eqb x y then m else assoc r x
  end.

Definition infer_prot (B : list thread) : list (nat * nat) :=
  flat_map (fun x => match find (loc_ok B x) (mutexes B) with Some m => [(x, m)] | None => [] end) (need_list B).

Definition disciplinedb_auto (B : list thread) : bool := disciplinedb B (assoc (infer_prot B)).

(* the locations that need a lock but have none that protects every access: the
   diagnostic printed when the instance proof fails *)
Definition unprotected (B : list thread) : list nat :=
  filter (fun x => negb (existsb (loc_ok B x) (mutexes B))) (need_list B).

(* ---- isolation discipline: which shared locations request-phase code may write ---- *)

(* why a request-phase write to a shared location is acceptable:
   WMemo      a memo table, cache[k] := F k with F a function of the key (memo_isolation)
   WMonotone  counter / sampler / shutdown-flag state whose influence on later requests
              is the documented purpose of the helper
   WPrivate   storage owned by one request by construction (its own key, its own object)
   WSync      an object of a type defined outside the package (or a package-level function
              variable) that is documented / contracted safe for concurrent use; the entry
              pins the constructor or function it is bound to *)
Inductive wclass := WMemo | WMonotone | WPrivate | WSync.

Fixpoint classified (cls : list (nat * wclass)) (x : nat) : bool :=
  match cls with [] => false | (y, _) :: r => Nat.eqb x y || classified r x end.

(* every write of a request body (plain OR atomic: atomic.Store, sync.Map.Store,
   sync.Pool.Put ...) and every opaque mutation (mutator-named method called on a shared
   object whose type the translator cannot resolve) hits a classified location *)
Definition isolated (B : list thread) (opaque : list nat) (cls : list (nat * wclass)) : Prop :=
  (forall th i a x, In th B -> nth_error th i = Some a -> acc_loc a = Some x -> acc_write a = true ->
     exists c, In (x, c) cls) /\
  (forall x, In x opaque -> exists c, In (x, c) cls).

Definition isolatedb (B : list thread) (opaque : list nat) (cls : list (nat * wclass)) : bool :=
  forallb (fun th => forallb (classified cls) (writes_of th)) B && forallb (classified cls) opaque.

Definition unclassified_writes (B : list thread) (opaque : list nat) (cls : list (nat * wclass)) : list nat :=
  nodup_nat (filter (fun x => negb (classified cls x)) (flat_map writes_of B ++ opaque)).

(* ---- sessions: one goroutine serving several requests one after the other ---- *)

Definition balanced (th : thread) : Prop := held_after th ([], []) = ([], []).
Definition heldst_emptyb (h : heldst) : bool :=
  match h with ([], []) => true | _ => false end.
Definition balancedb (th : thread) : bool := heldst_emptyb (held_after th ([], [])).

(* a session is the concatenation of any number of request bodies *)
Inductive session (B : list thread) : thread -> Prop :=
| ses_nil : session B []
| ses_app b th : In b B -> session B th -> session B (b ++ th).

(* ---- memoising cache (the pattern cache): values, not only footprints ---- *)

Section Memo.
  Variable V : Type.
  Variable F : nat -> V.            (* the function being memoised, e.g. regexp.MustCompile *)

  (* a request for key k: look the key up (under the read lock), on a miss compute
     F k and store it (under the write lock), then use the value *)
  Inductive mpc := MStart | MMiss | MDone (out : V).
  Definition mthread := (nat * mpc)%type.               (* key, progress *)
  Definition mstate_ := (list mthread * (nat -> option V))%type.

  Definition mupd (c : nat -> option V) (k : nat) (v : V) : nat -> option V :=
    fun k' => if Nat.eqb k' k then Some v else c k'.

  Fixpoint set_mth (l : list mthread) (i : nat) (v : mthread) : list mthread :=
    match l, i with
    | [], _ => []
    | _ :: r, 0 => v :: r
    | a :: r, S i' => a :: set_mth r i' v
    end.

  Inductive mstep : mstate_ -> mstate_ -> Prop :=
  | m_hit ths c t k v : nth_error ths t = Some (k, MStart) -> c k = Some v ->
      mstep (ths, c) (set_mth ths t (k, MDone v), c)
  | m_miss ths c t k : nth_error ths t = Some (k, MStart) -> c k = None ->
      mstep (ths, c) (set_mth ths t (k, MMiss), c)
  | m_store ths c t k : nth_error ths t = Some (k, MMiss) ->
      mstep (ths, c) (set_mth ths t (k, MDone (F k)), mupd c k (F k)).

  Definition minit (keys : list nat) : mstate_ := (map (fun k => (k, MStart)) keys, fun _ => None).

  Inductive mreach (keys : list nat) : mstate_ -> Prop :=
  | mr_init : mreach keys (minit keys)
  | mr_step s s' : mreach keys s -> mstep s s' -> mreach keys s'.
End Memo.

(* ---- recycled objects (sync.Pool): values, not only footprints ---- *)

(* sync.Pool hands an object to one goroutine at a time, so between Get and Put a request
   owns it exclusively; what it finds in it is whatever EARLIER owners left (any content).
   A request (re)writes the fields [ws] with its own values and its response shows the
   fields [rs]. *)
Section Pool.
  Variable V : Type.
  Definition pobj := nat -> V.
  Definition pfill (o : pobj) (ws : list nat) (own : nat -> V) : pobj :=
    fun f => if memb f ws then own f else o f.
  Definition pobserve (o : pobj) (rs : list nat) : list V := map o rs.
End Pool.

(* ---- values: what a request COMPUTES (semantic isolation, not only footprints) ---- *)

(* A request body with data: registers are private to the goroutine (the request, decoded
   payload, response under construction ...), memory is shared. Locks and atomics carry no
   data here ([VSync]): blocking only removes interleavings, so a statement over all
   interleavings of this machine covers the blocking one. *)
Section Values.
  Variable V : Type.
  Definition vregs := list V.
  Inductive vaction :=
  | VRead (r x : nat)                      (* r := mem[x] *)
  | VWrite (x : nat) (f : vregs -> V)      (* mem[x] := f regs *)
  | VLocal (r : nat) (f : vregs -> V)      (* r := f regs : decoding, validation, encoding *)
  | VSync.
  Definition vthread := list vaction.
  Definition vmem := nat -> V.

  Fixpoint set_reg (l : vregs) (i : nat) (v : V) : vregs :=
    match l, i with
    | [], _ => []
    | _ :: r, 0 => v :: r
    | a :: r, S i' => a :: set_reg r i' v
    end.
  Definition get_reg (d : V) (l : vregs) (i : nat) : V := nth i l d.
  Definition updm (m : vmem) (x : nat) (v : V) : vmem := fun y => if Nat.eqb y x then v else m y.

  Definition vexec (a : vaction) (s : vregs * vmem) : vregs * vmem :=
    match a with
    | VRead r x => (set_reg (fst s) r (snd s x), snd s)
    | VWrite x f => (fst s, updm (snd s) x (f (fst s)))
    | VLocal r f => (set_reg (fst s) r (f (fst s)), snd s)
    | VSync => s
    end.
  Fixpoint vrun (acts : list vaction) (s : vregs * vmem) : vregs * vmem :=
    match acts with [] => s | a :: r => vrun r (vexec a s) end.

  (* the request running ALONE from the initial memory, after k of its own steps *)
  Definition solo (th : vthread) (rg0 : vregs) (m0 : vmem) (k : nat) : vregs * vmem :=
    vrun (firstn k th) (rg0, m0).

  Fixpoint set_regs (l : list vregs) (i : nat) (v : vregs) : list vregs :=
    match l, i with
    | [], _ => []
    | _ :: r, 0 => v :: r
    | a :: r, S i' => a :: set_regs r i' v
    end.

  Definition vstate := (pcs * list vregs * vmem)%type.
  Definition vpc (s : vstate) := fst (fst s).
  Definition vrs (s : vstate) := snd (fst s).

  Inductive vstep (P : list vthread) : vstate -> vstate -> Prop :=
  | vs_step pc rs m t a : t < length P ->
      nth_error (nth t P []) (nth t pc 0) = Some a ->
      vstep P (pc, rs, m)
        (bump pc t, set_regs rs t (fst (vexec a (nth t rs [], m))), snd (vexec a (nth t rs [], m))).

  Inductive vreach (P : list vthread) (init : list vregs) (m0 : vmem) : vstate -> Prop :=
  | vr_init : vreach P init m0 (repeat 0 (length P), init, m0)
  | vr_step s s' : vreach P init m0 s -> vstep P s s' -> vreach P init m0 s'.

  Definition vreads (th : vthread) (x : nat) : Prop := exists i r, nth_error th i = Some (VRead r x).
  Definition vwrites (th : vthread) (x : nat) : Prop := exists i f, nth_error th i = Some (VWrite x f).

  (* nobody else writes what request t reads *)
  Definition undisturbed (P : list vthread) (t : nat) : Prop :=
    forall x, vreads (nth t P []) x -> forall t', t' < length P -> t' <> t -> ~ vwrites (nth t' P []) x.

  (* the access skeleton of a value body: what translate/c20 extracts *)
  Definition vaccs (th : vthread) : list (nat * bool) :=
    flat_map (fun a => match a with VRead _ x => [(x, false)] | VWrite x _ => [(x, true)] | _ => [] end) th.
End Values.

(* accesses of a footprint body (locks dropped, atomic or not) *)
Definition accs (th : thread) : list (nat * bool) :=
  flat_map (fun a => match acc_loc a with Some x => [(x, acc_write a)] | None => [] end) th.

Definition reads_of (th : thread) : list nat :=
  flat_map (fun a => match acc_loc a with
                     | Some x => if acc_write a then [] else [x]
                     | None => [] end) th.

(* bodies of a pool that read nothing that any body of the pool (or an opaque mutation,
   list [extra]) may write *)
Definition isolated_bodies (B : list thread) (mutable : list nat) : list thread :=
  filter (fun b => forallb (fun x => negb (memb x mutable)) (reads_of b)) B.
