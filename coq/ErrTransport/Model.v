(* ErrTransport engine — executable model of how goa's generated HTTP code carries
   an error from a service method to the client (property C05):

     http/codegen/templates/error_encoder.go.tpl   dispatch on GoaErrorName via errors.As,
                                                   typed errors.As, fallback to the default encoder
     http/codegen/templates/partial/response.go.tpl  headers, goa-error header, WriteHeader, body
     http/encoding.go  ErrorEncoder                 default encoder (formatter == nil)
     http/error.go     NewErrorResponse, StatusCode  ServiceError -> ErrorResponse -> status by flags,
                                                   any other error -> Fault
     http/codegen/templates/response_decoder.go.tpl  client: switch on status, then on goa-error
     http/codegen/templates/server_handler_init.go.tpl  decode failure | endpoint error | success
     pkg/error.go      names of the request decoding failures
     net/http ResponseWriter                        WriteHeader counting, headers frozen at the first write

   Attribute values are opaque tokens (strings); what a header value becomes on its way
   to the client is a parameter [hw] (oracle for net/http).  Definitions only. *)
From Coq Require Export List Bool String Ascii Arith.
Export ListNotations.
Open Scope string_scope.

Definition fields := list (string * string).

Fixpoint lookup (k : string) (fs : fields) : option string :=
  match fs with
  | [] => None
  | (k', v) :: r => if String.eqb k k' then Some v else lookup k r
  end.

Definition mem (k : string) (ks : list string) : bool := existsb (String.eqb k) ks.

(* ---- error values a service method can return ---- *)

(* observable fields of a goa.ServiceError that travel over HTTP *)
Record core := mkcore { cname : string; cid : string; cmsg : string;
                        ctimeout : bool; ctemporary : bool; cfault : bool }.

(* how GoaErrorName() of a generated error type is computed (codegen/service errorName):
   a constant, or the value of the attribute tagged struct:error:name *)
Inductive nrule := NStatic (s : string) | NField (a : string).

(* the generated error types of the service: Go type -> name rule *)
Definition tenv := list (string * nrule).

Fixpoint nrule_of (te : tenv) (ty : string) : nrule :=
  match te with
  | [] => NStatic ty
  | (t, r) :: rest => if String.eqb ty t then r else nrule_of rest ty
  end.

(* an error value is a cause TREE: Unwrap() error (EWrap) or Unwrap() []error (EJoin) *)
Inductive goerr :=
| EPlain (msg : string)                     (* errors.New, fmt.Errorf without a goa error inside *)
| EService (c : core)                       (* *goa.ServiceError *)
| ECustom (ty : string) (fs : fields)       (* value of a generated error type, attributes that are set *)
| EWrap (w : string) (e : goerr)            (* fmt.Errorf(w + ": %w", e) *)
| EJoin (sep : string) (es : list goerr).   (* errors.Join(es...) (sep = newline) / fmt.Errorf("%w: %w", es...) (sep = ": ") *)

(* errors.As walks the tree depth first, in order, and stops at the first match *)
Definition first_some {A B} (f : A -> option B) : list A -> option B :=
  fix go l := match l with
              | [] => None
              | x :: r => match f x with Some y => Some y | None => go r end
              end.

Fixpoint join_text (sep : string) (l : list string) : string :=
  match l with
  | [] => ""
  | [x] => x
  | x :: r => x ++ sep ++ join_text sep r
  end.

Definition opt_default (o : option string) : string := match o with Some v => v | None => "" end.

Definition custom_name (te : tenv) (ty : string) (fs : fields) : string :=
  match nrule_of te ty with
  | NStatic s => s
  | NField a => opt_default (lookup a fs)
  end.

(* errors.As(v, &goa.GoaErrorNamer) followed by GoaErrorName() *)
Fixpoint as_namer (te : tenv) (e : goerr) : option string :=
  match e with
  | EPlain _ => None
  | EService c => Some (cname c)
  | ECustom ty fs => Some (custom_name te ty fs)
  | EWrap _ e' => as_namer te e'
  | EJoin _ es => first_some (as_namer te) es
  end.

(* errors.As(v, &*goa.ServiceError) *)
Fixpoint as_service (e : goerr) : option core :=
  match e with
  | EService c => Some c
  | EWrap _ e' => as_service e'
  | EJoin _ es => first_some as_service es
  | _ => None
  end.

(* errors.As(v, &<generated type ty>) *)
Fixpoint as_custom (ty : string) (e : goerr) : option fields :=
  match e with
  | ECustom ty' fs => if String.eqb ty ty' then Some fs else None
  | EWrap _ e' => as_custom ty e'
  | EJoin _ es => first_some (as_custom ty) es
  | _ => None
  end.

(* err.Error(); the text of a generated error type is its design description, a
   constant the model does not track *)
Fixpoint err_text (e : goerr) : string :=
  match e with
  | EPlain m => m
  | EService c => cmsg c
  | ECustom _ _ => "<error-text>"
  | EWrap w e' => w ++ ": " ++ err_text e'
  | EJoin sep es => join_text sep (map err_text es)
  end.

(* a tree without any goa error in it *)
Fixpoint inert (e : goerr) : bool :=
  match e with
  | EPlain _ => true
  | EService _ | ECustom _ _ => false
  | EWrap _ e' => inert e'
  | EJoin _ es => forallb inert es
  end.

(* t wraps g: g sits in t below any number of single and multiple wrappers whose other
   branches are inert *)
Inductive wraps (g : goerr) : goerr -> Prop :=
| W_here : wraps g g
| W_wrap w t : wraps g t -> wraps g (EWrap w t)
| W_join sep pre t post :
    forallb inert pre = true -> forallb inert post = true -> wraps g t ->
    wraps g (EJoin sep (pre ++ t :: post)).

(* ---- the endpoint's error table after inheritance (method, service, API) ---- *)

Inductive ekind := KDefault | KCustom (ty : string).

Inductive bodyspec :=
| BEmpty                         (* no body: every attribute travels in a header *)
| BObject (attrs : list string)  (* JSON object with these attributes *)
| BAttr (a : string)             (* Body("a"): the design asks for attribute a alone *)
| BValue.                        (* non-object error type: the value itself *)

(* attribute -> response header, and whether the client requires it *)
Record hmap := mkh { hattr : string; hname : string; hreq : bool }.

Record edecl := mkdecl { ename : string; estatus : nat; ekind_of : ekind;
                         ehdrs : list hmap; ebody : bodyspec }.

Definition find_decl (n : string) (tbl : list edecl) : option edecl :=
  find (fun d => String.eqb (ename d) n) tbl.

(* ---- how the table comes about (expr/http_endpoint.go Prepare, http_service.go Prepare,
        http_error.go Finalize, method.go Finalize): the same error name may be declared
        (Error) and mapped (HTTP Response) at method, service and API level ---- *)

Fixpoint alookup {A} (k : string) (l : list (string * A)) : option A :=
  match l with
  | [] => None
  | (k', v) :: r => if String.eqb k k' then Some v else alookup k r
  end.

Record levels := mklevels { m_decl : list (string * ekind); m_map : list (string * nat);
                            s_decl : list (string * ekind); s_map : list (string * nat);
                            a_decl : list (string * ekind); a_map : list (string * nat) }.

(* the errors a method can return: its own, then the service's *)
Definition eff_names (lv : levels) : list string :=
  (map fst (m_decl lv) ++ filter (fun n => negb (mem n (map fst (m_decl lv)))) (map fst (s_decl lv)))%list.

(* the type of the value the method returns *)
Definition method_kind (lv : levels) (n : string) : option ekind :=
  match alookup n (m_decl lv) with Some k => Some k | None => alookup n (s_decl lv) end.

(* the response: the method's mapping, else the service's, else the API's; the row
   carries the error type DECLARED AT THE LEVEL OF THE MAPPING *)
Definition pick (lv : levels) (n : string) : option (nat * option ekind) :=
  match alookup n (m_map lv) with
  | Some st => Some (st, method_kind lv n)
  | None =>
    match alookup n (s_map lv) with
    | Some st => Some (st, alookup n (s_decl lv))
    | None =>
      match alookup n (a_map lv) with
      | Some st => Some (st, alookup n (a_decl lv))
      | None => None
      end
    end
  end.

Definition effective_error_table (lv : levels) : list (string * nat * ekind) :=
  flat_map (fun n => match pick lv n with Some (st, Some k) => [(n, st, k)] | _ => [] end) (eff_names lv).

(* ---- the wire ---- *)

Inductive wbody :=
| WNone
| WObj (fs : fields)      (* JSON object *)
| WVal (v : string).      (* JSON scalar / array *)

(* calls made on the http.ResponseWriter *)
Inductive wev :=
| SetH (k v : string)
| WriteHeader (st : nat)
| WriteBody (b : wbody).

Definition b2s (b : bool) : string := if b then "true" else "false".

Definition core_fields (c : core) : fields :=
  [("name", cname c); ("id", cid c); ("message", cmsg c);
   ("temporary", b2s (ctemporary c)); ("timeout", b2s (ctimeout c)); ("fault", b2s (cfault c))].

Definition s2b (o : option string) : bool := match o with Some v => String.eqb v "true" | None => false end.

Definition core_of_fields (fs : fields) : core :=
  mkcore (opt_default (lookup "name" fs)) (opt_default (lookup "id" fs)) (opt_default (lookup "message" fs))
         (s2b (lookup "timeout" fs)) (s2b (lookup "temporary" fs)) (s2b (lookup "fault" fs)).

(* http.ErrorResponse.StatusCode (the table of the Errors engine, C18) *)
Definition unsupported_media_type := "unsupported_media_type".

Definition http_status (c : core) : nat :=
  if String.eqb (cname c) unsupported_media_type then 415
  else if cfault c then 500
  else if ctimeout c then (if ctemporary c then 504 else 408)
  else if ctemporary c then 503
  else 400.

(* NewErrorResponse on an error that is not a ServiceError: goa.Fault("%s", err.Error()) *)
Definition fault_core (msg : string) : core := mkcore "fault" "<fresh>" msg false false true.

(* goahttp.ErrorEncoder with the default formatter *)
Definition default_events (e : goerr) : list wev :=
  let c := match as_service e with Some c => c | None => fault_core (err_text e) end in
  [WriteHeader (http_status c); WriteBody (WObj (core_fields c))].

Definition goa_error_header := "Goa-Error".

Definition header_events (d : edecl) (vf : fields) : list wev :=
  flat_map (fun h => match lookup (hattr h) vf with Some v => [SetH (hname h) v] | None => [] end) (ehdrs d).

Definition body_events (d : edecl) (vf : fields) : list wev :=
  match ebody d with
  | BEmpty => []
  | BObject attrs => [WriteBody (WObj (filter (fun kv => mem (fst kv) attrs) vf))]
  | BAttr a => [WriteBody (WVal (opt_default (lookup a vf)))]   (* body := res.<Attr> (ResponseData.ResultAttr) *)
  | BValue => [WriteBody (WVal (opt_default (lookup "" vf)))]
  end.

(* one case of the generated switch *)
Definition declared_events (d : edecl) (vf : fields) (name : string) : list wev :=
  (header_events d vf ++ [SetH goa_error_header name; WriteHeader (estatus d)] ++ body_events d vf)%list.

(* the value errors.As extracts for the declared type, with its GoaErrorName() *)
Definition typed_value (te : tenv) (d : edecl) (e : goerr) : option (fields * string) :=
  match ekind_of d with
  | KDefault => match as_service e with Some c => Some (core_fields c, cname c) | None => None end
  | KCustom ty => match as_custom ty e with Some fs => Some (fs, custom_name te ty fs) | None => None end
  end.

(* Encode<Method>Error.  None: the handler panics (the typed errors.As found nothing and
   the nil value is dereferenced). *)
Definition encode_error (te : tenv) (tbl : list edecl) (e : goerr) : option (list wev) :=
  match as_namer te e with
  | None => Some (default_events e)
  | Some n =>
    match find_decl n tbl with
    | None => Some (default_events e)
    | Some d =>
      match typed_value te d e with
      | Some (vf, name) => Some (declared_events d vf name)
      | None => None
      end
    end
  end.

(* ---- request decoding failures (pkg/error.go constructors; all PermanentError) ---- *)

Inductive dfail := DMissingPayload | DDecodePayload | DMissingField | DInvalidFieldType | DUnsupportedMedia
                 | DInvalidEnum | DInvalidFormat | DInvalidPattern | DInvalidRange | DInvalidLength.

Definition dfail_name (f : dfail) : string :=
  match f with
  | DMissingPayload => "missing_payload"
  | DDecodePayload => "decode_payload"
  | DMissingField => "missing_field"
  | DInvalidFieldType => "invalid_field_type"
  | DUnsupportedMedia => "unsupported_media_type"
  | DInvalidEnum => "invalid_enum_value"
  | DInvalidFormat => "invalid_format"
  | DInvalidPattern => "invalid_pattern"
  | DInvalidRange => "invalid_range"
  | DInvalidLength => "invalid_length"
  end.

Definition dfail_core (f : dfail) : core := mkcore (dfail_name f) "<fresh>" "<text>" false false false.

(* ---- the generated request decoder's error bookkeeping (request_decoder.go.tpl,
        partial/request_elements.go.tpl): body errors return at once, parameter and header
        errors are merged into err, and a REQUIRED cookie is read by plain assignment
        `c, err = r.Cookie(name)`; the decoder ends with `if err != nil { return nil, err }` ---- *)

Inductive dstep :=
| SCheck (r : option dfail)     (* err = <decode / validate body>; if err != nil { return } *)
| SAccum (r : option dfail)     (* err = goa.MergeErrors(err, <failure>)   (None: the element is fine) *)
| SAssign (r : option dfail).   (* c, err = r.Cookie(name) *)

(* MergeErrors keeps the name of the first error *)
Fixpoint run_steps (err : option dfail) (l : list dstep) : option dfail :=
  match l with
  | [] => err
  | SCheck (Some f) :: _ => Some f
  | SCheck None :: r => run_steps err r
  | SAccum (Some f) :: r => run_steps (match err with Some g => Some g | None => Some f end) r
  | SAccum None :: r => run_steps err r
  | SAssign x :: r => run_steps x r
  end.

(* ---- the generated handler: exactly one of three paths ---- *)

Inductive hin :=
| HDecodeFail (f : dfail)
| HEndpointErr (e : goerr)
| HSuccess (st : nat) (hs : fields) (b : wbody).

Definition handler (te : tenv) (tbl : list edecl) (i : hin) : option (list wev) :=
  match i with
  | HDecodeFail f => encode_error te tbl (EService (dfail_core f))
  | HEndpointErr e => encode_error te tbl e
  | HSuccess st hs b =>
    Some (map (fun kv => SetH (fst kv) (snd kv)) hs ++ [WriteHeader st]
          ++ match b with WNone => [] | _ => [WriteBody b] end)%list
  end.

(* ---- net/http ResponseWriter ---- *)

Record wstate := mkws { ws_written : bool; ws_status : nat; ws_pending : fields;
                        ws_sent : fields; ws_body : wbody; ws_count : nat }.

Definition ws_init : wstate := mkws false 0 [] [] WNone 0.

Section Writer.
  (* what a header value looks like once it reached the client (net/http transport) *)
  Variable hw : string -> string.

  Definition commit (s : wstate) (st : nat) : wstate :=
    mkws true st (ws_pending s) (map (fun kv => (fst kv, hw (snd kv))) (ws_pending s)) (ws_body s) (S (ws_count s)).

  Definition wstep (s : wstate) (ev : wev) : wstate :=
    match ev with
    | SetH k v =>
      if ws_written s then s      (* too late: the header block is gone *)
      else mkws false (ws_status s) ((k, v) :: ws_pending s) (ws_sent s) (ws_body s) (ws_count s)
    | WriteHeader st =>
      if ws_written s
      then mkws true (ws_status s) (ws_pending s) (ws_sent s) (ws_body s) (S (ws_count s))  (* superfluous call *)
      else commit s st
    | WriteBody b =>
      let s' := if ws_written s then s else commit s 200 in   (* implicit WriteHeader(200) *)
      mkws true (ws_status s') (ws_pending s') (ws_sent s') b (ws_count s')
    end.

  Definition run_writer (evs : list wev) : wstate := fold_left wstep evs ws_init.
End Writer.

(* ---- the generated client: Decode<Method>Response on an error status ---- *)

Inductive cres :=
| CNoError
| CClientErr                               (* goahttp.ClientError: invalid_response, decoding_error, validation_error *)
| CService (c : core)
| CCustom (name : string) (fs : fields).

(* switch resp.StatusCode; with several errors on the status, switch on goa-error *)
Definition select (tbl : list edecl) (st : nat) (goa : option string) : option edecl :=
  match filter (fun d => Nat.eqb (estatus d) st) tbl with
  | [] => None
  | [d] => Some d
  | grp => find (fun d => String.eqb (ename d) (opt_default goa)) grp
  end.

Definition hdr_fields (d : edecl) (hs : fields) : fields :=
  flat_map (fun h => match lookup (hname h) hs with
                     | Some v => if String.eqb v "" then [] else [(hattr h, v)]
                     | None => [] end) (ehdrs d).

(* a required header that is absent or empty fails the client's validation *)
Definition hdr_ok (d : edecl) (hs : fields) : bool :=
  forallb (fun h => negb (hreq h) ||
                    match lookup (hname h) hs with Some v => negb (String.eqb v "") | None => false end) (ehdrs d).

Definition body_fields (d : edecl) (b : wbody) : option fields :=
  match ebody d, b with
  | BEmpty, _ => Some []
  | BObject attrs, WObj fs => Some (filter (fun kv => mem (fst kv) attrs) fs)
  | BAttr a, WVal v => Some [(a, v)]
  | BValue, WVal v => Some [("", v)]
  | _, _ => None
  end.

Definition decode_error (te : tenv) (tbl : list edecl) (w : wstate) : cres :=
  match select tbl (ws_status w) (lookup goa_error_header (ws_sent w)) with
  | None => CClientErr
  | Some d =>
    if hdr_ok d (ws_sent w) then
      match body_fields d (ws_body w) with
      | None => CClientErr
      | Some bf =>
        let fs := (hdr_fields d (ws_sent w) ++ bf)%list in
        match ekind_of d with
        | KDefault => CService (core_of_fields fs)
        | KCustom ty => CCustom (custom_name te ty fs) fs
        end
      end
    else CClientErr
  end.

(* ---- what net/http does to a header value, on the character-escaped form the
        harness prints ("\n" is the two characters backslash, n) ---- *)

Fixpoint nl_to_space (s : string) : string :=
  match s with
  | EmptyString => EmptyString
  | String "\" (String "n" r) => String " " (nl_to_space r)
  | String "\" (String "r" r) => String " " (nl_to_space r)
  | String "\" (String c r) => String "\" (String c (nl_to_space r))
  | String c r => String c (nl_to_space r)
  end.

Fixpoint trim_left (s : string) : string :=
  match s with
  | String " " r => trim_left r
  | _ => s
  end.

Fixpoint rev_string (s acc : string) : string :=
  match s with EmptyString => acc | String c r => rev_string r (String c acc) end.

Definition trim (s : string) : string :=
  rev_string (trim_left (rev_string (trim_left s) "")) "".

Definition go_hdr_wire (s : string) : string := trim (nl_to_space s).

(* ---- how a row's headers and body come about (expr/http_error.go Finalize,
        expr/http_body_types.go buildHTTPResponseBody, expr/http_response.go mapUnmappedAttrs):
        the design gives the error type, the explicit Header(attr:name) mappings and an
        optional Body override; goa computes the body (attributes not sent in headers) and,
        for the built-in ErrorResult type only, carries the attributes an overridden body
        leaves out in goa-attribute-<name> headers ---- *)

Record etype := mketype { t_default : bool;                   (* the built-in ErrorResult *)
                          t_object : bool;
                          t_attrs : list (string * bool) }.   (* attribute, required; [("", true)] for a non-object *)

Inductive bodydsl := DDefault | DEmpty | DAttr (a : string).  (* no Body | Body(Empty) | Body("a") *)

Record rawmap := mkraw { r_hdrs : list (string * string);      (* attribute, canonical header name *)
                         r_body : bodydsl }.

Definition error_result : etype :=
  mketype true true [("name", true); ("id", true); ("message", true);
                     ("temporary", true); ("timeout", true); ("fault", true)].

Definition upper (c : ascii) : ascii :=
  let n := nat_of_ascii c in
  if andb (Nat.leb 97 n) (Nat.leb n 122) then ascii_of_nat (n - 32) else c.

(* http.CanonicalHeaderKey("goa-attribute-" + name) for a lower-case attribute name *)
Definition goa_attribute_header (n : string) : string :=
  "Goa-Attribute-" ++ match n with EmptyString => EmptyString | String c r => String (upper c) r end.

Definition attr_required (ty : etype) (n : string) : bool :=
  match alookup n (t_attrs ty) with Some b => b | None => false end.

Definition explicit_hdrs (ty : etype) (raw : rawmap) : list hmap :=
  map (fun ah => mkh (fst ah) (snd ah) (attr_required ty (fst ah))) (r_hdrs raw).

(* mapUnmappedAttrs *)
Definition unmapped_hdrs (ty : etype) (raw : rawmap) : list hmap :=
  if t_default ty then
    let others := fun skip =>
      flat_map (fun nr => if mem (fst nr) (map fst (r_hdrs raw)) || skip (fst nr) then []
                          else [mkh (fst nr) (goa_attribute_header (fst nr)) (snd nr)]) (t_attrs ty) in
    match r_body raw with
    | DDefault => []
    | DEmpty => others (fun _ => false)
    | DAttr a => others (String.eqb a)
    end
  else [].

Definition finalize_hdrs (ty : etype) (raw : rawmap) : list hmap :=
  (explicit_hdrs ty raw ++ unmapped_hdrs ty raw)%list.

(* buildHTTPResponseBody *)
Definition finalize_body (ty : etype) (raw : rawmap) : bodyspec :=
  match r_body raw with
  | DEmpty => BEmpty
  | DAttr a => BAttr a
  | DDefault =>
    if t_object ty then
      match filter (fun n => negb (mem n (map fst (r_hdrs raw)))) (map fst (t_attrs ty)) with
      | [] => BEmpty
      | rest => BObject rest
      end
    else match r_hdrs raw with [] => BValue | _ => BEmpty end
  end.

Definition finalize_row (n : string) (st : nat) (k : ekind) (ty : etype) (raw : rawmap) : edecl :=
  mkdecl n st k (finalize_hdrs ty raw) (finalize_body ty raw).
