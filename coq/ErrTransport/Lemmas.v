(* Proofs about the ErrTransport model.  Property statements live in Properties.v. *)
From ErrTransport Require Import Model.
From Coq Require Import Lia.

(* ------------------------------------------------------------------ lookup *)

Lemma lookup_app k a b :
  lookup k (a ++ b)%list = match lookup k a with Some v => Some v | None => lookup k b end.
Proof.
  induction a as [|[k' v] a IH]; simpl; [reflexivity|].
  destruct (String.eqb k k'); [reflexivity|exact IH].
Qed.

Lemma lookup_filter_key (q : string -> bool) k l :
  lookup k (filter (fun kv : string * string => q (fst kv)) l) = if q k then lookup k l else None.
Proof.
  induction l as [|[k' v] l IH]; simpl.
  - destruct (q k); reflexivity.
  - destruct (q k') eqn:Hq; simpl.
    + destruct (String.eqb k k') eqn:E; [|exact IH].
      apply String.eqb_eq in E. subst k'. rewrite Hq. reflexivity.
    + destruct (String.eqb k k') eqn:E; [|exact IH].
      apply String.eqb_eq in E. subst k'. rewrite Hq in *. rewrite IH. reflexivity.
Qed.

Lemma lookup_In k v l : lookup k l = Some v -> In (k, v) l.
Proof.
  induction l as [|[k' v'] l IH]; simpl; [discriminate|].
  destruct (String.eqb k k') eqn:E.
  - intro H. injection H as <-. apply String.eqb_eq in E. subst. left. reflexivity.
  - intro H. right. apply IH, H.
Qed.

Lemma lookup_None_notin k l : lookup k l = None -> ~ In k (map fst l).
Proof.
  induction l as [|[k' v'] l IH]; simpl; [tauto|].
  destruct (String.eqb k k') eqn:E; [discriminate|].
  intros H [Hk|Hin].
  - subst k'. rewrite String.eqb_refl in E. discriminate.
  - exact (IH H Hin).
Qed.

Lemma notin_lookup_None k l : ~ In k (map fst l) -> lookup k l = None.
Proof.
  induction l as [|[k' v'] l IH]; simpl; [reflexivity|].
  intro H. destruct (String.eqb k k') eqn:E.
  - apply String.eqb_eq in E. subst. exfalso. apply H. left. reflexivity.
  - apply IH. intro Hin. apply H. right. exact Hin.
Qed.

Lemma In_lookup k v l : NoDup (map fst l) -> In (k, v) l -> lookup k l = Some v.
Proof.
  induction l as [|[k' v'] l IH]; simpl; [tauto|].
  intros Hnd [Heq|Hin].
  - injection Heq as -> ->. rewrite String.eqb_refl. reflexivity.
  - inversion Hnd as [|? ? Hni Hnd']; subst.
    destruct (String.eqb k k') eqn:E.
    + apply String.eqb_eq in E. subst k'. exfalso. apply Hni.
      change k with (fst (k, v)). apply in_map. exact Hin.
    + apply IH; assumption.
Qed.

Lemma lookup_rev k l : NoDup (map fst l) -> lookup k (rev l) = lookup k l.
Proof.
  intro Hnd.
  assert (Hnd' : NoDup (map fst (rev l))) by (rewrite map_rev; apply NoDup_rev; exact Hnd).
  destruct (lookup k l) as [v|] eqn:E.
  - apply In_lookup; [exact Hnd'|]. apply -> in_rev. apply lookup_In. exact E.
  - apply notin_lookup_None. rewrite map_rev. intro Hin. apply in_rev in Hin.
    exact (lookup_None_notin _ _ E Hin).
Qed.

Lemma lookup_map_snd (f : string -> string) k l :
  lookup k (map (fun kv : string * string => (fst kv, f (snd kv))) l) = option_map f (lookup k l).
Proof.
  induction l as [|[k' v'] l IH]; simpl; [reflexivity|].
  destruct (String.eqb k k'); [reflexivity|exact IH].
Qed.

Lemma flat_map_ext_in {A B} (f g : A -> list B) l :
  (forall a, In a l -> f a = g a) -> flat_map f l = flat_map g l.
Proof.
  induction l as [|a l IH]; simpl; [reflexivity|].
  intro H. rewrite (H a (or_introl eq_refl)). rewrite IH; [reflexivity|].
  intros b Hb. apply H. right. exact Hb.
Qed.

(* ------------------------------------------------------------ errors.As *)

(* induction over cause trees *)
Section goerr_ind2.
  Variable P : goerr -> Prop.
  Hypothesis HPl : forall m, P (EPlain m).
  Hypothesis HSe : forall c, P (EService c).
  Hypothesis HCu : forall ty fs, P (ECustom ty fs).
  Hypothesis HWr : forall w e, P e -> P (EWrap w e).
  Hypothesis HJo : forall sep es, Forall P es -> P (EJoin sep es).
  Fixpoint goerr_ind2 (e : goerr) : P e :=
    match e with
    | EPlain m => HPl m
    | EService c => HSe c
    | ECustom ty fs => HCu ty fs
    | EWrap w e' => HWr w e' (goerr_ind2 e')
    | EJoin sep es =>
      HJo sep es ((fix go (l : list goerr) : Forall P l :=
                     match l with
                     | [] => Forall_nil P
                     | x :: r => Forall_cons x (goerr_ind2 x) (go r)
                     end) es)
    end.
End goerr_ind2.

Lemma first_some_none {A B} (f : A -> option B) l :
  first_some f l = None <-> forall x, In x l -> f x = None.
Proof.
  induction l as [|a l IH]; simpl.
  - split; [intros _ x []|reflexivity].
  - destruct (f a) eqn:E.
    + split; [discriminate|]. intro H. rewrite (H a (or_introl eq_refl)) in E. discriminate.
    + rewrite IH. split.
      * intros H x [<-|Hx]; [exact E|apply H, Hx].
      * intros H x Hx. apply H. right. exact Hx.
Qed.

Lemma first_some_app {A B} (f : A -> option B) l1 l2 :
  first_some f (l1 ++ l2)%list = match first_some f l1 with Some y => Some y | None => first_some f l2 end.
Proof.
  induction l1 as [|a l1 IH]; simpl; [reflexivity|].
  destruct (f a); [reflexivity|exact IH].
Qed.

Lemma as_namer_none_no_service te e : as_namer te e = None -> as_service e = None.
Proof.
  induction e using goerr_ind2; simpl; intro H0; try reflexivity; try discriminate.
  - apply IHe, H0.
  - apply first_some_none. intros x Hx. rewrite Forall_forall in H.
    apply (H x Hx). exact (proj1 (first_some_none _ _) H0 x Hx).
Qed.

(* an inert tree holds nothing errors.As could find *)
Lemma inert_nothing te e :
  inert e = true -> as_namer te e = None /\ as_service e = None /\ forall ty, as_custom ty e = None.
Proof.
  induction e using goerr_ind2; simpl; intro Hi; try discriminate.
  - repeat split.
  - exact (IHe Hi).
  - rewrite Forall_forall in H. rewrite forallb_forall in Hi.
    repeat split; [| |intro ty]; apply first_some_none; intros x Hx;
      destruct (H x Hx (Hi x Hx)) as [H1 [H2 H3]]; [exact H1|exact H2|exact (H3 ty)].
Qed.

Lemma first_some_inert {B} (f : goerr -> option B) l :
  (forall x, In x l -> f x = None) -> first_some f l = None.
Proof. intro H. apply first_some_none. exact H. Qed.

(* errors.As sees through every wrapper tree *)
Lemma wraps_as te g t :
  wraps g t ->
  as_namer te t = as_namer te g /\ as_service t = as_service g /\ forall ty, as_custom ty t = as_custom ty g.
Proof.
  induction 1 as [|w t Hw IH|sep pre t post Hpre Hpost Hw IH].
  - repeat split.
  - simpl. exact IH.
  - destruct IH as [H1 [H2 H3]].
    rewrite forallb_forall in Hpre, Hpost.
    assert (Np : forall x, In x pre -> as_namer te x = None /\ as_service x = None /\ forall ty, as_custom ty x = None)
      by (intros x Hx; apply inert_nothing, Hpre, Hx).
    assert (Nq : forall x, In x post -> as_namer te x = None /\ as_service x = None /\ forall ty, as_custom ty x = None)
      by (intros x Hx; apply inert_nothing, Hpost, Hx).
    simpl. repeat split; [| |intro ty]; rewrite first_some_app; simpl.
    + rewrite (first_some_inert (as_namer te) pre) by (intros x Hx; apply (Np x Hx)).
      rewrite H1. destruct (as_namer te g); [reflexivity|].
      apply first_some_inert. intros x Hx. apply (Nq x Hx).
    + rewrite (first_some_inert as_service pre) by (intros x Hx; apply (Np x Hx)).
      rewrite H2. destruct (as_service g); [reflexivity|].
      apply first_some_inert. intros x Hx. apply (Nq x Hx).
    + rewrite (first_some_inert (as_custom ty) pre) by (intros x Hx; apply (Np x Hx)).
      rewrite H3. destruct (as_custom ty g); [reflexivity|].
      apply first_some_inert. intros x Hx. apply (Nq x Hx).
Qed.

(* ------------------------------------------------------------ the table *)

Lemma find_unique (p : edecl -> bool) l d :
  In d l -> p d = true -> (forall x, In x l -> p x = true -> x = d) -> find p l = Some d.
Proof.
  induction l as [|a l IH]; simpl; [tauto|].
  intros Hin Hp Hu. destruct (p a) eqn:Ea.
  - f_equal. apply Hu; [left; reflexivity|exact Ea].
  - destruct Hin as [->|Hin]; [rewrite Hp in Ea; discriminate|].
    apply IH; [exact Hin|exact Hp|]. intros x Hx. apply Hu. right. exact Hx.
Qed.

Lemma NoDup_map_inj {A B} (f : A -> B) l x y :
  NoDup (map f l) -> In x l -> In y l -> f x = f y -> x = y.
Proof.
  induction l as [|a l IH]; simpl; [tauto|].
  intros Hnd Hx Hy Hf. inversion Hnd as [|? ? Hni Hnd']; subst.
  destruct Hx as [->|Hx], Hy as [->|Hy].
  - reflexivity.
  - exfalso. apply Hni. rewrite Hf. apply in_map, Hy.
  - exfalso. apply Hni. rewrite <- Hf. apply in_map, Hx.
  - apply IH; assumption.
Qed.

Lemma find_decl_found tbl d :
  NoDup (map ename tbl) -> In d tbl -> find_decl (ename d) tbl = Some d.
Proof.
  intros Hnd Hin. unfold find_decl. apply find_unique.
  - exact Hin.
  - apply String.eqb_refl.
  - intros x Hx E. apply String.eqb_eq in E.
    exact (NoDup_map_inj ename tbl x d Hnd Hx Hin E).
Qed.

(* the client's two-level switch picks the row that was encoded *)
Lemma select_found_gen tbl d :
  In d tbl ->
  (forall x, In x tbl -> estatus x = estatus d -> ename x = ename d -> x = d) ->
  select tbl (estatus d) (Some (ename d)) = Some d.
Proof.
  intros Hin Hu. unfold select.
  set (grp := filter (fun d' => Nat.eqb (estatus d') (estatus d)) tbl).
  assert (Hd : In d grp) by (apply filter_In; split; [exact Hin|apply Nat.eqb_refl]).
  assert (Hf : find (fun d' => String.eqb (ename d') (opt_default (Some (ename d)))) grp = Some d).
  { apply find_unique.
    - exact Hd.
    - simpl. apply String.eqb_refl.
    - intros x Hx E. simpl in E. apply String.eqb_eq in E.
      apply filter_In in Hx. destruct Hx as [Hx Hs]. apply Nat.eqb_eq in Hs.
      apply Hu; assumption. }
  destruct grp as [|a [|b r]].
  - destruct Hd.
  - destruct Hd as [->|[]]. reflexivity.
  - exact Hf.
Qed.

Definition key (d : edecl) : nat * string := (estatus d, ename d).

Lemma select_found_pairs tbl d :
  NoDup (map key tbl) -> In d tbl -> select tbl (estatus d) (Some (ename d)) = Some d.
Proof.
  intros Hnd Hin. apply select_found_gen; [exact Hin|].
  intros x Hx Hs Hn. apply (NoDup_map_inj key tbl x d Hnd Hx Hin).
  unfold key. rewrite Hs, Hn. reflexivity.
Qed.

Lemma select_found_names tbl d :
  NoDup (map ename tbl) -> In d tbl -> select tbl (estatus d) (Some (ename d)) = Some d.
Proof.
  intros Hnd Hin. apply select_found_gen; [exact Hin|].
  intros x Hx _ Hn. exact (NoDup_map_inj ename tbl x d Hnd Hx Hin Hn).
Qed.

(* ------------------------------------------------------------ the writer *)

Definition seth (kv : string * string) : wev := SetH (fst kv) (snd kv).

Lemma fold_seth hw kvs : forall s,
  ws_written s = false ->
  fold_left (wstep hw) (map seth kvs) s =
  mkws false (ws_status s) (rev kvs ++ ws_pending s)%list (ws_sent s) (ws_body s) (ws_count s).
Proof.
  induction kvs as [|[k v] kvs IH]; intros s Hs.
  - destruct s; simpl in *; subst; reflexivity.
  - change (fold_left (wstep hw) (map seth ((k, v) :: kvs)) s)
      with (fold_left (wstep hw) (map seth kvs) (wstep hw s (SetH k v))).
    assert (E : wstep hw s (SetH k v) =
                mkws false (ws_status s) ((k, v) :: ws_pending s) (ws_sent s) (ws_body s) (ws_count s)).
    { unfold wstep. rewrite Hs. reflexivity. }
    rewrite E. rewrite IH by reflexivity. simpl. rewrite <- app_assoc. reflexivity.
Qed.

(* header name / value pairs the encoder sets for the attributes that are present *)
Definition hk (vf : fields) (l : list hmap) : fields :=
  flat_map (fun h => match lookup (hattr h) vf with Some v => [(hname h, v)] | None => [] end) l.

Lemma header_events_hk d vf : header_events d vf = map seth (hk vf (ehdrs d)).
Proof.
  unfold header_events, hk. induction (ehdrs d) as [|h l IH]; simpl; [reflexivity|].
  rewrite map_app, IH. destruct (lookup (hattr h) vf); reflexivity.
Qed.

Definition body_of (d : edecl) (vf : fields) : wbody :=
  match ebody d with
  | BEmpty => WNone
  | BObject attrs => WObj (filter (fun kv => mem (fst kv) attrs) vf)
  | BAttr a => WVal (opt_default (lookup a vf))
  | BValue => WVal (opt_default (lookup "" vf))
  end.

Definition hwf (hw : string -> string) (kv : string * string) : string * string := (fst kv, hw (snd kv)).

Definition sentP (vf : fields) (d : edecl) (nm : string) : fields :=
  ((goa_error_header, nm) :: rev (hk vf (ehdrs d)))%list.

Lemma run_declared hw d vf nm :
  run_writer hw (declared_events d vf nm) =
  mkws true (estatus d) (sentP vf d nm) (map (hwf hw) (sentP vf d nm)) (body_of d vf) 1.
Proof.
  unfold run_writer, declared_events. rewrite header_events_hk.
  rewrite fold_left_app. rewrite fold_seth by reflexivity.
  unfold body_events, body_of, hwf, sentP.
  destruct (ebody d); simpl; rewrite app_nil_r; reflexivity.
Qed.

Lemma run_default hw e :
  let c := match as_service e with Some c => c | None => fault_core (err_text e) end in
  run_writer hw (default_events e) = mkws true (http_status c) [] [] (WObj (core_fields c)) 1.
Proof. reflexivity. Qed.

Lemma run_success hw st hs b :
  ws_count (run_writer hw (map seth hs ++ [WriteHeader st] ++ match b with WNone => [] | _ => [WriteBody b] end)%list) = 1
  /\ ws_status (run_writer hw (map seth hs ++ [WriteHeader st] ++ match b with WNone => [] | _ => [WriteBody b] end)%list) = st.
Proof.
  unfold run_writer. rewrite fold_left_app. rewrite fold_seth by reflexivity.
  destruct b; split; reflexivity.
Qed.

(* ------------------------------------------------------------ headers back *)

Lemma hk_keys vf l k : In k (map fst (hk vf l)) -> In k (map hname l).
Proof.
  induction l as [|h l IH]; simpl; [tauto|].
  unfold hk in *. simpl. rewrite map_app, in_app_iff. intros [H|H].
  - destruct (lookup (hattr h) vf); simpl in H; [|tauto]. destruct H as [H|[]]. left. exact H.
  - right. apply IH, H.
Qed.

Lemma hk_NoDup vf l : NoDup (map hname l) -> NoDup (map fst (hk vf l)).
Proof.
  induction l as [|h l IH]; simpl; intro Hnd; [constructor|].
  inversion Hnd as [|? ? Hni Hnd']; subst.
  change (hk vf (h :: l)) with ((match lookup (hattr h) vf with Some v => [(hname h, v)] | None => [] end) ++ hk vf l)%list.
  destruct (lookup (hattr h) vf); simpl.
  - constructor; [|apply IH, Hnd']. intro Hin. apply Hni. exact (hk_keys _ _ _ Hin).
  - apply IH, Hnd'.
Qed.

Lemma lookup_hk vf l h :
  NoDup (map hname l) -> In h l -> lookup (hname h) (hk vf l) = lookup (hattr h) vf.
Proof.
  induction l as [|h0 l IH]; simpl; [tauto|].
  intros Hnd Hin. inversion Hnd as [|? ? Hni Hnd']; subst.
  change (hk vf (h0 :: l)) with ((match lookup (hattr h0) vf with Some v => [(hname h0, v)] | None => [] end) ++ hk vf l)%list.
  rewrite lookup_app. destruct Hin as [->|Hin].
  - destruct (lookup (hattr h) vf) as [v|] eqn:E; simpl.
    + rewrite String.eqb_refl. reflexivity.
    + apply notin_lookup_None. intro Hk. apply Hni. exact (hk_keys _ _ _ Hk).
  - assert (Hne : String.eqb (hname h) (hname h0) = false).
    { apply String.eqb_neq. intro E. apply Hni. rewrite <- E. apply in_map, Hin. }
    destruct (lookup (hattr h0) vf); simpl; [rewrite Hne|]; apply IH; assumption.
Qed.

(* attributes the client rebuilds from headers, once header values are known to arrive intact *)
Definition hf (vf : fields) (l : list hmap) : fields :=
  flat_map (fun h => match lookup (hattr h) vf with Some v => [(hattr h, v)] | None => [] end) l.

Definition is_hdr (l : list hmap) (k : string) : bool := existsb (fun h => String.eqb (hattr h) k) l.

Lemma lookup_hf vf l k : lookup k (hf vf l) = if is_hdr l k then lookup k vf else None.
Proof.
  induction l as [|h l IH]; simpl; [reflexivity|].
  change (hf vf (h :: l)) with ((match lookup (hattr h) vf with Some v => [(hattr h, v)] | None => [] end) ++ hf vf l)%list.
  rewrite lookup_app. destruct (String.eqb (hattr h) k) eqn:E; simpl.
  - apply String.eqb_eq in E. subst k.
    destruct (lookup (hattr h) vf) as [v|] eqn:Ev; simpl.
    + rewrite String.eqb_refl. reflexivity.
    + rewrite IH. destruct (is_hdr l (hattr h)); first [reflexivity|exact Ev].
  - assert (E' : String.eqb k (hattr h) = false) by (rewrite String.eqb_sym; exact E).
    destruct (lookup (hattr h) vf); simpl; [rewrite E'|]; exact IH.
Qed.

(* ------------------------------------------------------------ cores *)

Lemma core_of_fields_ext a b : (forall k, lookup k a = lookup k b) -> core_of_fields a = core_of_fields b.
Proof. intro H. unfold core_of_fields. rewrite !H. reflexivity. Qed.

Lemma core_fields_inv c : core_of_fields (core_fields c) = c.
Proof. destruct c as [n i m to te fa]. destruct to, te, fa; reflexivity. Qed.

Lemma custom_name_ext te ty a b : (forall k, lookup k a = lookup k b) -> custom_name te ty a = custom_name te ty b.
Proof. intro H. unfold custom_name. destruct (nrule_of te ty); [reflexivity|]. rewrite H. reflexivity. Qed.

(* ------------------------------------------------------------ status table *)

Lemma http_status_range c : In (http_status c) [400; 408; 415; 500; 503; 504].
Proof.
  unfold http_status. destruct (String.eqb (cname c) unsupported_media_type), (cfault c), (ctimeout c), (ctemporary c);
    simpl; tauto.
Qed.

Definition flag_table (timeout temporary fault : bool) : nat :=
  match fault, timeout, temporary with
  | true, _, _ => 500
  | false, true, true => 504
  | false, true, false => 408
  | false, false, true => 503
  | false, false, false => 400
  end.

Lemma http_status_flags c :
  cname c <> unsupported_media_type -> http_status c = flag_table (ctimeout c) (ctemporary c) (cfault c).
Proof.
  intro H. unfold http_status. apply String.eqb_neq in H. rewrite H.
  destruct (cfault c), (ctimeout c), (ctemporary c); reflexivity.
Qed.

(* ------------------------------------------------------------ the round trip *)

(* every attribute that is set is carried by a header or by the body *)
Definition maps_all (d : edecl) (vf : fields) : Prop :=
  match ebody d with
  | BEmpty => forall k, lookup k vf <> None -> is_hdr (ehdrs d) k = true
  | BObject attrs => forall k, lookup k vf <> None -> is_hdr (ehdrs d) k = true \/ mem k attrs = true
  | BAttr a => lookup a vf <> None /\
               forall k, lookup k vf <> None -> is_hdr (ehdrs d) k = true \/ k = a
  | BValue => (exists v, vf = [("", v)]) /\ ehdrs d = []
  end.

Section RoundTrip.
  Variable hw : string -> string.
  Variable te : tenv.
  Variable tbl : list edecl.
  Variable d : edecl.
  Variable vf : fields.

  Hypothesis Hhn : NoDup (map hname (ehdrs d)).
  Hypothesis Hgoa : ~ In goa_error_header (map hname (ehdrs d)).
  Hypothesis Hsafe : forall h v, In h (ehdrs d) -> lookup (hattr h) vf = Some v -> hw v = v /\ v <> "".
  Hypothesis Hreq : forall h, In h (ehdrs d) -> hreq h = true -> lookup (hattr h) vf <> None.

  Let P nm := sentP vf d nm.

  Lemma sent_lookup nm h :
    In h (ehdrs d) -> lookup (hname h) (map (hwf hw) (P nm)) = option_map hw (lookup (hattr h) vf).
  Proof.
    intro Hin. unfold hwf. rewrite lookup_map_snd. f_equal. unfold P, sentP. simpl.
    assert (Hne : String.eqb (hname h) goa_error_header = false).
    { apply String.eqb_neq. intro E. apply Hgoa. rewrite <- E. apply in_map, Hin. }
    rewrite Hne. rewrite lookup_rev by (apply hk_NoDup, Hhn). apply lookup_hk; assumption.
  Qed.

  Lemma sent_goa nm : lookup goa_error_header (map (hwf hw) (P nm)) = Some (hw nm).
  Proof. unfold P, sentP. simpl. reflexivity. Qed.

  Lemma hdr_ok_sent nm : hdr_ok d (map (hwf hw) (P nm)) = true.
  Proof.
    unfold hdr_ok. apply forallb_forall. intros h Hin. rewrite (sent_lookup nm h Hin).
    destruct (hreq h) eqn:Er; simpl; [|reflexivity].
    destruct (lookup (hattr h) vf) as [v|] eqn:Ev.
    - simpl. destruct (Hsafe h v Hin Ev) as [Hv Hne]. rewrite Hv.
      apply negb_true_iff. apply String.eqb_neq. exact Hne.
    - exfalso. exact (Hreq h Hin Er Ev).
  Qed.

  Lemma hdr_fields_sent nm : hdr_fields d (map (hwf hw) (P nm)) = hf vf (ehdrs d).
  Proof.
    unfold hdr_fields, hf. apply flat_map_ext_in. intros h Hin. rewrite (sent_lookup nm h Hin).
    destruct (lookup (hattr h) vf) as [v|] eqn:Ev; simpl; [|reflexivity].
    destruct (Hsafe h v Hin Ev) as [Hv Hne]. rewrite Hv.
    apply String.eqb_neq in Hne. rewrite Hne. reflexivity.
  Qed.

  Lemma fields_back :
    maps_all d vf ->
    exists bf, body_fields d (body_of d vf) = Some bf /\
               forall k, lookup k (hf vf (ehdrs d) ++ bf)%list = lookup k vf.
  Proof.
    unfold maps_all, body_fields, body_of. intro Hm. destruct (ebody d) as [|attrs|a|].
    - exists []. split; [reflexivity|]. intro k. rewrite app_nil_r, lookup_hf.
      destruct (is_hdr (ehdrs d) k) eqn:E; [reflexivity|].
      destruct (lookup k vf) eqn:Ek; [|reflexivity].
      assert (Hk : lookup k vf <> None) by (rewrite Ek; discriminate).
      rewrite (Hm k Hk) in E. discriminate.
    - eexists. split; [reflexivity|]. intro k. rewrite lookup_app, lookup_hf.
      rewrite (lookup_filter_key (fun x => mem x attrs)). rewrite (lookup_filter_key (fun x => mem x attrs)).
      destruct (is_hdr (ehdrs d) k) eqn:E.
      + destruct (lookup k vf) eqn:Ek; [reflexivity|]. destruct (mem k attrs); reflexivity.
      + destruct (mem k attrs) eqn:Em; [reflexivity|].
        destruct (lookup k vf) eqn:Ek; [|reflexivity].
        assert (Hk : lookup k vf <> None) by (rewrite Ek; discriminate).
        destruct (Hm k Hk) as [H|H]; [rewrite H in E|rewrite H in Em]; discriminate.
    - destruct Hm as [Ha Hm]. destruct (lookup a vf) as [v|] eqn:Ea; [|exfalso; apply Ha; reflexivity].
      simpl. eexists. split; [reflexivity|]. intro k. rewrite lookup_app, lookup_hf. simpl.
      destruct (String.eqb k a) eqn:Eka.
      + apply String.eqb_eq in Eka. subst k. rewrite Ea. destruct (is_hdr (ehdrs d) a); reflexivity.
      + destruct (is_hdr (ehdrs d) k) eqn:E.
        * destruct (lookup k vf); reflexivity.
        * destruct (lookup k vf) eqn:Ek; [|reflexivity].
          assert (Hk : lookup k vf <> None) by (rewrite Ek; discriminate).
          destruct (Hm k Hk) as [H|H]; [rewrite H in E; discriminate|].
          subst k. rewrite String.eqb_refl in Eka. discriminate.
    - destruct Hm as [[v ->] Hh]. rewrite Hh. simpl. eexists. split; [reflexivity|]. intro k. reflexivity.
  Qed.

  (* decoding the response written for row d gives back the attribute map vf *)
  Lemma decode_declared nm :
    In d tbl ->
    (forall x, In x tbl -> estatus x = estatus d -> ename x = ename d -> x = d) ->
    nm = ename d -> hw nm = nm ->
    maps_all d vf ->
    exists fs, (forall k, lookup k fs = lookup k vf) /\
      decode_error te tbl (run_writer hw (declared_events d vf nm)) =
      match ekind_of d with
      | KDefault => CService (core_of_fields fs)
      | KCustom ty => CCustom (custom_name te ty fs) fs
      end.
  Proof.
    intros Hin Hu Hnm Hwn Hm. rewrite run_declared. change (sentP vf d nm) with (P nm).
    unfold decode_error. cbn [ws_status ws_sent ws_body].
    rewrite sent_goa, Hwn, Hnm. rewrite (select_found_gen tbl d Hin Hu).
    rewrite <- Hnm. rewrite hdr_ok_sent, hdr_fields_sent.
    destruct (fields_back Hm) as [bf [Hb Hl]]. rewrite Hb.
    exists (hf vf (ehdrs d) ++ bf)%list. split; [exact Hl|reflexivity].
  Qed.
End RoundTrip.

(* ------------------------------------------------------------ statements *)

(* header values arrive as they were set and are not empty; the error name too *)
Definition wire_safe_err (hw : string -> string) (d : edecl) (vf : fields) : Prop :=
  (forall h v, In h (ehdrs d) -> lookup (hattr h) vf = Some v -> hw v = v /\ v <> "") /\ hw (ename d) = ename d.

(* the response mapping of the row is well formed for the value: distinct header names,
   none of them goa-error, required header attributes are set, every set attribute is
   mapped to a header or to the body (for Body("attribute"): that attribute is set) *)
Definition well_mapped (d : edecl) (vf : fields) : Prop :=
  NoDup (map hname (ehdrs d)) /\ ~ In goa_error_header (map hname (ehdrs d)) /\
  (forall h, In h (ehdrs d) -> hreq h = true -> lookup (hattr h) vf <> None) /\
  maps_all d vf.

Lemma roundtrip_nm hw te tbl d e vf nm :
  nm = ename d ->
  NoDup (map ename tbl) -> In d tbl ->
  as_namer te e = Some (ename d) ->
  typed_value te d e = Some (vf, nm) ->
  well_mapped d vf -> wire_safe_err hw d vf ->
  exists evs, encode_error te tbl e = Some evs /\
    let w := run_writer hw evs in
    ws_status w = estatus d /\ ws_count w = 1 /\
    lookup goa_error_header (ws_sent w) = Some (ename d) /\
    match ekind_of d with
    | KDefault => exists c, as_service e = Some c /\ decode_error te tbl w = CService c
    | KCustom ty => exists fs, decode_error te tbl w = CCustom (ename d) fs /\
                               forall k, lookup k fs = lookup k vf
    end.
Proof.
  intros Hnm Hnd Hin Hn Ht [Hhn [Hgoa [Hreq Hm]]] [Hsafe Hwn].
  exists (declared_events d vf nm). split.
  { unfold encode_error. rewrite Hn, (find_decl_found tbl d Hnd Hin), Ht. reflexivity. }
  cbv zeta.
  assert (Hu : forall x, In x tbl -> estatus x = estatus d -> ename x = ename d -> x = d).
  { intros x Hx _ E. exact (NoDup_map_inj ename tbl x d Hnd Hx Hin E). }
  assert (Hwn' : hw nm = nm) by (rewrite Hnm; exact Hwn).
  destruct (decode_declared hw te tbl d vf Hhn Hgoa Hsafe Hreq nm Hin Hu Hnm Hwn' Hm) as [fs [Hl Hd]].
  rewrite Hd. rewrite run_declared. cbn [ws_status ws_count ws_sent].
  split; [reflexivity|]. split; [reflexivity|]. split.
  { unfold sentP, hwf. simpl. rewrite Hwn'. rewrite Hnm. reflexivity. }
  unfold typed_value in Ht. destruct (ekind_of d) as [|ty].
  - destruct (as_service e) as [c|] eqn:Ec; [|discriminate]. injection Ht as <- _.
    exists c. split; [reflexivity|]. f_equal.
    rewrite (core_of_fields_ext _ _ Hl). apply core_fields_inv.
  - destruct (as_custom ty e) as [fs0|] eqn:Ec; [|discriminate]. injection Ht as <- Hc.
    exists fs. split; [|exact Hl]. f_equal.
    rewrite (custom_name_ext te ty _ _ Hl). rewrite Hc. exact Hnm.
Qed.

Lemma roundtrip hw te tbl d e vf :
  NoDup (map ename tbl) -> In d tbl ->
  as_namer te e = Some (ename d) ->
  typed_value te d e = Some (vf, ename d) ->
  well_mapped d vf -> wire_safe_err hw d vf ->
  exists evs, encode_error te tbl e = Some evs /\
    let w := run_writer hw evs in
    ws_status w = estatus d /\ ws_count w = 1 /\
    lookup goa_error_header (ws_sent w) = Some (ename d) /\
    match ekind_of d with
    | KDefault => exists c, as_service e = Some c /\ decode_error te tbl w = CService c
    | KCustom ty => exists fs, decode_error te tbl w = CCustom (ename d) fs /\
                               forall k, lookup k fs = lookup k vf
    end.
Proof. exact (roundtrip_nm hw te tbl d e vf (ename d) eq_refl). Qed.

Lemma plain_fault hw te tbl e :
  as_namer te e = None ->
  encode_error te tbl e = Some (default_events e) /\
  run_writer hw (default_events e) =
    mkws true 500 [] [] (WObj (core_fields (fault_core (err_text e)))) 1.
Proof.
  intro H. split.
  - unfold encode_error. rewrite H. reflexivity.
  - rewrite run_default. rewrite (as_namer_none_no_service te e H). reflexivity.
Qed.

Lemma undeclared_nonservice_fault hw te tbl e n :
  as_namer te e = Some n -> find_decl n tbl = None -> as_service e = None ->
  encode_error te tbl e = Some (default_events e) /\
  run_writer hw (default_events e) =
    mkws true 500 [] [] (WObj (core_fields (fault_core (err_text e)))) 1.
Proof.
  intros Hn Hf Hs. split.
  - unfold encode_error. rewrite Hn, Hf. reflexivity.
  - rewrite run_default. rewrite Hs. reflexivity.
Qed.

Lemma undeclared_service hw te tbl e n c :
  as_namer te e = Some n -> find_decl n tbl = None -> as_service e = Some c ->
  encode_error te tbl e = Some (default_events e) /\
  run_writer hw (default_events e) = mkws true (http_status c) [] [] (WObj (core_fields c)) 1.
Proof.
  intros Hn Hf Hs. split.
  - unfold encode_error. rewrite Hn, Hf. reflexivity.
  - rewrite run_default. rewrite Hs. reflexivity.
Qed.

Lemma wrapped_same te tbl g t :
  wraps g t ->
  (as_service g <> None \/ exists n d, as_namer te g = Some n /\ find_decl n tbl = Some d) ->
  encode_error te tbl t = encode_error te tbl g.
Proof.
  intros Hw H. destruct (wraps_as te g t Hw) as [H1 [H2 H3]].
  unfold encode_error. rewrite H1.
  assert (Ht : forall d, typed_value te d t = typed_value te d g).
  { intro d. unfold typed_value. rewrite H2. destruct (ekind_of d); [reflexivity|]. rewrite H3. reflexivity. }
  destruct (as_namer te g) as [n|] eqn:En.
  - destruct (find_decl n tbl) as [d|] eqn:Ef.
    + rewrite Ht. reflexivity.
    + assert (Hs : as_service g <> None).
      { destruct H as [H|[n' [d' [Hn' Hf']]]]; [exact H|].
        injection Hn' as <-. rewrite Ef in Hf'. discriminate. }
      unfold default_events. rewrite H2.
      destruct (as_service g); [reflexivity|]. exfalso. apply Hs. reflexivity.
  - exfalso. destruct H as [H|[n' [d' [Hn' _]]]]; [|discriminate].
    apply H. exact (as_namer_none_no_service te g En).
Qed.

(* an undeclared service error below any wrapper tree keeps its own status and fields *)
Lemma wrapped_undeclared_service hw te tbl c t :
  wraps (EService c) t -> find_decl (cname c) tbl = None ->
  encode_error te tbl t = Some (default_events t) /\
  run_writer hw (default_events t) = mkws true (http_status c) [] [] (WObj (core_fields c)) 1.
Proof.
  intros Hw Hf. destruct (wraps_as te _ _ Hw) as [H1 [H2 _]]. simpl in H1, H2.
  split.
  - unfold encode_error. rewrite H1, Hf. reflexivity.
  - rewrite run_default. rewrite H2. reflexivity.
Qed.

Definition dfail_status (f : dfail) : nat := match f with DUnsupportedMedia => 415 | _ => 400 end.

Lemma decode_failure hw te tbl f :
  find_decl (dfail_name f) tbl = None ->
  handler te tbl (HDecodeFail f) = Some (default_events (EService (dfail_core f))) /\
  run_writer hw (default_events (EService (dfail_core f))) =
    mkws true (dfail_status f) [] [] (WObj (core_fields (dfail_core f))) 1.
Proof.
  intro H. split.
  - unfold handler, encode_error.
    replace (as_namer te (EService (dfail_core f))) with (Some (dfail_name f)) by reflexivity.
    rewrite H. reflexivity.
  - destruct f; reflexivity.
Qed.

Lemma decode_failure_declared hw te tbl f d :
  find_decl (dfail_name f) tbl = Some d -> ekind_of d = KDefault ->
  exists evs, handler te tbl (HDecodeFail f) = Some evs /\
              ws_status (run_writer hw evs) = estatus d /\ ws_count (run_writer hw evs) = 1.
Proof.
  intros H Hk. eexists. split.
  - unfold handler, encode_error.
    replace (as_namer te (EService (dfail_core f))) with (Some (dfail_name f)) by reflexivity.
    rewrite H. unfold typed_value. rewrite Hk. simpl as_service. reflexivity.
  - rewrite run_declared. split; reflexivity.
Qed.

(* whenever the error carries a declared name, its dynamic type is the declared type *)
Definition type_consistent (te : tenv) (tbl : list edecl) (e : goerr) : Prop :=
  forall n d, as_namer te e = Some n -> find_decl n tbl = Some d -> typed_value te d e <> None.

Definition input_consistent (te : tenv) (tbl : list edecl) (i : hin) : Prop :=
  match i with
  | HSuccess _ _ _ => True
  | HDecodeFail f => type_consistent te tbl (EService (dfail_core f))
  | HEndpointErr e => type_consistent te tbl e
  end.

Lemma encode_one hw te tbl e :
  type_consistent te tbl e ->
  exists evs, encode_error te tbl e = Some evs /\ ws_count (run_writer hw evs) = 1.
Proof.
  intro Hc. unfold encode_error.
  destruct (as_namer te e) as [n|] eqn:En.
  - destruct (find_decl n tbl) as [d|] eqn:Ef.
    + destruct (typed_value te d e) as [[vf nm]|] eqn:Et.
      * eexists. split; [reflexivity|]. rewrite run_declared. reflexivity.
      * exfalso. exact (Hc n d En Ef Et).
    + eexists. split; [reflexivity|]. rewrite run_default. reflexivity.
  - eexists. split; [reflexivity|]. rewrite run_default. reflexivity.
Qed.

Lemma one_write hw te tbl i :
  input_consistent te tbl i ->
  exists evs, handler te tbl i = Some evs /\ ws_count (run_writer hw evs) = 1.
Proof.
  destruct i as [f|e|st hs b]; simpl input_consistent; intro H.
  - unfold handler. apply encode_one, H.
  - unfold handler. apply encode_one, H.
  - eexists. split; [reflexivity|].
    change (map (fun kv : string * string => SetH (fst kv) (snd kv)) hs) with (map seth hs).
    apply (run_success hw st hs b).
Qed.

(* the converse: an inconsistent input makes the handler panic *)
Lemma inconsistent_panics te tbl e n d :
  as_namer te e = Some n -> find_decl n tbl = Some d -> typed_value te d e = None ->
  handler te tbl (HEndpointErr e) = None.
Proof. intros Hn Hf Ht. unfold handler, encode_error. rewrite Hn, Hf, Ht. reflexivity. Qed.

(* ------------------------------------------------------------ the decoder's bookkeeping *)

Definition is_assign (s : dstep) : bool := match s with SAssign _ => true | _ => false end.
Definition fails (s : dstep) : bool :=
  match s with SCheck (Some _) | SAccum (Some _) => true | _ => false end.

Lemma run_steps_keeps l : forall f,
  forallb (fun s => negb (is_assign s)) l = true -> run_steps (Some f) l <> None.
Proof.
  induction l as [|s l IH]; intros f H; simpl in *; [discriminate|].
  apply andb_prop in H. destruct H as [Hs Hl].
  destruct s as [[g|]|[g|]|x]; simpl in *; try discriminate; try (apply IH; exact Hl).
Qed.

Lemma run_steps_reports l : forall err,
  forallb (fun s => negb (is_assign s)) l = true -> existsb fails l = true -> run_steps err l <> None.
Proof.
  induction l as [|s l IH]; intros err Ha Hf; simpl in *; [discriminate|].
  apply andb_prop in Ha. destruct Ha as [Hs Hl].
  destruct s as [[g|]|[g|]|x]; simpl in *; try discriminate.
  - apply IH; assumption.
  - destruct err; apply run_steps_keeps; exact Hl.
  - apply IH; assumption.
Qed.

(* ------------------------------------------------------------ the effective table *)

Lemma eff_names_returnable lv n :
  In n (eff_names lv) <-> (In n (map fst (m_decl lv)) \/ In n (map fst (s_decl lv))).
Proof.
  unfold eff_names. rewrite in_app_iff, filter_In. split.
  - intros [H|[H _]]; [left|right]; exact H.
  - intros [H|H]; [left; exact H|].
    destruct (mem n (map fst (m_decl lv))) eqn:E.
    + left. unfold mem in E. apply existsb_exists in E. destruct E as [x [Hx Ex]].
      apply String.eqb_eq in Ex. subst. exact Hx.
    + right. split; [exact H|reflexivity].
Qed.

Lemma effective_table_spec lv n st k :
  In (n, st, k) (effective_error_table lv) <->
  (In n (map fst (m_decl lv)) \/ In n (map fst (s_decl lv))) /\ pick lv n = Some (st, Some k).
Proof.
  unfold effective_error_table. rewrite in_flat_map. split.
  - intros [n' [Hn' Hin]]. destruct (pick lv n') as [[st' [k'|]]|] eqn:E; simpl in Hin; try tauto.
    destruct Hin as [Heq|[]]. injection Heq as -> -> ->.
    split; [apply eff_names_returnable, Hn'|exact E].
  - intros [Hr Hp]. exists n. split; [apply eff_names_returnable, Hr|]. rewrite Hp. left. reflexivity.
Qed.

(* every declaring level agrees on the type of the error *)
Definition levels_type_consistent (lv : levels) (n : string) : Prop :=
  forall k1 k2, In (Some k1) [alookup n (m_decl lv); alookup n (s_decl lv); alookup n (a_decl lv)] ->
                In (Some k2) [alookup n (m_decl lv); alookup n (s_decl lv); alookup n (a_decl lv)] -> k1 = k2.

Lemma row_kind_is_method_kind lv n st k :
  levels_type_consistent lv n -> In (n, st, k) (effective_error_table lv) -> method_kind lv n = Some k.
Proof.
  intros Hc Hin. apply effective_table_spec in Hin. destruct Hin as [Hr Hp].
  assert (Hm : exists km, method_kind lv n = Some km).
  { unfold method_kind. destruct (alookup n (m_decl lv)) as [x|] eqn:E; [eexists; reflexivity|].
    destruct (alookup n (s_decl lv)) as [y|] eqn:E2; [eexists; reflexivity|]. exfalso.
    assert (Hno : forall (l : list (string * ekind)), alookup n l = None -> ~ In n (map fst l)).
    { induction l as [|[k' v] l IH]; simpl; [tauto|]. destruct (String.eqb n k') eqn:Ek; [discriminate|].
      intros H [He|Hi]; [subst; rewrite String.eqb_refl in Ek; discriminate|exact (IH H Hi)]. }
    destruct Hr as [Hr|Hr]; [exact (Hno _ E Hr)|exact (Hno _ E2 Hr)]. }
  destruct Hm as [km Hkm]. rewrite Hkm. f_equal.
  assert (Hkm_in : In (Some km) [alookup n (m_decl lv); alookup n (s_decl lv); alookup n (a_decl lv)]).
  { unfold method_kind in Hkm. destruct (alookup n (m_decl lv)); [left; exact Hkm|right; left; exact Hkm]. }
  unfold pick in Hp.
  destruct (alookup n (m_map lv)).
  { injection Hp as _ Hk. rewrite Hkm in Hk. injection Hk as ->. reflexivity. }
  destruct (alookup n (s_map lv)).
  { injection Hp as _ Hk. apply Hc; [exact Hkm_in|right; left; exact Hk]. }
  destruct (alookup n (a_map lv)); [|discriminate].
  injection Hp as _ Hk. apply Hc; [exact Hkm_in|right; right; left; exact Hk].
Qed.

(* ------------------------------------------------------------ finalisation of a row *)

Lemma is_hdr_app l1 l2 k : is_hdr (l1 ++ l2)%list k = is_hdr l1 k || is_hdr l2 k.
Proof. unfold is_hdr. apply existsb_app. Qed.

Lemma mem_In k l : mem k l = true <-> In k l.
Proof.
  unfold mem. rewrite existsb_exists. split.
  - intros [x [Hx E]]. apply String.eqb_eq in E. subst. exact Hx.
  - intro H. exists k. split; [exact H|apply String.eqb_refl].
Qed.

Lemma is_hdr_explicit ty raw k : is_hdr (explicit_hdrs ty raw) k = mem k (map fst (r_hdrs raw)).
Proof.
  unfold explicit_hdrs, is_hdr, mem. induction (r_hdrs raw) as [|[a h] l IH]; simpl; [reflexivity|].
  rewrite IH. rewrite (String.eqb_sym a k). reflexivity.
Qed.

Lemma is_hdr_others (skip : string -> bool) (hs : list string) attrs k r :
  In (k, r) attrs -> mem k hs = false -> skip k = false ->
  is_hdr (flat_map (fun nr : string * bool => if mem (fst nr) hs || skip (fst nr) then []
                     else [mkh (fst nr) (goa_attribute_header (fst nr)) (snd nr)]) attrs) k = true.
Proof.
  intros Hin Hm Hs. induction attrs as [|[n b] l IH]; simpl in *; [tauto|].
  rewrite is_hdr_app. destruct Hin as [Heq|Hin].
  - injection Heq as -> ->. rewrite Hm, Hs. simpl. rewrite String.eqb_refl. reflexivity.
  - rewrite (IH Hin). apply orb_true_r.
Qed.

Lemma mem_filter k (p : string -> bool) l : In k l -> p k = true -> mem k (filter p l) = true.
Proof. intros Hin Hp. apply mem_In. apply filter_In. split; assumption. Qed.

(* the value fits the type and the mapping carries every attribute *)
Definition fits (ty : etype) (vf : fields) : Prop :=
  (forall k, lookup k vf <> None -> In k (map fst (t_attrs ty))) /\
  (forall n, In (n, true) (t_attrs ty) -> lookup n vf <> None).

Definition carried (ty : etype) (raw : rawmap) (vf : fields) : Prop :=
  (t_object ty = false ->
     t_default ty = false /\ r_hdrs raw = [] /\ r_body raw = DDefault /\ exists v, vf = [("", v)]) /\
  match r_body raw with
  | DDefault => True
  | DEmpty => t_default ty = true      (* goa carries the left-out attributes for ErrorResult only *)
  | DAttr a => t_default ty = true /\ lookup a vf <> None
  end.

Lemma In_fst_exists {A B} (k : A) (l : list (A * B)) : In k (map fst l) -> exists r, In (k, r) l.
Proof.
  induction l as [|[a b] l IH]; simpl; [tauto|].
  intros [<-|H]; [exists b; left; reflexivity|]. destruct (IH H) as [r Hr]. exists r. right. exact Hr.
Qed.

Lemma finalize_maps_all n st k ty raw vf :
  fits ty vf -> carried ty raw vf -> maps_all (finalize_row n st k ty raw) vf.
Proof.
  intros [Hfit _] [Hno Hc]. unfold maps_all, finalize_row. cbn [ebody ehdrs].
  unfold finalize_body, finalize_hdrs, unmapped_hdrs.
  destruct (r_body raw) as [| |a] eqn:Eb.
  - destruct (t_object ty) eqn:Eo.
    + assert (Hu : (if t_default ty then @nil hmap else []) = []) by (destruct (t_default ty); reflexivity).
      rewrite Hu, app_nil_r.
      destruct (filter (fun n0 => negb (mem n0 (map fst (r_hdrs raw)))) (map fst (t_attrs ty))) as [|x rest] eqn:Ef.
      * intros k0 Hk. rewrite is_hdr_explicit.
        destruct (mem k0 (map fst (r_hdrs raw))) eqn:Em; [reflexivity|]. exfalso.
        assert (Hin : In k0 (filter (fun n0 => negb (mem n0 (map fst (r_hdrs raw)))) (map fst (t_attrs ty)))).
        { apply filter_In. split; [apply Hfit, Hk|rewrite Em; reflexivity]. }
        rewrite Ef in Hin. destruct Hin.
      * intros k0 Hk. rewrite is_hdr_explicit.
        destruct (mem k0 (map fst (r_hdrs raw))) eqn:Em; [left; reflexivity|]. right.
        rewrite <- Ef. apply mem_filter; [apply Hfit, Hk|rewrite Em; reflexivity].
    + destruct (Hno eq_refl) as [Hd [Hh [_ Hv]]]. unfold explicit_hdrs. rewrite Hh, Hd. simpl.
      split; [exact Hv|reflexivity].
  - rewrite Hc. intros k0 Hk. rewrite is_hdr_app, is_hdr_explicit.
    destruct (mem k0 (map fst (r_hdrs raw))) eqn:Em; [reflexivity|]. simpl.
    destruct (In_fst_exists k0 _ (Hfit k0 Hk)) as [r Hr].
    exact (is_hdr_others (fun _ => false) _ _ k0 r Hr Em eq_refl).
  - destruct Hc as [Hd Ha]. rewrite Hd. split; [exact Ha|]. intros k0 Hk.
    destruct (String.eqb a k0) eqn:Ea; [right; apply String.eqb_eq in Ea; symmetry; exact Ea|]. left.
    rewrite is_hdr_app, is_hdr_explicit.
    destruct (mem k0 (map fst (r_hdrs raw))) eqn:Em; [reflexivity|]. simpl.
    destruct (In_fst_exists k0 _ (Hfit k0 Hk)) as [r Hr].
    exact (is_hdr_others (String.eqb a) _ _ k0 r Hr Em Ea).
Qed.

Lemma alookup_In {A} k (v : A) l : alookup k l = Some v -> In (k, v) l.
Proof.
  induction l as [|[k' v'] l IH]; simpl; [discriminate|].
  destruct (String.eqb k k') eqn:E; [|intro H; right; apply IH, H].
  intro H. injection H as ->. apply String.eqb_eq in E. subst. left. reflexivity.
Qed.

Lemma finalize_required_set ty raw vf :
  fits ty vf ->
  forall h, In h (finalize_hdrs ty raw) -> hreq h = true -> lookup (hattr h) vf <> None.
Proof.
  intros [_ Hreq] h Hin Hr. unfold finalize_hdrs in Hin. apply in_app_or in Hin. destruct Hin as [Hin|Hin].
  - unfold explicit_hdrs in Hin. apply in_map_iff in Hin. destruct Hin as [[a hn] [<- _]]. simpl in *.
    unfold attr_required in Hr. destruct (alookup a (t_attrs ty)) as [b|] eqn:E; [|discriminate].
    subst b. apply Hreq. apply alookup_In, E.
  - unfold unmapped_hdrs in Hin. destruct (t_default ty); [|destruct Hin].
    assert (Hgen : forall skip, In h (flat_map (fun nr : string * bool =>
                if mem (fst nr) (map fst (r_hdrs raw)) || skip (fst nr) then []
                else [mkh (fst nr) (goa_attribute_header (fst nr)) (snd nr)]) (t_attrs ty)) ->
              lookup (hattr h) vf <> None).
    { intros skip H. apply in_flat_map in H. destruct H as [[n0 b] [Hn H]]. simpl in H.
      destruct (mem n0 (map fst (r_hdrs raw)) || skip n0); [destruct H|].
      destruct H as [<-|[]]. simpl in *. subst b. apply Hreq, Hn. }
    destruct (r_body raw) as [| |a]; [destruct Hin|exact (Hgen (fun _ => false) Hin)|exact (Hgen (String.eqb a) Hin)].
Qed.

(* the round trip with the row goa computes from the design: the mapping hypotheses of
   well_mapped that concern goa's own finalisation are discharged *)
Lemma roundtrip_finalized hw te tbl d e vf ty raw :
  NoDup (map ename tbl) -> In d tbl ->
  ehdrs d = finalize_hdrs ty raw -> ebody d = finalize_body ty raw ->
  NoDup (map hname (ehdrs d)) -> ~ In goa_error_header (map hname (ehdrs d)) ->
  fits ty vf -> carried ty raw vf ->
  as_namer te e = Some (ename d) ->
  typed_value te d e = Some (vf, ename d) ->
  wire_safe_err hw d vf ->
  exists evs, encode_error te tbl e = Some evs /\
    let w := run_writer hw evs in
    ws_status w = estatus d /\ ws_count w = 1 /\
    lookup goa_error_header (ws_sent w) = Some (ename d) /\
    match ekind_of d with
    | KDefault => exists c, as_service e = Some c /\ decode_error te tbl w = CService c
    | KCustom ty' => exists fs, decode_error te tbl w = CCustom (ename d) fs /\
                                forall k, lookup k fs = lookup k vf
    end.
Proof.
  intros Hnd Hin Hh Hb Hn1 Hn2 Hfit Hcar Hn Ht Hs.
  apply (roundtrip hw te tbl d e vf Hnd Hin Hn Ht); [|exact Hs].
  split; [exact Hn1|]. split; [exact Hn2|]. split.
  - rewrite Hh. apply finalize_required_set, Hfit.
  - pose proof (finalize_maps_all (ename d) (estatus d) (ekind_of d) ty raw vf Hfit Hcar) as Hm.
    unfold maps_all in *. cbn [finalize_row ebody ehdrs] in Hm. rewrite Hb, Hh. exact Hm.
Qed.
