(* Correspondence glue: what the harness observed of one exchange through the real
   generated server and client, the same observation computed from the model, and the
   comparison evaluated by vm_compute on the cases the harness wrote. *)
From ErrTransport Require Import Model.
From Coq Require Import NArith.

(* what the client returned *)
Inductive cobs :=
| CSkip                 (* not compared (undeclared errors: the property speaks of the server side only) *)
| COther                (* an error of an unexpected Go type *)
| CObs (c : cres).

Inductive obs :=
| ONone                                            (* no response reached the client (handler panicked) *)
| OResp (status : nat) (goa : option string)       (* status, goa-error header *)
        (body : option fields) (hdrs : fields)     (* flattened body (None: not flattened, not compared), designed / goa-attribute headers *)
        (wh : nat) (client : cobs).                (* WriteHeader calls, client result *)

Definition mkobs := OResp.

Definition opt_eqb (a b : option string) : bool :=
  match a, b with
  | Some x, Some y => String.eqb x y
  | None, None => true
  | _, _ => false
  end.

(* equality of attribute maps with distinct keys, order-insensitive *)
Definition fields_eqb (a b : fields) : bool :=
  Nat.eqb (List.length a) (List.length b) &&
  forallb (fun kv => opt_eqb (lookup (fst kv) b) (Some (snd kv))) a.

Definition core_eqb (a b : core) : bool :=
  String.eqb (cname a) (cname b) && String.eqb (cid a) (cid b) && String.eqb (cmsg a) (cmsg b) &&
  Bool.eqb (ctimeout a) (ctimeout b) && Bool.eqb (ctemporary a) (ctemporary b) && Bool.eqb (cfault a) (cfault b).

Definition cres_eqb (a b : cres) : bool :=
  match a, b with
  | CNoError, CNoError => true
  | CClientErr, CClientErr => true
  | CService x, CService y => core_eqb x y
  | CCustom n fs, CCustom m gs => String.eqb n m && fields_eqb fs gs
  | _, _ => false
  end.

Definition body_ok (b : wbody) (o : fields) : bool :=
  match b with
  | WNone => match o with [] => true | _ => false end
  | WObj fs => fields_eqb fs o
  | WVal v => fields_eqb [("", v)] o
  end.

Definition drop_key (k : string) (fs : fields) : fields :=
  filter (fun kv => negb (String.eqb (fst kv) k)) fs.

Definition check_case (te : tenv) (tbl : list edecl) (e : goerr) (o : obs) : bool :=
  match encode_error te tbl e, o with
  | None, ONone => true
  | Some evs, OResp st goa body hdrs wh client =>
    let w := run_writer go_hdr_wire evs in
    Nat.eqb (ws_status w) st &&
    opt_eqb (lookup goa_error_header (ws_sent w)) goa &&
    match body with Some b => body_ok (ws_body w) b | None => true end &&
    fields_eqb (drop_key goa_error_header (ws_sent w)) hdrs &&
    Nat.eqb (ws_count w) wh &&
    match client with
    | CSkip => true
    | COther => false
    | CObs c => cres_eqb (decode_error te tbl w) c
    end
  | _, _ => false
  end.

Definition mismatches (cs : list (N * tenv * list edecl * goerr * obs)) : list N :=
  flat_map (fun c => match c with (i, te, tbl, e, o) => if check_case te tbl e o then [] else [i] end) cs.

(* request decoding failures: the decoder's bookkeeping, then status and error name on the wire *)
Inductive dobs :=
| DInvoked                               (* the decoder returned no error: the service method ran *)
| DReported (st : nat) (name : string).  (* error response *)

Definition check_decode (te : tenv) (tbl : list edecl) (steps : list dstep) (o : dobs) : bool :=
  match run_steps None steps, o with
  | None, DInvoked => true
  | Some f, DReported st name =>
    match handler te tbl (HDecodeFail f) with
    | None => false
    | Some evs =>
      let w := run_writer go_hdr_wire evs in
      Nat.eqb (ws_status w) st &&
      match ws_body w with
      | WObj fs => opt_eqb (lookup "name" fs) (Some name)
      | _ => false
      end &&
      Nat.eqb (ws_count w) 1
    end
  | _, _ => false
  end.

Definition decode_mismatches (cs : list (N * tenv * list edecl * list dstep * dobs)) : list N :=
  flat_map (fun c => match c with (i, te, tbl, steps, o) => if check_decode te tbl steps o then [] else [i] end) cs.

(* the error table goa computed (name, status, type) against the model's table computed
   from the declarations and mappings of the three levels *)
Definition kind_eqb (a b : ekind) : bool :=
  match a, b with
  | KDefault, KDefault => true
  | KCustom x, KCustom y => String.eqb x y
  | _, _ => false
  end.

Definition row_eqb (a b : string * nat * ekind) : bool :=
  match a, b with (n1, s1, k1), (n2, s2, k2) => String.eqb n1 n2 && Nat.eqb s1 s2 && kind_eqb k1 k2 end.

Definition rows_eqb (a b : list (string * nat * ekind)) : bool :=
  Nat.eqb (List.length a) (List.length b) && forallb (fun r => existsb (row_eqb r) b) a.

Definition table_mismatches (cs : list (N * levels * list (string * nat * ekind))) : list N :=
  flat_map (fun c => match c with (i, lv, rows) =>
     if rows_eqb (effective_error_table lv) rows then [] else [i] end) cs.

(* goa's finalised row (headers with required flags, body) against finalize_hdrs / finalize_body
   computed from the type and the mapping the design description states *)
Definition hmap_eqb (a b : hmap) : bool :=
  String.eqb (hattr a) (hattr b) && String.eqb (hname a) (hname b) && Bool.eqb (hreq a) (hreq b).

Definition set_eqb {A} (eqb : A -> A -> bool) (a b : list A) : bool :=
  Nat.eqb (List.length a) (List.length b) && forallb (fun x => existsb (eqb x) b) a.

Definition body_eqb (a b : bodyspec) : bool :=
  match a, b with
  | BEmpty, BEmpty => true
  | BValue, BValue => true
  | BAttr x, BAttr y => String.eqb x y
  | BObject x, BObject y => set_eqb String.eqb x y
  | _, _ => false
  end.

Definition finalize_mismatches (cs : list (N * etype * rawmap * list hmap * bodyspec)) : list N :=
  flat_map (fun c => match c with (i, ty, raw, hs, b) =>
     if set_eqb hmap_eqb (finalize_hdrs ty raw) hs && body_eqb (finalize_body ty raw) b then [] else [i] end) cs.
