(* C05 — property statements only. Every theorem is closed by a lemma of Lemmas.v (or
   by computation on a concrete witness) and followed by Print Assumptions.
   Quantification: ALL type environments, ALL error tables, ALL error values, ALL
   header transports hw, unless a statement names a witness. *)
From ErrTransport Require Import Model Lemmas.

(* The client's switch on the status code, then on the goa-error header, picks exactly
   the error that was encoded, however many errors share the status code: it is enough
   that the (status, name) pairs of the table are pairwise distinct. *)
Theorem error_dispatch_unambiguous tbl d :
  NoDup (map key tbl) -> In d tbl -> select tbl (estatus d) (Some (ename d)) = Some d.
Proof. exact (select_found_pairs tbl d). Qed.
Print Assumptions error_dispatch_unambiguous.

(* in particular when the names are pairwise distinct (what goa's DSL guarantees) *)
Theorem error_dispatch_unambiguous_names tbl d :
  NoDup (map ename tbl) -> In d tbl -> select tbl (estatus d) (Some (ename d)) = Some d.
Proof. exact (select_found_names tbl d). Qed.
Print Assumptions error_dispatch_unambiguous_names.

(* A declared error reaches the client as the same error: designed status, goa-error
   header, exactly one WriteHeader, and the client rebuilds an error with the same name
   and the same attribute values (for the default error type: the same name, id,
   message and flags).  Hypotheses: distinct names in the table; the value's
   GoaErrorName is the declared name and its Go type is the declared type; the
   response mapping is well formed (Body("attribute") included: the attribute travels as
   the body, the others in goa-attribute-* headers); header-carried values are wire safe. *)
Theorem declared_error_roundtrip_partial hw te tbl d e vf :
  NoDup (map ename tbl) -> In d tbl ->
  as_namer te e = Some (ename d) ->
  typed_value te d e = Some (vf, ename d) ->
  well_mapped d vf -> wire_safe_err hw d vf ->
  exists evs, encode_error te tbl e = Some evs /\
    let w := run_writer hw evs in
    ws_status w = estatus d /\ ws_count w = 1 /\
    lookup goa_error_header (ws_sent w) = Some (ename d) /\
    match ekind_of d with
    | KDefault => exists c, as_service e = Some c /\ decode_error te tbl w = CService c
    | KCustom ty => exists fs, decode_error te tbl w = CCustom (ename d) fs /\
                               forall k, lookup k fs = lookup k vf
    end.
Proof. exact (roundtrip hw te tbl d e vf). Qed.
Print Assumptions declared_error_roundtrip_partial.

(* ---- goa's own finalisation of a row (body = attributes not sent in headers; for the
        built-in error type the attributes an overridden body leaves out travel in
        goa-attribute-* headers) carries every attribute of every value that fits the type *)
Theorem finalized_row_carries_every_attribute n st k ty raw vf :
  fits ty vf -> carried ty raw vf -> maps_all (finalize_row n st k ty raw) vf.
Proof. exact (finalize_maps_all n st k ty raw vf). Qed.
Print Assumptions finalized_row_carries_every_attribute.

Theorem finalized_row_required_headers_set ty raw vf :
  fits ty vf ->
  forall h, In h (finalize_hdrs ty raw) -> hreq h = true -> lookup (hattr h) vf <> None.
Proof. exact (finalize_required_set ty raw vf). Qed.
Print Assumptions finalized_row_required_headers_set.

(* the round trip for the row goa computes from the design: of well_mapped only the
   conditions on the user-chosen header names remain *)
Theorem declared_error_roundtrip_finalized_partial hw te tbl d e vf ty raw :
  NoDup (map ename tbl) -> In d tbl ->
  ehdrs d = finalize_hdrs ty raw -> ebody d = finalize_body ty raw ->
  NoDup (map hname (ehdrs d)) -> ~ In goa_error_header (map hname (ehdrs d)) ->
  fits ty vf -> carried ty raw vf ->
  as_namer te e = Some (ename d) ->
  typed_value te d e = Some (vf, ename d) ->
  wire_safe_err hw d vf ->
  exists evs, encode_error te tbl e = Some evs /\
    let w := run_writer hw evs in
    ws_status w = estatus d /\ ws_count w = 1 /\
    lookup goa_error_header (ws_sent w) = Some (ename d) /\
    match ekind_of d with
    | KDefault => exists c, as_service e = Some c /\ decode_error te tbl w = CService c
    | KCustom ty' => exists fs, decode_error te tbl w = CCustom (ename d) fs /\
                                forall k, lookup k fs = lookup k vf
    end.
Proof. exact (roundtrip_finalized hw te tbl d e vf ty raw). Qed.
Print Assumptions declared_error_roundtrip_finalized_partial.

(* `carried` cannot be dropped: for a CUSTOM error type goa does not carry the attributes
   that Body(Empty) / Body("a") leave out: they are lost on the way to the client *)
Theorem custom_body_override_drops_attributes_refuted :
  exists te ty raw vf,
    fits ty vf /\ t_default ty = false /\ r_body raw = DEmpty /\
    let d := finalize_row "conflict" 409 (KCustom "Conflict") ty raw in
    exists evs fs, encode_error te [d] (ECustom "Conflict" vf) = Some evs /\
      decode_error te [d] (run_writer (fun s => s) evs) = CCustom "conflict" fs /\
      lookup "name" vf = Some "n1" /\ lookup "name" fs = None.
Proof.
  exists [("Conflict", NStatic "conflict")], (mketype false true [("name", true); ("code", false)]),
         (mkraw [] DEmpty), [("name", "n1")].
  split.
  { split.
    - intros k Hk. simpl in Hk. destruct (String.eqb k "name") eqn:E; [|exfalso; apply Hk; reflexivity].
      apply String.eqb_eq in E. subst. left. reflexivity.
    - intros n [H|[H|[]]]; injection H as <-; discriminate. }
  split; [reflexivity|]. split; [reflexivity|].
  cbv zeta. eexists. eexists. split; [reflexivity|]. vm_compute. repeat split.
Qed.
Print Assumptions custom_body_override_drops_attributes_refuted.

(* --- the full statement (without the wire-safety hypothesis) is false of the faithful model;
       each loss class has its witness, and each witness is a recorded finding --- *)

(* (1) [repaired: goa now rejects a user type shared, without an ErrorName attribute, by
   errors of different names anywhere in a service.]  What the validation buys: when the
   constant name of every declared custom type is the name of its row, every value of
   the declared type names itself with the declared name, so the hypothesis
   "as_namer te e = Some (ename d)" of the round trip holds for all values of that type. *)
Theorem declared_type_names_itself te tbl :
  (forall d ty s, In d tbl -> ekind_of d = KCustom ty -> nrule_of te ty = NStatic s -> s = ename d) ->
  forall d ty fs, In d tbl -> ekind_of d = KCustom ty ->
                  (forall a, nrule_of te ty = NField a -> lookup a fs = Some (ename d)) ->
                  as_namer te (ECustom ty fs) = Some (ename d).
Proof.
  intros Hs d ty fs Hin Hk Hf. simpl. unfold custom_name.
  destruct (nrule_of te ty) as [s|a] eqn:E.
  - rewrite (Hs d ty s Hin Hk E). reflexivity.
  - rewrite (Hf a eq_refl). reflexivity.
Qed.
Print Assumptions declared_type_names_itself.

(* (2) a header-carried string with edge white space (or a line break) is rewritten by
   net/http: the client gets another value *)
Theorem roundtrip_refuted_header_rewritten :
  exists te tbl e fs,
    exists evs, encode_error te tbl e = Some evs /\
      decode_error te tbl (run_writer go_hdr_wire evs) = CCustom "conflict" fs /\
      as_custom "Conflict" e = Some [("name", "n1"); ("detail", " lead")] /\
      lookup "detail" fs = Some "lead".
Proof.
  exists [("Conflict", NStatic "conflict")],
         [mkdecl "conflict" 409 (KCustom "Conflict") [mkh "detail" "X-Detail" false] (BObject ["name"])],
         (ECustom "Conflict" [("name", "n1"); ("detail", " lead")]).
  eexists. eexists. split; [reflexivity|]. vm_compute. repeat split.
Qed.
Print Assumptions roundtrip_refuted_header_rewritten.

(* (3) an empty string in a header is indistinguishable from an absent header: an
   optional attribute arrives unset (a required one fails the client's validation) *)
Theorem roundtrip_refuted_header_empty :
  exists te tbl e fs,
    exists evs, encode_error te tbl e = Some evs /\
      decode_error te tbl (run_writer (fun s => s) evs) = CCustom "conflict" fs /\
      as_custom "Conflict" e = Some [("name", "n1"); ("detail", "")] /\
      lookup "detail" fs = None.
Proof.
  exists [("Conflict", NStatic "conflict")],
         [mkdecl "conflict" 409 (KCustom "Conflict") [mkh "detail" "X-Detail" false] (BObject ["name"])],
         (ECustom "Conflict" [("name", "n1"); ("detail", "")]).
  eexists. eexists. split; [reflexivity|]. vm_compute. repeat split.
Qed.
Print Assumptions roundtrip_refuted_header_empty.

(* An error that is not a goa error (nothing in its chain names itself): 500, fault flag
   set, name "fault", the error text as message, no goa-error header, one WriteHeader. *)
Theorem undeclared_plain_is_fault_500 hw te tbl e :
  as_namer te e = None ->
  encode_error te tbl e = Some (default_events e) /\
  run_writer hw (default_events e) =
    mkws true 500 [] [] (WObj (core_fields (fault_core (err_text e)))) 1.
Proof. exact (plain_fault hw te tbl e). Qed.
Print Assumptions undeclared_plain_is_fault_500.

(* the same for a generated error type whose name is not declared on the endpoint *)
Theorem undeclared_custom_is_fault_500 hw te tbl e n :
  as_namer te e = Some n -> find_decl n tbl = None -> as_service e = None ->
  encode_error te tbl e = Some (default_events e) /\
  run_writer hw (default_events e) =
    mkws true 500 [] [] (WObj (core_fields (fault_core (err_text e)))) 1.
Proof. exact (undeclared_nonservice_fault hw te tbl e n). Qed.
Print Assumptions undeclared_custom_is_fault_500.

(* An undeclared goa service error: the status of the flag table, its six fields as
   body, no goa-error header, one WriteHeader. *)
Theorem undeclared_service_error_status hw te tbl e n c :
  as_namer te e = Some n -> find_decl n tbl = None -> as_service e = Some c ->
  encode_error te tbl e = Some (default_events e) /\
  run_writer hw (default_events e) = mkws true (http_status c) [] [] (WObj (core_fields c)) 1.
Proof. exact (undeclared_service hw te tbl e n c). Qed.
Print Assumptions undeclared_service_error_status.

(* the flag table, all eight vectors (name other than unsupported_media_type) *)
Theorem http_status_by_flags c :
  cname c <> unsupported_media_type ->
  http_status c = match cfault c, ctimeout c, ctemporary c with
                  | true, _, _ => 500
                  | false, true, true => 504
                  | false, true, false => 408
                  | false, false, true => 503
                  | false, false, false => 400
                  end.
Proof. exact (http_status_flags c). Qed.
Print Assumptions http_status_by_flags.

Theorem http_status_total c : In (http_status c) [400; 408; 415; 500; 503; 504].
Proof. exact (http_status_range c). Qed.
Print Assumptions http_status_total.

(* errors.As is a depth-first search over the cause tree (Unwrap() error and
   Unwrap() []error): a goa error below ANY tree of fmt.Errorf %w wrappers, errors.Join
   and multi-%w wrappers whose other branches hold no goa error produces exactly the
   response of the error itself, provided it is declared or is a service error; the
   wrappers' text is dropped. *)
Theorem wrapped_declared_is_dispatched te tbl g t :
  wraps g t ->
  (as_service g <> None \/ exists n d, as_namer te g = Some n /\ find_decl n tbl = Some d) ->
  encode_error te tbl t = encode_error te tbl g.
Proof. exact (wrapped_same te tbl g t). Qed.
Print Assumptions wrapped_declared_is_dispatched.

(* in particular an UNDECLARED service error inside any such tree keeps its own status
   (flag table), name, id, message and flags *)
Theorem wrapped_undeclared_service_error_status hw te tbl c t :
  wraps (EService c) t -> find_decl (cname c) tbl = None ->
  encode_error te tbl t = Some (default_events t) /\
  run_writer hw (default_events t) = mkws true (http_status c) [] [] (WObj (core_fields c)) 1.
Proof. exact (wrapped_undeclared_service hw te tbl c t). Qed.
Print Assumptions wrapped_undeclared_service_error_status.

(* the facts about errors.As behind both: every wrapper tree is transparent *)
Theorem errors_as_sees_through_wrappers te g t :
  wraps g t ->
  as_namer te t = as_namer te g /\ as_service t = as_service g /\ forall ty, as_custom ty t = as_custom ty g.
Proof. exact (wraps_as te g t). Qed.
Print Assumptions errors_as_sees_through_wrappers.

(* ---- where the table comes from: the same error name declared and mapped at method,
        service and API level.  A row exists iff the method can return the error (declared
        by the method or its service) and some level maps it; the response is the
        method's mapping, else the service's, else the API's. *)
Theorem inheritance_spec lv n st k :
  In (n, st, k) (effective_error_table lv) <->
  (In n (map fst (m_decl lv)) \/ In n (map fst (s_decl lv))) /\ pick lv n = Some (st, Some k).
Proof. exact (effective_table_spec lv n st k). Qed.
Print Assumptions inheritance_spec.

Theorem method_mapping_overrides lv n st :
  alookup n (m_map lv) = Some st -> exists k, pick lv n = Some (st, k).
Proof. intro H. unfold pick. rewrite H. eexists. reflexivity. Qed.
Print Assumptions method_mapping_overrides.

Theorem service_mapping_overrides_api lv n st :
  alookup n (m_map lv) = None -> alookup n (s_map lv) = Some st -> exists k, pick lv n = Some (st, k).
Proof. intros H1 H2. unfold pick. rewrite H1, H2. eexists. reflexivity. Qed.
Print Assumptions service_mapping_overrides_api.

Theorem api_mapping_is_last lv n st :
  alookup n (m_map lv) = None -> alookup n (s_map lv) = None -> alookup n (a_map lv) = Some st ->
  exists k, pick lv n = Some (st, k).
Proof. intros H1 H2 H3. unfold pick. rewrite H1, H2, H3. eexists. reflexivity. Qed.
Print Assumptions api_mapping_is_last.

(* the row carries the error type of the method's own error when every level that
   declares the name gives it the same type ... *)
Theorem inherited_row_type_partial lv n st k :
  levels_type_consistent lv n -> In (n, st, k) (effective_error_table lv) -> method_kind lv n = Some k.
Proof. exact (row_kind_is_method_kind lv n st k). Qed.
Print Assumptions inherited_row_type_partial.

(* ... and not otherwise: the API maps "e" (default type), the method redeclares "e" with
   a custom type: the row, hence the generated encoder, expects a ServiceError while the
   method returns the custom type (then exactly_one_write_header_refuted applies) *)
Theorem inherited_row_type_refuted :
  exists lv n st k, In (n, st, k) (effective_error_table lv) /\ method_kind lv n <> Some k.
Proof.
  exists (mklevels [("e", KCustom "LatM")] [] [] [] [("e", KDefault)] [("e", 412)]), "e", 412, KDefault.
  split; [left; reflexivity|discriminate].
Qed.
Print Assumptions inherited_row_type_refuted.

(* Request decoding failures carry the standard names and are client errors: 400,
   except 415 for an unsupported media type; fault flag not set; one WriteHeader. *)
Theorem decode_failure_names hw te tbl f :
  find_decl (dfail_name f) tbl = None ->
  handler te tbl (HDecodeFail f) = Some (default_events (EService (dfail_core f))) /\
  run_writer hw (default_events (EService (dfail_core f))) =
    mkws true (match f with DUnsupportedMedia => 415 | _ => 400 end) [] []
         (WObj (core_fields (dfail_core f))) 1.
Proof. exact (decode_failure hw te tbl f). Qed.
Print Assumptions decode_failure_names.

Theorem decode_failure_standard_names :
  map dfail_name [DMissingPayload; DDecodePayload; DMissingField; DInvalidFieldType; DUnsupportedMedia;
                  DInvalidEnum; DInvalidFormat; DInvalidPattern; DInvalidRange; DInvalidLength] =
  ["missing_payload"; "decode_payload"; "missing_field"; "invalid_field_type"; "unsupported_media_type";
   "invalid_enum_value"; "invalid_format"; "invalid_pattern"; "invalid_range"; "invalid_length"].
Proof. reflexivity. Qed.
Print Assumptions decode_failure_standard_names.

(* The generated request decoder returns a failure whenever one of its steps fails,
   provided no step assigns err afresh ... *)
Theorem decode_failure_reported_partial l err :
  forallb (fun s => negb (is_assign s)) l = true -> existsb fails l = true -> run_steps err l <> None.
Proof. exact (run_steps_reports l err). Qed.
Print Assumptions decode_failure_reported_partial.

(* ... which a REQUIRED cookie does (`c, err = r.Cookie(name)`): an unparsable query
   parameter followed by a required cookie that is present leaves no error at all, and
   the service method runs *)
Theorem decode_failure_reported_refuted :
  run_steps None [SAccum (Some DInvalidFieldType); SAssign None] = None.
Proof. reflexivity. Qed.
Print Assumptions decode_failure_reported_refuted.

(* a design may declare one of the standard names itself: then its status is used *)
Theorem decode_failure_declared_status hw te tbl f d :
  find_decl (dfail_name f) tbl = Some d -> ekind_of d = KDefault ->
  exists evs, handler te tbl (HDecodeFail f) = Some evs /\
              ws_status (run_writer hw evs) = estatus d /\ ws_count (run_writer hw evs) = 1.
Proof. exact (decode_failure_declared hw te tbl f d). Qed.
Print Assumptions decode_failure_declared_status.

(* Every path through the handler (decode failure | endpoint error | success) calls
   WriteHeader exactly once (the implicit call of a first Write included), provided the
   error's dynamic type is the declared type whenever its name is declared. *)
Theorem exactly_one_write_header_partial hw te tbl i :
  input_consistent te tbl i ->
  exists evs, handler te tbl i = Some evs /\ ws_count (run_writer hw evs) = 1.
Proof. exact (one_write hw te tbl i). Qed.
Print Assumptions exactly_one_write_header_partial.

(* without that proviso the statement is false: a goa ServiceError carrying the name of
   an error declared with a custom type makes the generated encoder dereference nil:
   the handler panics and no response is written *)
Theorem exactly_one_write_header_refuted :
  exists te tbl e, handler te tbl (HEndpointErr e) = None.
Proof.
  exists [("Conflict", NStatic "conflict")],
         [mkdecl "conflict" 409 (KCustom "Conflict") [mkh "detail" "X-Detail" false] (BObject ["name"])],
         (EService (mkcore "conflict" "m1" "wrong type" false false false)).
  reflexivity.
Qed.
Print Assumptions exactly_one_write_header_refuted.

(* and that is the only way to get no response *)
Theorem no_response_only_on_type_mismatch te tbl e :
  handler te tbl (HEndpointErr e) = None ->
  exists n d, as_namer te e = Some n /\ find_decl n tbl = Some d /\ typed_value te d e = None.
Proof.
  unfold handler, encode_error.
  destruct (as_namer te e) as [n|]; [|discriminate].
  destruct (find_decl n tbl) as [d|] eqn:Ef; [|discriminate].
  destruct (typed_value te d e) as [[vf nm]|] eqn:Et; [discriminate|].
  intros _. exists n, d. repeat split; assumption.
Qed.
Print Assumptions no_response_only_on_type_mismatch.

(* ---- non-vacuity: three errors on one status code, a custom error with a header
        attribute; the hypotheses of the round trip are satisfiable and the model computes *)
Definition ex_te : tenv := [("Conflict", NStatic "conflict")].
Definition ex_body := BObject ["name"; "id"; "message"; "temporary"; "timeout"; "fault"].
Definition ex_tbl : list edecl :=
  [mkdecl "not_found" 404 KDefault [] ex_body; mkdecl "gone" 404 KDefault [] ex_body;
   mkdecl "missing" 404 KDefault [] ex_body;
   mkdecl "conflict" 409 (KCustom "Conflict") [mkh "detail" "X-Detail" false] (BObject ["name"; "code"])].

Example roundtrip_three_on_one_status :
  let e := EWrap "ctx" (EService (mkcore "gone" "id7" "it is gone" false true true)) in
  exists evs, encode_error ex_te ex_tbl e = Some evs /\
    ws_status (run_writer go_hdr_wire evs) = 404 /\
    decode_error ex_te ex_tbl (run_writer go_hdr_wire evs) = CService (mkcore "gone" "id7" "it is gone" false true true).
Proof. eexists. split; [reflexivity|]. split; vm_compute; reflexivity. Qed.

Example joined_declared_is_dispatched :
  let g := EService (mkcore "gone" "id7" "it is gone" false true true) in
  let t := EWrap "while doing x" (EJoin "\n" [EPlain "unrelated"; EJoin ": " [EPlain "context"; g]; EService (mkcore "other" "" "" false false false)]) in
  encode_error ex_te ex_tbl t = encode_error ex_te ex_tbl (EJoin "\n" [EPlain "u"; g]) /\
  exists evs, encode_error ex_te ex_tbl t = Some evs /\ ws_status (run_writer go_hdr_wire evs) = 404.
Proof. split; [reflexivity|]. eexists. split; [reflexivity|vm_compute; reflexivity]. Qed.

(* Body("message"): the message is the body, the other attributes travel in
   goa-attribute-* headers, the client rebuilds the same error *)
Example roundtrip_body_attribute :
  let tbl := [mkdecl "msg_only" 400 KDefault
                [mkh "name" "Goa-Attribute-Name" true; mkh "id" "Goa-Attribute-Id" true;
                 mkh "temporary" "Goa-Attribute-Temporary" true; mkh "timeout" "Goa-Attribute-Timeout" true;
                 mkh "fault" "Goa-Attribute-Fault" true] (BAttr "message")] in
  let c := mkcore "msg_only" "i1" "some ""text""" false true false in
  exists evs, encode_error [] tbl (EService c) = Some evs /\
    ws_body (run_writer go_hdr_wire evs) = WVal "some ""text""" /\
    decode_error [] tbl (run_writer go_hdr_wire evs) = CService c.
Proof. eexists. split; [reflexivity|]. split; vm_compute; reflexivity. Qed.

(* finalisation computes the rows seen on real designs *)
Example finalize_examples :
  finalize_row "msg_only" 400 KDefault error_result (mkraw [] (DAttr "message")) =
    mkdecl "msg_only" 400 KDefault
      [mkh "name" "Goa-Attribute-Name" true; mkh "id" "Goa-Attribute-Id" true;
       mkh "temporary" "Goa-Attribute-Temporary" true; mkh "timeout" "Goa-Attribute-Timeout" true;
       mkh "fault" "Goa-Attribute-Fault" true] (BAttr "message") /\
  finalize_row "db" 400 KDefault error_result (mkraw [("message", "X-Message")] DDefault) =
    mkdecl "db" 400 KDefault [mkh "message" "X-Message" true]
      (BObject ["name"; "id"; "temporary"; "timeout"; "fault"]) /\
  finalize_body (mketype false false [("", true)]) (mkraw [] DDefault) = BValue /\
  carried error_result (mkraw [] (DAttr "message")) (core_fields (mkcore "n" "i" "m" false false false)).
Proof.
  repeat split; try (vm_compute; reflexivity); try discriminate.
Qed.

Example roundtrip_custom_with_header :
  let e := ECustom "Conflict" [("name", "n"); ("code", "7"); ("detail", "d e")] in
  exists evs, encode_error ex_te ex_tbl e = Some evs /\
    ws_sent (run_writer go_hdr_wire evs) = [("Goa-Error", "conflict"); ("X-Detail", "d e")] /\
    decode_error ex_te ex_tbl (run_writer go_hdr_wire evs) = CCustom "conflict" [("detail", "d e"); ("name", "n"); ("code", "7")].
Proof. eexists. split; [reflexivity|]. split; vm_compute; reflexivity. Qed.

Example roundtrip_hypotheses_satisfiable :
  let d := mkdecl "conflict" 409 (KCustom "Conflict") [mkh "detail" "X-Detail" false] (BObject ["name"; "code"]) in
  let vf := [("name", "n"); ("code", "7"); ("detail", "d e")] in
  NoDup (map ename ex_tbl) /\ In d ex_tbl /\
  typed_value ex_te d (ECustom "Conflict" vf) = Some (vf, "conflict") /\
  well_mapped d vf /\ wire_safe_err go_hdr_wire d vf.
Proof.
  cbv zeta. split.
  { simpl. repeat constructor; simpl; intuition discriminate. }
  split; [simpl; tauto|]. split; [reflexivity|]. split.
  - split; [simpl; repeat constructor; simpl; tauto|].
    split; [simpl; intuition discriminate|].
    split; [simpl; intros h [<-|[]]; discriminate|].
    unfold maps_all. cbn [ebody ehdrs]. intros k Hk. cbn [lookup] in Hk.
    destruct (String.eqb k "name") eqn:E1; [apply String.eqb_eq in E1; rewrite E1; right; reflexivity|].
    destruct (String.eqb k "code") eqn:E2; [apply String.eqb_eq in E2; rewrite E2; right; reflexivity|].
    destruct (String.eqb k "detail") eqn:E3; [apply String.eqb_eq in E3; rewrite E3; left; reflexivity|].
    exfalso. apply Hk. reflexivity.
  - split; [|vm_compute; reflexivity].
    simpl. intros h v [<-|[]]. simpl. intro H. injection H as <-. split; [vm_compute; reflexivity|discriminate].
Qed.
