From Middleware Require Import Model.
From Coq Require Import Lia ZifyBool ZifyNat ZifyN.

(* ---------------- basics ---------------- *)

Lemma is_empty_true b : is_empty b = true <-> b = [].
Proof. destruct b; simpl; split; intro H; try reflexivity; discriminate. Qed.

Lemma is_empty_false b : is_empty b = false <-> b <> [].
Proof. destruct b; simpl; split; intro H; try reflexivity; try discriminate; congruence. Qed.

Lemma hvals_hset_same h k v : hvals (hset h k v) k = [v].
Proof. unfold hset. simpl. now rewrite N.eqb_refl. Qed.

Lemma hvals_filter_other h k k' : k' <> k ->
  hvals (filter (fun p => negb (N.eqb (fst p) k)) h) k' = hvals h k'.
Proof.
  intro Hne. induction h as [|[a vs] h IH]; simpl; [reflexivity|].
  destruct (N.eqb a k) eqn:Ea; simpl.
  - apply N.eqb_eq in Ea. subst a.
    destruct (N.eqb k' k) eqn:E; [apply N.eqb_eq in E; congruence|exact IH].
  - destruct (N.eqb k' a); [reflexivity|exact IH].
Qed.

Lemma hvals_hset_other h k v k' : k' <> k -> hvals (hset h k v) k' = hvals h k'.
Proof.
  intro Hne. unfold hset. simpl.
  destruct (N.eqb k' k) eqn:E; [apply N.eqb_eq in E; congruence|].
  now apply hvals_filter_other.
Qed.

(* ---------------- request id ---------------- *)

Lemma truncate_spec limit v :
  truncate limit v = if (0 <? limit)%Z then firstn (Z.to_nat limit) v else v.
Proof.
  unfold truncate, blen. destruct (0 <? limit)%Z eqn:E0; simpl; [|reflexivity].
  destruct (limit <? Z.of_nat (length v))%Z eqn:E1; [reflexivity|].
  symmetry. apply firstn_all2. lia.
Qed.

Lemma truncate_nonempty limit v : v <> [] -> truncate limit v <> [].
Proof.
  intro Hv. unfold truncate, blen.
  destruct ((0 <? limit)%Z && (limit <? Z.of_nat (length v))%Z) eqn:E; [|exact Hv].
  destruct v as [|x v]; [congruence|].
  destruct (Z.to_nat limit) eqn:En; [lia|]. simpl. discriminate.
Qed.

Lemma truncate_prefix limit v : exists rest, v = truncate limit v ++ rest.
Proof.
  unfold truncate. destruct (_ && _).
  - exists (skipn (Z.to_nat limit) v). symmetry. apply firstn_skipn.
  - exists []. now rewrite app_nil_r.
Qed.

Lemma truncate_length limit v : (0 < limit)%Z -> (blen (truncate limit v) <= limit)%Z.
Proof.
  intro Hl. unfold truncate, blen.
  destruct ((0 <? limit)%Z && (limit <? Z.of_nat (length v))%Z) eqn:E.
  - rewrite firstn_length. lia.
  - lia.
Qed.

Lemma select_id_nonempty o c i : select_id o c = Some i -> i <> [].
Proof.
  unfold select_id. destruct (is_empty _) eqn:E; [discriminate|].
  intros [= <-]. now apply is_empty_false.
Qed.

Lemma generate_nonempty o c fresh : fresh <> [] -> generate_request_id o c fresh <> [].
Proof.
  intro Hf. unfold generate_request_id. destruct (select_id o c) eqn:E; [|exact Hf].
  eapply select_id_nonempty; eassumption.
Qed.

Lemma rid_step_nonempty k o h pre fresh : fresh <> [] -> fst (rid_step k o h pre fresh) <> [].
Proof. intro Hf. unfold rid_step. simpl. now apply generate_nonempty. Qed.

Lemma rid_step_trusted k o h pre fresh v :
  use_rid o = true -> hget h (rid_key k o) = v -> v <> [] ->
  fst (rid_step k o h pre fresh) =
    if (0 <? rid_limit o)%Z then firstn (Z.to_nat (rid_limit o)) v else v.
Proof.
  intros Hu Hg Hv. unfold rid_step, generate_request_id, select_id, inbound_ctx. simpl.
  rewrite Hu, Hg. apply is_empty_false in Hv as Hv'. rewrite Hv'.
  pose proof (truncate_nonempty (rid_limit o) v Hv) as Ht. apply is_empty_false in Ht.
  rewrite Ht. apply truncate_spec.
Qed.

Lemma rid_step_untrusted k o h pre fresh : use_rid o = false -> fst (rid_step k o h pre fresh) = fresh.
Proof.
  intro Hu. unfold rid_step, generate_request_id, select_id. simpl. now rewrite Hu.
Qed.

Lemma rid_step_absent k o h fresh : hget h (rid_key k o) = [] -> fst (rid_step k o h None fresh) = fresh.
Proof.
  intro Hg. unfold rid_step, generate_request_id, select_id, inbound_ctx. simpl.
  rewrite Hg. simpl. destruct (use_rid o); reflexivity.
Qed.

Lemma rid_step_parity k1 k2 o h pre fresh :
  rid_key k1 o = rid_key k2 o -> fst (rid_step k1 o h pre fresh) = fst (rid_step k2 o h pre fresh).
Proof. intro Hk. unfold rid_step. simpl. now rewrite Hk. Qed.

Lemma rid_step_unary_stream o h pre fresh : rid_step KUnary o h pre fresh = rid_step KStream o h pre fresh.
Proof. reflexivity. Qed.

Lemma rid_step_writeback k o h pre fresh id md :
  rid_step k o h pre fresh = (id, Some md) ->
  hvals md XRID = [id] /\ forall k', k' <> XRID -> hvals md k' = hvals h k'.
Proof.
  unfold rid_step. destruct k; intros [= <- <-]; (split; [apply hvals_hset_same|]);
    intros k' Hk; now apply hvals_hset_other.
Qed.

Lemma rid_options_snoc xs x : rid_options (xs ++ [x]) = apply_rid_opt (rid_options xs) x.
Proof. unfold rid_options. now rewrite fold_left_app. Qed.

(* ---------------- samplers ---------------- *)

Lemma fixed_sample_0 r : fixed_sample 0 r = false.
Proof. reflexivity. Qed.

Lemma fixed_sample_100 r : fixed_sample 100 r = true.
Proof. reflexivity. Qed.

Lemma fixed_sample_spec p r : (0 <= p <= 100)%Z -> (0 <= r < 100)%Z ->
  fixed_sample p r = (r <? p)%Z.
Proof. intros Hp Hr. unfold fixed_sample. lia. Qed.

Lemma clamp_range c : (1 <= clamp c <= UPPER)%Z.
Proof. unfold clamp, UPPER. destruct (10000 <? c)%Z eqn:E1; [lia|]. destruct (c <? 1)%Z eqn:E2; lia. Qed.

Definition sampler_inv (s : sampler) : Prop :=
  match s with Fixed _ => True | Adaptive _ _ _ last => (1 <= last <= UPPER)%Z end.

Lemma sample_inv s cmp d : sampler_inv s -> sampler_inv (snd (sample s cmp d)).
Proof.
  destruct s as [p|m size c last]; simpl; [trivial|]. intro H.
  destruct (N.eqb _ size); simpl; [apply clamp_range|exact H].
Qed.

Lemma sample_seq_inv ins : forall s, sampler_inv s -> sampler_inv (snd (sample_seq s ins)).
Proof.
  induction ins as [|[cmp d] r IH]; intros s H; simpl; [exact H|].
  destruct (sample s cmp d) as [[b u] s'] eqn:E.
  specialize (IH s'). destruct (sample_seq s' r) as [bs sf]. simpl in *.
  apply IH. pose proof (sample_inv s cmp d H) as H1. now rewrite E in H1.
Qed.

Lemma new_sampler_inv o : sampler_inv (new_sampler o).
Proof. unfold new_sampler. destruct (0 <? t_maxrate o)%Z; simpl; unfold UPPER; lia. Qed.

Lemma sample_fixed_state p cmp d : snd (sample (Fixed p) cmp d) = Fixed p.
Proof. reflexivity. Qed.

(* before the counter reaches the sample size for the first time every call samples *)
Lemma adaptive_warmup_gen m size ins : forall c,
  (size < two32)%N -> (c + N.of_nat (length ins) < size)%N ->
  fst (sample_seq (Adaptive m size c UPPER) ins) = repeat true (length ins) /\
  snd (sample_seq (Adaptive m size c UPPER) ins) = Adaptive m size (c + N.of_nat (length ins)) UPPER.
Proof.
  induction ins as [|[cmp d] r IH]; intros c Hs Hc; simpl.
  - split; [reflexivity|]. now rewrite N.add_0_r.
  - assert (Hm : N.modulo (c + 1) two32 = (c + 1)%N).
    { apply N.mod_small. simpl length in Hc. lia. }
    rewrite Hm.
    assert (Hne : N.eqb (c + 1) size = false).
    { apply N.eqb_neq. simpl length in Hc. lia. }
    rewrite Hne. simpl.
    specialize (IH (c + 1)%N Hs). simpl length in Hc.
    destruct IH as [IH1 IH2]; [lia|].
    destruct (sample_seq (Adaptive m size (c + 1) UPPER) r) as [bs sf]. simpl in *.
    subst. split; [reflexivity|]. f_equal. lia.
Qed.

(* ---------------- trace middleware ---------------- *)

Definition eff_sampler (k : kind) (o : trace_opts) (s : sampler) : sampler :=
  match k with KHttp => s | _ => new_sampler o end.

(* every request ends in one of two shapes *)
Lemma trace_step_shape k o s q :
  let res := fst (trace_step k o s q) in
  (r_used_span res = false /\ r_ctx res = q_base q) \/
  (exists t, t <> [] /\ r_used_span res = true /\
             r_ctx res = with_span (q_base q) t (q_newspan q) (first_value (q_parent q)) /\
             (t = first_value (q_trace q) \/ (first_value (q_trace q) = [] /\ t = q_newtrace q))).
Proof.
  unfold trace_step.
  destruct (is_empty (first_value (q_trace q))) eqn:E0; simpl.
  - apply is_empty_true in E0.
    destruct (discarded k o q); simpl; [left; split; reflexivity|].
    destruct (sample _ _ _) as [[sampled ud] s1].
    destruct sampled; simpl; [|left; split; reflexivity].
    unfold finish_trace. destruct (is_empty (q_newtrace q)) eqn:E1; simpl.
    + left; split; reflexivity.
    + right. exists (q_newtrace q). apply is_empty_false in E1. repeat split; auto.
  - right. exists (first_value (q_trace q)). apply is_empty_false in E0 as E0'.
    unfold finish_trace. rewrite E0. simpl. repeat split; auto.
Qed.

Lemma trace_step_inbound k o s q t :
  first_value (q_trace q) = t -> t <> [] ->
  trace_step k o s q =
    ({| r_ctx := with_span (q_base q) t (q_newspan q) (first_value (q_parent q));
        r_used_draw := false; r_used_trace := false; r_used_span := true |}, s).
Proof.
  intros Ht Hne. unfold trace_step. rewrite Ht. apply is_empty_false in Hne. rewrite Hne. simpl.
  unfold finish_trace. now rewrite Hne.
Qed.

Lemma with_span_parent c t s p : p <> [] -> c_parent (with_span c t s p) = Some p.
Proof. intro H. unfold with_span. simpl. apply is_empty_false in H. now rewrite H. Qed.

Lemma with_span_parent_empty c t s : c_parent (with_span c t s []) = c_parent c.
Proof. reflexivity. Qed.

Lemma trace_step_never k o s q :
  eff_sampler k o s = Fixed 0 -> first_value (q_trace q) = [] ->
  r_ctx (fst (trace_step k o s q)) = q_base q /\ r_used_draw (fst (trace_step k o s q)) = false.
Proof.
  intros Hs Ht. unfold trace_step. rewrite Ht. simpl.
  destruct (discarded k o q); simpl; [split; reflexivity|].
  unfold eff_sampler in Hs. rewrite Hs. simpl. split; reflexivity.
Qed.

Lemma trace_step_always k o s q :
  eff_sampler k o s = Fixed 100 -> first_value (q_trace q) = [] -> discarded k o q = false ->
  q_newtrace q <> [] ->
  r_ctx (fst (trace_step k o s q)) =
    with_span (q_base q) (q_newtrace q) (q_newspan q) (first_value (q_parent q)) /\
  r_used_draw (fst (trace_step k o s q)) = false.
Proof.
  intros Hs Ht Hd Hn. unfold trace_step. rewrite Ht. simpl. rewrite Hd.
  unfold eff_sampler in Hs. rewrite Hs. simpl.
  unfold finish_trace. apply is_empty_false in Hn. rewrite Hn. simpl. split; reflexivity.
Qed.

Lemma trace_step_keeps_fixed k o s q p :
  eff_sampler k o s = Fixed p -> eff_sampler k o (snd (trace_step k o s q)) = Fixed p.
Proof.
  intro Hs. unfold trace_step.
  destruct (negb (is_empty (first_value (q_trace q)))); simpl; [exact Hs|].
  destruct (discarded k o q); simpl; [exact Hs|].
  unfold eff_sampler in Hs. rewrite Hs. simpl.
  destruct (fixed_sample p (q_draw q)); simpl; destruct k; simpl in *; auto.
Qed.

Lemma trace_seq_never k o qs : forall s,
  eff_sampler k o s = Fixed 0 -> Forall (fun q => first_value (q_trace q) = []) qs ->
  map r_ctx (trace_seq k o s qs) = map q_base qs.
Proof.
  induction qs as [|q r IH]; intros s Hs Hq; simpl; [reflexivity|].
  inversion Hq as [|? ? Hq1 Hq2]; subst.
  destruct (trace_step k o s q) as [res s'] eqn:E. simpl.
  pose proof (trace_step_never k o s q Hs Hq1) as [H1 _]. rewrite E in H1. simpl in H1.
  pose proof (trace_step_keeps_fixed k o s q 0 Hs) as H2. rewrite E in H2. simpl in H2.
  rewrite H1. f_equal. now apply IH.
Qed.

Lemma trace_seq_always k o qs : forall s,
  eff_sampler k o s = Fixed 100 ->
  Forall (fun q => first_value (q_trace q) = [] /\ discarded k o q = false /\ q_newtrace q <> []) qs ->
  map r_ctx (trace_seq k o s qs) =
  map (fun q => with_span (q_base q) (q_newtrace q) (q_newspan q) (first_value (q_parent q))) qs.
Proof.
  induction qs as [|q r IH]; intros s Hs Hq; simpl; [reflexivity|].
  inversion Hq as [|? ? [Hq1 [Hq1' Hq1'']] Hq2]; subst.
  destruct (trace_step k o s q) as [res s'] eqn:E. simpl.
  pose proof (trace_step_always k o s q Hs Hq1 Hq1' Hq1'') as [H1 _]. rewrite E in H1. simpl in H1.
  pose proof (trace_step_keeps_fixed k o s q 100 Hs) as H2. rewrite E in H2. simpl in H2.
  rewrite H1. f_equal. now apply IH.
Qed.

Lemma eff_new_sampler_fixed k o : (t_maxrate o <= 0)%Z -> eff_sampler k o (new_sampler o) = Fixed (t_percent o).
Proof.
  intro H. assert (E : new_sampler o = Fixed (t_percent o)).
  { unfold new_sampler. destruct (0 <? t_maxrate o)%Z eqn:E; [lia|reflexivity]. }
  destruct k; simpl; exact E.
Qed.

Lemma trace_options_snoc xs x : trace_options (xs ++ [x]) = apply_trace_opt (trace_options xs) x.
Proof. unfold trace_options. now rewrite fold_left_app. Qed.

(* ---------------- client side and chains ---------------- *)

Lemma client_forward_traced c out t s :
  c_trace c = Some t -> c_span c = Some s -> client_forward c out = Some ([t], [s]).
Proof. intros Ht Hs. unfold client_forward. now rewrite Ht, Hs. Qed.

Lemma client_forward_untraced c out : c_trace c = None -> client_forward c out = Some out.
Proof. intro Ht. unfold client_forward. now rewrite Ht. Qed.

Lemma client_stack_keeps ls c t s :
  c_trace c = Some t -> c_span c = Some s -> client_stack ls c ([t], [s]) = Some ([t], [s]).
Proof.
  intros Ht Hs. induction ls as [|l r IH]; simpl; [reflexivity|].
  destruct l; [|exact IH]. now rewrite (client_forward_traced c _ t s Ht Hs).
Qed.

Lemma client_stack_traced ls c out t s :
  has_traced ls = true -> c_trace c = Some t -> c_span c = Some s ->
  client_stack ls c out = Some ([t], [s]).
Proof.
  intros Hin Ht Hs. induction ls as [|l r IH]; simpl in *; [discriminate|].
  destruct l; simpl in Hin.
  - rewrite (client_forward_traced c out t s Ht Hs). now apply client_stack_keeps.
  - now apply IH.
Qed.

Lemma client_stack_untraced ls c out : c_trace c = None -> client_stack ls c out = Some out.
Proof.
  intro Ht. induction ls as [|l r IH]; simpl; [reflexivity|].
  destruct l; [|exact IH]. now rewrite (client_forward_untraced c out Ht).
Qed.

Lemma thm_client_stack_transparent l1 l2 c out :
  client_stack (l1 ++ CTransparent :: l2) c out = client_stack (l1 ++ l2) c out.
Proof.
  revert out. induction l1 as [|l r IH]; intro out; simpl; [reflexivity|].
  destruct l; [|apply IH]. destruct (client_forward c out); [apply IH|reflexivity].
Qed.

Definition newspan (h : hop) : bytes := q_newspan (h_req h).

(* what the chain theorems ask of every service: its span generator returns a
   non-empty id and the client stack it calls through contains the traced client *)
Definition hop_ok (h : hop) : Prop := newspan h <> [] /\ has_traced (h_client h) = true.

(* the relation the chain theorem establishes: every server of the chain received
   trace id t, received its caller's span as ParentSpanID and recorded it as its
   parent, and runs under the span its own generator produced *)
Fixpoint linked (t p : bytes) (cs : list (thdrs * tctx)) (hops : list hop) : Prop :=
  match cs, hops with
  | [], [] => True
  | (i, c) :: cs', h :: hs' =>
    first_value (fst i) = t /\ first_value (snd i) = p /\
    c_trace c = Some t /\ c_parent c = Some p /\ c_span c = Some (newspan h) /\
    linked t (newspan h) cs' hs'
  | _, _ => False
  end.

Lemma hop_ctx_inbound h i t :
  first_value (fst i) = t -> t <> [] ->
  hop_ctx h i = with_span (q_base (h_req h)) t (newspan h) (first_value (snd i)).
Proof.
  intros Ht Hne. unfold hop_ctx.
  rewrite (trace_step_inbound _ _ _ (set_inbound (h_req h) i) t); [reflexivity|exact Ht|exact Hne].
Qed.

Lemma chain_linked hops : forall i t p,
  first_value (fst i) = t -> t <> [] -> first_value (snd i) = p -> p <> [] ->
  Forall hop_ok hops ->
  linked t p (chain hops i) hops.
Proof.
  induction hops as [|h rest IH]; intros i t p Ht Hne Hp Hpne Hok; simpl; [exact I|].
  inversion Hok as [|? ? [Hh Hcl] Hrest]; subst.
  rewrite (hop_ctx_inbound h i (first_value (fst i)) eq_refl Hne).
  set (c := with_span _ _ _ _).
  assert (Hct : c_trace c = Some (first_value (fst i))) by reflexivity.
  assert (Hcs : c_span c = Some (newspan h)) by reflexivity.
  rewrite (client_stack_traced (h_client h) c (h_out h) _ _ Hcl Hct Hcs).
  repeat split; auto; try (unfold c; now apply with_span_parent); try (apply IH; auto).
Qed.

Lemma linked_length t p cs hops : linked t p cs hops -> length cs = length hops.
Proof.
  revert p cs. induction hops as [|h hs IH]; intros p [|[i c] cs] H; simpl in *; try contradiction; auto.
  destruct H as (_ & _ & _ & _ & _ & H). f_equal. eapply IH; eassumption.
Qed.

Lemma linked_same_trace t p cs hops :
  linked t p cs hops -> Forall (fun ic => c_trace (snd ic) = Some t /\ first_value (fst (fst ic)) = t) cs.
Proof.
  revert p cs. induction hops as [|h hs IH]; intros p [|[i c] cs] H; simpl in *; try contradiction; auto.
  destruct H as (H1 & _ & H3 & _ & _ & H). constructor; [split; assumption|]. eapply IH; eassumption.
Qed.

Lemma linked_spans t p cs hops :
  linked t p cs hops -> map (fun ic => c_span (snd ic)) cs = map (fun h => Some (newspan h)) hops.
Proof.
  revert p cs. induction hops as [|h hs IH]; intros p [|[i c] cs] H; simpl in *; try contradiction; auto.
  destruct H as (_ & _ & _ & _ & H5 & H). rewrite H5. f_equal. eapply IH; eassumption.
Qed.

(* parents: the first is p, every later one is the previous server's span *)
Lemma linked_parents t p cs hops :
  linked t p cs hops ->
  map (fun ic => c_parent (snd ic)) cs = map Some (firstn (length hops) (p :: map newspan hops)).
Proof.
  revert p cs. induction hops as [|h hs IH]; intros p [|[i c] cs] H; simpl in *; try contradiction; auto.
  destruct H as (_ & _ & _ & H4 & _ & H). rewrite H4. f_equal. apply (IH _ _ H).
Qed.

Lemma linked_adjacent t hops : forall p cs k a b,
  linked t p cs hops ->
  nth_error cs k = Some a -> nth_error cs (S k) = Some b ->
  c_parent (snd b) = c_span (snd a) /\ first_value (snd (fst b)) = match c_span (snd a) with Some s => s | None => [] end.
Proof.
  induction hops as [|h hs IH]; intros p [|[i c] cs] k a b H Ha Hb; simpl in *; try contradiction.
  - destruct k; discriminate.
  - destruct H as (_ & _ & _ & _ & H5 & H).
    destruct k as [|k].
    + simpl in Ha. injection Ha as <-. simpl in Hb.
      destruct cs as [|[i2 c2] cs]; [discriminate|]. simpl in Hb. injection Hb as <-.
      destruct hs as [|h2 hs]; simpl in H; [contradiction|].
      destruct H as (_ & Hp & _ & H4 & _). simpl. rewrite H4, H5. split; [reflexivity|exact Hp].
    + simpl in Ha. eapply IH; eauto.
Qed.

(* the first server of a chain: fresh request context, arbitrary inbound headers *)
Lemma chain_head h hops i t :
  q_base (h_req h) = empty_ctx -> Forall hop_ok (h :: hops) ->
  c_trace (hop_ctx h i) = Some t ->
  t <> [] /\ c_span (hop_ctx h i) = Some (newspan h) /\
  exists rest, chain (h :: hops) i = (i, hop_ctx h i) :: rest /\ linked t (newspan h) rest hops.
Proof.
  intros Hb Hok Ht. inversion Hok as [|? ? [Hh Hcl] Hrest]; subst.
  pose proof (trace_step_shape (h_kind h) (h_opts h) (new_sampler (h_opts h)) (set_inbound (h_req h) i)) as Hshape.
  cbv zeta in Hshape.
  change (r_ctx (fst (trace_step (h_kind h) (h_opts h) (new_sampler (h_opts h)) (set_inbound (h_req h) i))))
    with (hop_ctx h i) in Hshape.
  change (q_base (set_inbound (h_req h) i)) with (q_base (h_req h)) in Hshape.
  change (q_newspan (set_inbound (h_req h) i)) with (newspan h) in Hshape.
  rewrite Hb in Hshape.
  destruct Hshape as [[_ Hc]|(t' & Hne & _ & Hc & _)].
  - rewrite Hc in Ht. discriminate.
  - rewrite Hc in Ht. simpl in Ht. injection Ht as <-.
    split; [exact Hne|]. split; [rewrite Hc; reflexivity|].
    cbn [chain]. cbv zeta.
    rewrite (client_stack_traced (h_client h) (hop_ctx h i) (h_out h) t' (newspan h) Hcl);
      [|rewrite Hc; reflexivity|rewrite Hc; reflexivity].
    eexists; split; [reflexivity|].
    apply chain_linked; auto.
Qed.

(* ---------------- response capture ---------------- *)

Lemma cap_bytes_fold h : forall s, cap_bytes (fold_left cap_step h s) = (cap_bytes s + sum_writes h)%N.
Proof.
  induction h as [|e r IH]; intro s; simpl; [lia|].
  rewrite IH. destruct e; simpl; lia.
Qed.

Lemma wr_bytes_fold h : forall s, w_bytes (fold_left wr_step h s) = (w_bytes s + sum_writes h)%N.
Proof.
  induction h as [|e r IH]; intro s; simpl; [lia|].
  rewrite IH. destruct e; simpl; lia.
Qed.

Lemma wr_status_sticky h : forall s c, w_status s = Some c -> w_status (fold_left wr_step h s) = Some c.
Proof.
  induction h as [|e r IH]; intros s c H; simpl; [exact H|].
  apply IH. destruct e; simpl; rewrite H; reflexivity.
Qed.

Lemma sent_status h : w_status (sent h) = first_commit h.
Proof.
  unfold sent. destruct h as [|e r]; [reflexivity|]. simpl.
  destruct e; apply wr_status_sticky; reflexivity.
Qed.

(* ---------------- statements of Properties.v that need more than one lemma ---------------- *)

Lemma thm_trace_keeps_inbound (k : kind) (o : trace_opts) (s : sampler) (q : treq) (t : bytes) :
  first_value (q_trace q) = t -> t <> [] ->
  let res := fst (trace_step k o s q) in
  c_trace (r_ctx res) = Some t /\ c_span (r_ctx res) = Some (q_newspan q) /\
  r_used_draw res = false /\ r_used_trace res = false /\ snd (trace_step k o s q) = s.
Proof.
  intros Ht Hne. cbv zeta. rewrite (trace_step_inbound k o s q t Ht Hne). simpl. repeat split.
Qed.

Lemma thm_trace_parent_is_caller_span (k : kind) (o : trace_opts) (s : sampler) (q : treq) (t p : bytes) :
  first_value (q_trace q) = t -> t <> [] -> first_value (q_parent q) = p -> p <> [] ->
  c_parent (r_ctx (fst (trace_step k o s q))) = Some p.
Proof.
  intros Ht Hne Hp Hpne. rewrite (trace_step_inbound k o s q t Ht Hne).
  cbn [fst r_ctx]. rewrite Hp. exact (with_span_parent _ _ _ p Hpne).
Qed.

Lemma thm_sampling_0_never_traced (k : kind) (xs : list trace_opt) (qs : list treq) :
  let o := trace_options xs in
  (t_maxrate o <= 0)%Z -> t_percent o = 0%Z ->
  Forall (fun q => first_value (q_trace q) = []) qs ->
  map r_ctx (trace_run k xs qs) = map q_base qs.
Proof.
  cbv zeta. intros Hm Hp Hq. unfold trace_run. apply trace_seq_never; [|exact Hq].
  rewrite eff_new_sampler_fixed by exact Hm. now rewrite Hp.
Qed.

Lemma thm_sampling_100_always_traced (k : kind) (xs : list trace_opt) (qs : list treq) :
  let o := trace_options xs in
  (t_maxrate o <= 0)%Z -> t_percent o = 100%Z ->
  Forall (fun q => first_value (q_trace q) = [] /\ discarded k o q = false /\ q_newtrace q <> []) qs ->
  map r_ctx (trace_run k xs qs) =
  map (fun q => with_span (q_base q) (q_newtrace q) (q_newspan q) (first_value (q_parent q))) qs.
Proof.
  cbv zeta. intros Hm Hp Hq. unfold trace_run. apply trace_seq_always; [|exact Hq].
  rewrite eff_new_sampler_fixed by exact Hm. now rewrite Hp.
Qed.

Lemma thm_adaptive_rate_in_range (o : trace_opts) (ins : list (Z * Z)) :
  match snd (sample_seq (new_sampler o) ins) with
  | Adaptive _ _ _ last => (1 <= last <= 10000)%Z
  | Fixed _ => True
  end.
Proof.
  pose proof (sample_seq_inv ins (new_sampler o) (new_sampler_inv o)) as H.
  destruct (snd (sample_seq (new_sampler o) ins)); exact H.
Qed.

Lemma thm_adaptive_warmup_samples_all (m : Z) (size : N) (ins : list (Z * Z)) :
  (size < 4294967296)%N -> (N.of_nat (length ins) < size)%N ->
  fst (sample_seq (Adaptive m size 0 10000) ins) = repeat true (length ins).
Proof.
  intros Hs Hl. apply (adaptive_warmup_gen m size ins 0%N Hs). lia.
Qed.

Lemma thm_chain_shares_trace (h : hop) (hops : list hop) (i : thdrs) (t : bytes) :
  q_base (h_req h) = empty_ctx ->
  Forall (fun h => q_newspan (h_req h) <> [] /\ has_traced (h_client h) = true) (h :: hops) ->
  c_trace (hop_ctx h i) = Some t ->
  let cs := chain (h :: hops) i in
  length cs = S (length hops) /\
  Forall (fun ic => c_trace (snd ic) = Some t) cs /\
  map (fun ic => c_span (snd ic)) cs = map (fun h => Some (q_newspan (h_req h))) (h :: hops) /\
  (forall k a b, nth_error cs k = Some a -> nth_error cs (S k) = Some b ->
     c_parent (snd b) = c_span (snd a) /\
     first_value (fst (fst b)) = t /\
     Some (first_value (snd (fst b))) = c_span (snd a)).
Proof.
  intros Hb Hok Ht. cbv zeta.
  destruct (chain_head h hops i t Hb Hok Ht) as (Hne & Hsp & rest & Hch & Hl).
  rewrite Hch. split; [simpl; f_equal; exact (linked_length _ _ _ _ Hl)|].
  split.
  { constructor; [exact Ht|].
    eapply Forall_impl; [|exact (linked_same_trace _ _ _ _ Hl)]. intros a [Ha _]. exact Ha. }
  split.
  { simpl. rewrite Hsp. f_equal. exact (linked_spans _ _ _ _ Hl). }
  intros k a b Ha Hb'.
  destruct k as [|k].
  - simpl in Ha. injection Ha as <-. simpl in Hb'.
    destruct rest as [|[i2 c2] rest]; [discriminate|]. simpl in Hb'. injection Hb' as <-.
    destruct hops as [|h2 hops]; simpl in Hl; [contradiction|].
    destruct Hl as (H1 & H2 & _ & H4 & _). simpl. rewrite Hsp, H4, H2. auto.
  - change (nth_error rest k = Some a) in Ha. change (nth_error rest (S k) = Some b) in Hb'.
    destruct (linked_adjacent t hops (newspan h) rest k a b Hl Ha Hb') as [Hp Hv].
    split; [exact Hp|].
    pose proof (linked_same_trace _ _ _ _ Hl) as Hall.
    rewrite Forall_forall in Hall.
    assert (Hin : In b rest) by (eapply nth_error_In; exact Hb').
    destruct (Hall b Hin) as [_ Hb2]. split; [exact Hb2|].
    pose proof (linked_spans _ _ _ _ Hl) as Hspans.
    assert (Hsa : exists s, c_span (snd a) = Some s).
    { assert (Hina : In a rest) by (eapply nth_error_In; exact Ha).
      assert (In (c_span (snd a)) (map (fun ic => c_span (snd ic)) rest)) as Hm by (apply in_map_iff; eauto).
      rewrite Hspans in Hm. apply in_map_iff in Hm as (x & Hx & _). eauto. }
    destruct Hsa as [s Hs]. rewrite Hs in Hv |- *. now rewrite Hv.
Qed.

Lemma thm_chain_entered_with_trace (hops : list hop) (i : thdrs) (t p : bytes) :
  first_value (fst i) = t -> t <> [] -> first_value (snd i) = p -> p <> [] ->
  Forall (fun h => q_newspan (h_req h) <> [] /\ has_traced (h_client h) = true) hops ->
  let cs := chain hops i in
  length cs = length hops /\
  Forall (fun ic => c_trace (snd ic) = Some t) cs /\
  map (fun ic => c_span (snd ic)) cs = map (fun h => Some (q_newspan (h_req h))) hops /\
  map (fun ic => c_parent (snd ic)) cs =
    map Some (firstn (length hops) (p :: map (fun h => q_newspan (h_req h)) hops)).
Proof.
  intros Ht Hne Hp Hpne Hok. cbv zeta.
  pose proof (chain_linked hops i t p Ht Hne Hp Hpne Hok) as Hl.
  split; [exact (linked_length _ _ _ _ Hl)|].
  split; [eapply Forall_impl; [|exact (linked_same_trace _ _ _ _ Hl)]; intros a [Ha _]; exact Ha|].
  split; [exact (linked_spans _ _ _ _ Hl)|exact (linked_parents _ _ _ _ Hl)].
Qed.

Lemma thm_capture_reports_bytes_written (h : list wevent) :
  cap_bytes (capture h) = sum_writes h /\ w_bytes (sent h) = sum_writes h.
Proof.
  unfold capture, sent. rewrite cap_bytes_fold, wr_bytes_fold. simpl. split; reflexivity.
Qed.





(* ---------------- capture agrees with the writer on every history ---------------- *)

Definition cap_rel (s : cap) (w : wr) : Prop :=
  cap_bytes s = w_bytes w /\
  ((cap_status s = 0%Z /\ w_status w = None) \/
   (final_status (cap_status s) = true /\ w_status w = Some (cap_status s))).

Lemma cap_rel_step s w e : final_code e = true -> cap_rel s w -> cap_rel (cap_step s e) (wr_step w e).
Proof.
  intros Hf [Hb [[Hs Hw]|[Hs Hw]]].
  - unfold cap_rel. destruct e; simpl in *; rewrite Hs, Hw; simpl;
      (split; [try rewrite Hb; reflexivity|right; split; auto]).
  - unfold cap_rel. destruct e; simpl in *; rewrite Hs, Hw; simpl;
      (split; [try rewrite Hb; reflexivity|right; split; auto]).
Qed.

Lemma cap_rel_fold h : forall s w, forallb final_code h = true -> cap_rel s w ->
  cap_rel (fold_left cap_step h s) (fold_left wr_step h w).
Proof.
  induction h as [|e r IH]; intros s w Hf Hr; simpl; [exact Hr|].
  simpl in Hf. apply andb_prop in Hf as [Hf1 Hf2]. apply IH; [exact Hf2|]. now apply cap_rel_step.
Qed.

Lemma thm_capture_reports_written (h : list wevent) :
  forallb final_code h = true ->
  reported_status (capture h) = w_status (sent h) /\ cap_bytes (capture h) = w_bytes (sent h).
Proof.
  intro Hf.
  assert (H0 : cap_rel {| cap_status := 0; cap_bytes := 0 |} {| w_status := None; w_bytes := 0 |}).
  { split; [reflexivity|left; split; reflexivity]. }
  destruct (cap_rel_fold h _ _ Hf H0) as [Hb [[Hs Hw]|[Hs Hw]]]; fold (capture h) in *; fold (sent h) in *.
  - split; [|exact Hb]. unfold reported_status. rewrite Hs, Hw. reflexivity.
  - split; [|exact Hb]. unfold reported_status. rewrite Hw.
    unfold final_status in Hs. assert ((cap_status (capture h) =? 0)%Z = false) as -> by lia. reflexivity.
Qed.

Lemma thm_capture_status_closed_form (h : list wevent) :
  forallb final_code h = true -> reported_status (capture h) = first_commit h.
Proof. intro Hf. rewrite <- sent_status. exact (proj1 (thm_capture_reports_written h Hf)). Qed.

(* ---------------- middleware stacks ---------------- *)

Lemma thm_stack_transparent k l1 l2 s :
  run_stack k (l1 ++ LTransparent :: l2) s = run_stack k (l1 ++ l2) s.
Proof. unfold run_stack. rewrite !fold_left_app. reflexivity. Qed.

Definition rid_fresh_ok (l : layer) : Prop := match l with LRid _ fresh => fresh <> [] | _ => True end.

Lemma layer_step_keeps_rid k s l id :
  rid_fresh_ok l -> s_rid s = Some id -> id <> [] ->
  exists id', s_rid (layer_step k s l) = Some id' /\ id' <> [].
Proof.
  intros Hok Hs Hne. destruct l as [xs fresh|xs q|lf| |]; unfold layer_step.
  - destruct (rid_step k (rid_options xs) (s_md s) (s_rid s) fresh) as [id' md] eqn:E. cbn [s_rid].
    exists id'. split; [reflexivity|].
    pose proof (rid_step_nonempty k (rid_options xs) (s_md s) (s_rid s) fresh Hok) as H. now rewrite E in H.
  - exists id. auto.
  - exists id. auto.
  - exists id. auto.
  - exists id. auto.
Qed.

Lemma run_stack_keeps_rid k ls : forall s id,
  Forall rid_fresh_ok ls -> s_rid s = Some id -> id <> [] ->
  exists id', s_rid (run_stack k ls s) = Some id' /\ id' <> [].
Proof.
  induction ls as [|l r IH]; intros s id Hok Hs Hne; simpl; [eauto|].
  inversion Hok as [|? ? H1 H2]; subst.
  destruct (layer_step_keeps_rid k s l id H1 Hs Hne) as (id' & Hs' & Hne').
  exact (IH _ id' H2 Hs' Hne').
Qed.

Lemma thm_stack_request_id_survives k l1 xs fresh l2 s :
  Forall rid_fresh_ok (l1 ++ LRid xs fresh :: l2) ->
  exists id, s_rid (run_stack k (l1 ++ LRid xs fresh :: l2) s) = Some id /\ id <> [].
Proof.
  intro Hok. apply Forall_app in Hok as [_ Hok]. inversion Hok as [|? ? H1 H2]; subst.
  unfold run_stack. rewrite fold_left_app. cbn [fold_left].
  set (s1 := fold_left (layer_step k) l1 s).
  assert (H : exists id, s_rid (layer_step k s1 (LRid xs fresh)) = Some id /\ id <> []).
  { unfold layer_step. destruct (rid_step k (rid_options xs) (s_md s1) (s_rid s1) fresh) as [id md] eqn:E. cbn [s_rid].
    exists id. split; [reflexivity|].
    pose proof (rid_step_nonempty k (rid_options xs) (s_md s1) (s_rid s1) fresh H1) as H. now rewrite E in H. }
  destruct H as (id & Hs & Hne). exact (run_stack_keeps_rid k l2 _ id H2 Hs Hne).
Qed.

Lemma layer_step_keeps_tctx k s l : is_trace_layer l = false -> s_tctx (layer_step k s l) = s_tctx s.
Proof.
  destruct l as [xs fresh|xs q|lf| |]; intro H; try discriminate; unfold layer_step; try reflexivity;
    try (destruct (rid_step k (rid_options xs) (s_md s) (s_rid s) fresh); reflexivity).
Qed.

Lemma run_stack_keeps_tctx k ls : forall s,
  forallb (fun l => negb (is_trace_layer l)) ls = true -> s_tctx (run_stack k ls s) = s_tctx s.
Proof.
  induction ls as [|l r IH]; intros s H; simpl; [reflexivity|].
  simpl in H. apply andb_prop in H as [H1 H2]. rewrite (IH _ H2).
  apply layer_step_keeps_tctx. now destruct (is_trace_layer l).
Qed.

Lemma thm_stack_trace_survives k l1 xs q l2 s t :
  first_value (q_trace q) = t -> t <> [] ->
  forallb (fun l => negb (is_trace_layer l)) l2 = true ->
  let c := s_tctx (run_stack k (l1 ++ LTrace xs q :: l2) s) in
  c_trace c = Some t /\ c_span c = Some (q_newspan q) /\
  client_forward c ([], []) = Some ([t], [q_newspan q]).
Proof.
  intros Ht Hne Hl2. cbv zeta.
  assert (E : run_stack k (l1 ++ LTrace xs q :: l2) s =
              run_stack k l2 (layer_step k (run_stack k l1 s) (LTrace xs q))).
  { unfold run_stack. rewrite fold_left_app. reflexivity. }
  rewrite E, (run_stack_keeps_tctx k l2 _ Hl2).
  set (s1 := run_stack k l1 s). cbn [layer_step s_tctx].
  rewrite (trace_step_inbound k _ _ (set_base q (s_tctx s1)) t Ht Hne). cbn [fst r_ctx].
  repeat split.
Qed.

(* ---------------- Log layers ---------------- *)

(* below a request-id layer: the context id and (grpc) the metadata id are one value *)
Definition rid_visible (k : kind) (s : sstate) (id : bytes) : Prop :=
  s_rid s = Some id /\ id <> [] /\ (k <> KHttp -> hget (s_md s) XRID = id).

Lemma rid_step_visible k xs fresh s :
  fresh <> [] ->
  exists id, rid_visible k (layer_step k s (LRid xs fresh)) id /\
             s_logs (layer_step k s (LRid xs fresh)) = s_logs s.
Proof.
  intro Hf. unfold layer_step.
  destruct (rid_step k (rid_options xs) (s_md s) (s_rid s) fresh) as [id md] eqn:E.
  exists id. split; [|reflexivity].
  pose proof (rid_step_nonempty k (rid_options xs) (s_md s) (s_rid s) fresh Hf) as Hne. rewrite E in Hne. simpl in Hne.
  split; [reflexivity|]. split; [exact Hne|]. intro Hk. cbn [s_md].
  destruct md as [m|].
  - destruct (rid_step_writeback k (rid_options xs) (s_md s) (s_rid s) fresh id m E) as [Hv _].
    unfold hget. now rewrite Hv.
  - unfold rid_step in E. destruct k; try congruence; discriminate.
Qed.

Lemma log_id_visible k s id fresh : rid_visible k s id -> log_id k s fresh = id.
Proof.
  intros (Hs & Hne & Hmd). unfold log_id. destruct k.
  - now rewrite Hs.
  - rewrite Hmd by discriminate. apply is_empty_false in Hne. now rewrite Hne.
  - rewrite Hmd by discriminate. apply is_empty_false in Hne. now rewrite Hne.
Qed.

Lemma layer_step_visible k s l id :
  is_rid_layer l = false -> rid_visible k s id ->
  rid_visible k (layer_step k s l) id /\
  s_logs (layer_step k s l) = s_logs s ++ (if is_log_layer l then [id] else []).
Proof.
  intros Hl Hv. destruct l as [xs fresh|xs q|lf| |]; try discriminate; simpl.
  - split; [exact Hv|now rewrite app_nil_r].
  - split; [exact Hv|]. now rewrite (log_id_visible k s id lf Hv).
  - split; [exact Hv|now rewrite app_nil_r].
  - split; [exact Hv|now rewrite app_nil_r].
Qed.

Lemma run_stack_visible k ls : forall s id,
  forallb (fun l => negb (is_rid_layer l)) ls = true -> rid_visible k s id ->
  rid_visible k (run_stack k ls s) id /\
  s_logs (run_stack k ls s) = s_logs s ++ repeat id (count_logs ls).
Proof.
  induction ls as [|l r IH]; intros s id Hl Hv; simpl.
  - split; [exact Hv|now rewrite app_nil_r].
  - simpl in Hl. apply andb_prop in Hl as [H1 H2].
    assert (Hr : is_rid_layer l = false) by (now destruct (is_rid_layer l)).
    destruct (layer_step_visible k s l id Hr Hv) as [Hv' Hlog].
    destruct (IH _ id H2 Hv') as [Hv'' Hlog'].
    split; [exact Hv''|]. unfold run_stack in Hlog' |- *. rewrite Hlog', Hlog, <- app_assoc.
    f_equal. unfold count_logs. simpl. destruct (is_log_layer l); reflexivity.
Qed.

Lemma thm_stack_log_id_is_request_id k l1 xs fresh l2 s :
  fresh <> [] -> forallb (fun l => negb (is_rid_layer l)) l2 = true ->
  let final := run_stack k (l1 ++ LRid xs fresh :: l2) s in
  exists id, s_rid final = Some id /\ id <> [] /\
             s_logs final = s_logs (run_stack k l1 s) ++ repeat id (count_logs l2).
Proof.
  intros Hf Hl2. cbv zeta.
  assert (E : run_stack k (l1 ++ LRid xs fresh :: l2) s =
              run_stack k l2 (layer_step k (run_stack k l1 s) (LRid xs fresh))).
  { unfold run_stack. rewrite fold_left_app. reflexivity. }
  rewrite E. set (s1 := run_stack k l1 s).
  destruct (rid_step_visible k xs fresh s1 Hf) as (id & Hv & Hlog).
  destruct (run_stack_visible k l2 _ id Hl2 Hv) as [(Hs & Hne & _) Hlogs].
  exists id. split; [exact Hs|]. split; [exact Hne|]. now rewrite Hlogs, Hlog.
Qed.

(* a Log layer outside every request-id layer of a fresh request: http has no id
   yet and prints a generated one; grpc prints the caller's raw x-request-id *)
Lemma thm_stack_log_before_request_id k fresh s :
  s_rid s = None ->
  s_logs (layer_step k s (LLog fresh)) = s_logs s ++
    [match k with KHttp => fresh | _ => if is_empty (hget (s_md s) XRID) then fresh else hget (s_md s) XRID end].
Proof. intro Hs. simpl. unfold log_id. rewrite Hs. destruct k; reflexivity. Qed.

Lemma sum_writes_no_flush h : sum_writes (no_flush h) = sum_writes h.
Proof. induction h as [|e r IH]; simpl; [reflexivity|]. destruct e; simpl; now rewrite IH. Qed.

Lemma log_reports_bytes ls h : forall b, Forall (fun c => cap_bytes c = sum_writes h) (log_reports_aux b ls h).
Proof.
  induction ls as [|l r IH]; intro b; simpl; [constructor|].
  destruct (is_log_layer l).
  - constructor; [|apply IH].
    destruct (negb (existsb is_debug_layer r) && b);
      [apply (proj1 (thm_capture_reports_bytes_written h))|].
    rewrite (proj1 (thm_capture_reports_bytes_written (no_flush h))). apply sum_writes_no_flush.
  - destruct (is_debug_layer l); apply IH.
Qed.

Lemma thm_log_reports_bytes_written ls h :
  Forall (fun c => cap_bytes c = sum_writes h) (log_reports ls h) /\
  w_bytes (sent (writer_history ls h)) = sum_writes h.
Proof.
  split; [apply log_reports_bytes|].
  unfold writer_history. destruct (existsb is_debug_layer ls).
  - rewrite (proj2 (thm_capture_reports_bytes_written (no_flush h))). apply sum_writes_no_flush.
  - apply (proj2 (thm_capture_reports_bytes_written h)).
Qed.

Lemma log_reports_no_debug ls h : existsb is_debug_layer ls = false ->
  log_reports_aux true ls h = repeat (capture h) (count_logs ls).
Proof.
  induction ls as [|l r IH]; simpl; intro H; [reflexivity|].
  apply orb_false_elim in H as [H1 H2]. unfold count_logs. simpl.
  destruct (is_log_layer l).
  - rewrite H2. simpl. f_equal. apply IH, H2.
  - rewrite H1. apply IH, H2.
Qed.

Lemma thm_log_reports_written_partial ls h :
  forallb final_code h = true -> existsb is_debug_layer ls = false ->
  length (log_reports ls h) = count_logs ls /\
  Forall (fun c => reported_status c = w_status (sent (writer_history ls h)) /\
                   cap_bytes c = w_bytes (sent (writer_history ls h))) (log_reports ls h).
Proof.
  intros Hf Hd. unfold log_reports, writer_history. rewrite (log_reports_no_debug ls h Hd), Hd.
  split; [apply repeat_length|].
  apply Forall_forall. intros c Hc. apply repeat_spec in Hc. subst c.
  exact (thm_capture_reports_written h Hf).
Qed.

Lemma thm_log_reports_written_refuted :
  exists ls h, forallb final_code h = true /\ ls = [LDebug; LLog []; LLog []] /\ h = [Flush; WriteHeader 404] /\
    exists c, In c (log_reports ls h) /\ reported_status c <> w_status (sent (writer_history ls h)).
Proof.
  exists [LDebug; LLog []; LLog []], [Flush; WriteHeader 404].
  split; [reflexivity|]. split; [reflexivity|]. split; [reflexivity|].
  exists {| cap_status := 200; cap_bytes := 0 |}. split; [vm_compute; auto|vm_compute; discriminate].
Qed.

(* ---------------- option guards ---------------- *)

Definition opts_in_range (o : trace_opts) : Prop :=
  (0 <= t_percent o <= 100)%Z /\ (0 <= t_maxrate o)%Z /\ (0 < t_size o)%Z.

Lemma fold_opts_in_range xs : forall o,
  forallb trace_opt_ok xs = true -> opts_in_range o -> opts_in_range (fold_left apply_trace_opt xs o).
Proof.
  induction xs as [|x r IH]; intros o Hok Ho; simpl; [exact Ho|].
  simpl in Hok. apply andb_prop in Hok as [H1 H2]. apply IH; [exact H2|].
  destruct Ho as (Hp & Hm & Hs). destruct x; simpl in *; unfold opts_in_range; simpl; repeat split; lia.
Qed.

Lemma thm_checked_options_in_range xs o :
  trace_options_checked xs = Some o ->
  (0 <= t_percent o <= 100)%Z /\ (0 <= t_maxrate o)%Z /\ (0 < t_size o)%Z.
Proof.
  unfold trace_options_checked. destruct (forallb trace_opt_ok xs) eqn:E; [|discriminate].
  intros [= <-]. apply (fold_opts_in_range xs trace_default E). unfold opts_in_range, trace_default; simpl. lia.
Qed.

Lemma thm_checked_fixed_sampling_exact xs o r :
  trace_options_checked xs = Some o -> t_maxrate o = 0%Z -> (0 <= r < 100)%Z ->
  exists p, new_sampler o = Fixed p /\ fst (fst (sample (new_sampler o) 0 r)) = (r <? p)%Z /\
            (p = 0%Z -> fst (fst (sample (new_sampler o) 0 r)) = false) /\
            (p = 100%Z -> fst (fst (sample (new_sampler o) 0 r)) = true).
Proof.
  intros Hc Hm Hr. destruct (thm_checked_options_in_range xs o Hc) as (Hp & _ & _).
  exists (t_percent o). unfold new_sampler. rewrite Hm. simpl.
  rewrite (fixed_sample_spec (t_percent o) r Hp Hr). repeat split; intros ->; lia.
Qed.

Lemma thm_checked_adaptive_warmup xs o ins :
  trace_options_checked xs = Some o -> (0 < t_maxrate o)%Z ->
  (N.of_nat (length ins) < N.modulo (Z.to_N (t_size o)) two32)%N ->
  fst (sample_seq (new_sampler o) ins) = repeat true (length ins).
Proof.
  intros Hc Hm Hl. unfold new_sampler.
  assert ((0 <? t_maxrate o)%Z = true) as -> by lia.
  apply (adaptive_warmup_gen (t_maxrate o) _ ins 0%N).
  - apply N.mod_lt. unfold two32. lia.
  - lia.
Qed.
