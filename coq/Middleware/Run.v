(* Correspondence glue: short constructors for the case files the harness writes,
   boolean equalities, and for every stream the function that lists the indexes
   of the cases on which the model and the observed behaviour of the Go code
   differ (evaluated by vm_compute). *)
From Middleware Require Import Model.

Definition mkc (t s p : option bytes) : tctx := {| c_trace := t; c_span := s; c_parent := p |}.

Definition mkq (url : bool) (ms : list bool) (tr pa : list bytes) (base : tctx)
           (computed draw : Z) (nt ns : bytes) : treq :=
  {| q_url := url; q_matches := ms; q_trace := tr; q_parent := pa; q_base := base;
     q_computed := computed; q_draw := draw; q_newtrace := nt; q_newspan := ns |}.

Definition mkr (c : tctx) (ud ut us : bool) : tres :=
  {| r_ctx := c; r_used_draw := ud; r_used_trace := ut; r_used_span := us |}.

Definition mkh (k : kind) (xs : list trace_opt) (q : treq) (out : thdrs) (cl : list client_layer) : hop :=
  {| h_kind := k; h_opts := trace_options xs; h_req := q; h_out := out; h_client := cl |}.

Fixpoint eqb_list {A} (eqb : A -> A -> bool) (a b : list A) : bool :=
  match a, b with
  | [], [] => true
  | x :: a', y :: b' => eqb x y && eqb_list eqb a' b'
  | _, _ => false
  end.

Definition eqb_bytes : bytes -> bytes -> bool := eqb_list N.eqb.

Definition eqb_opt {A} (eqb : A -> A -> bool) (a b : option A) : bool :=
  match a, b with
  | None, None => true
  | Some x, Some y => eqb x y
  | _, _ => false
  end.

Definition eqb_ctx (a b : tctx) : bool :=
  eqb_opt eqb_bytes (c_trace a) (c_trace b) && eqb_opt eqb_bytes (c_span a) (c_span b) &&
  eqb_opt eqb_bytes (c_parent a) (c_parent b).

Definition eqb_res (a b : tres) : bool :=
  eqb_ctx (r_ctx a) (r_ctx b) && Bool.eqb (r_used_draw a) (r_used_draw b) &&
  Bool.eqb (r_used_trace a) (r_used_trace b) && Bool.eqb (r_used_span a) (r_used_span b).

Definition eqb_thdrs (a b : thdrs) : bool :=
  eqb_list eqb_bytes (fst a) (fst b) && eqb_list eqb_bytes (snd a) (snd b).

Definition is_nil {A} (l : list A) : bool := match l with [] => true | _ => false end.

(* ---- request id: every case is run twice on the Go side (ids : the two ids the
   handler saw, mds : the x-request-id values of the incoming metadata the gRPC
   handler saw, both [] for HTTP). A selected id must be reproduced exactly; a
   generated one must be non-empty and differ between the two runs. ---- *)
Definition rid_case := (N * kind * list rid_opt * headers * option bytes * (bytes * bytes) * (list bytes * list bytes))%type.

Definition rid_ok (k : kind) (xs : list rid_opt) (h : headers) (pre : option bytes)
           (ids : bytes * bytes) (mds : list bytes * list bytes) : bool :=
  let o := rid_options xs in
  let '(id1, id2) := ids in
  let idok :=
    match select_id o (inbound_ctx o (rid_key k o) h pre) with
    | Some i => eqb_bytes id1 i && eqb_bytes id2 i
    | None => negb (is_empty id1) && negb (is_empty id2) && negb (eqb_bytes id1 id2)
    end in
  let r1 := rid_step k o h pre id1 in
  let r2 := rid_step k o h pre id2 in
  let stepok := eqb_bytes (fst r1) id1 && eqb_bytes (fst r2) id2 in
  let mdok :=
    match snd r1, snd r2 with
    | None, None => is_nil (fst mds) && is_nil (snd mds)
    | Some m1, Some m2 => eqb_list eqb_bytes (hvals m1 XRID) (fst mds) &&
                          eqb_list eqb_bytes (hvals m2 XRID) (snd mds)
    | _, _ => false
    end in
  idok && stepok && mdok.

Definition rid_mismatches (cs : list rid_case) : list N :=
  flat_map (fun c => match c with (i, k, xs, h, pre, ids, mds) =>
     if rid_ok k xs h pre ids mds then [] else [i] end) cs.

(* ---- trace: a sequence of requests through one middleware instance ---- *)
Definition trace_case := (N * kind * list trace_opt * list treq * list tres)%type.

Definition trace_mismatches (cs : list trace_case) : list N :=
  flat_map (fun c => match c with (i, k, xs, qs, obs) =>
     if eqb_list eqb_res (trace_run k xs qs) obs then [] else [i] end) cs.

(* ---- chains ---- *)
Definition chain_case := (N * list hop * thdrs * list (thdrs * tctx))%type.

Definition chain_mismatches (cs : list chain_case) : list N :=
  flat_map (fun c => match c with (i, hops, inb, obs) =>
     if eqb_list (fun a b => eqb_thdrs (fst a) (fst b) && eqb_ctx (snd a) (snd b)) (chain hops inb) obs
     then [] else [i] end) cs.

(* ---- capture: (StatusCode, ContentLength) of the ResponseCapture and (status,
   body length) of the writer underneath (a recorder reports 200 when nothing
   was written) ---- *)
Definition capture_case := (N * list wevent * (Z * N) * (Z * N))%type.

Definition capture_mismatches (cs : list capture_case) : list N :=
  flat_map (fun c => match c with (i, h, (cst, cby), (wst, wby)) =>
     let m := capture h in
     let w := sent h in
     if (cap_status m =? cst)%Z && N.eqb (cap_bytes m) cby &&
        (match w_status w with Some s => s | None => 200%Z end =? wst)%Z && N.eqb (w_bytes w) wby
     then [] else [i] end) cs.

(* ---- fixed sampler table: every percentage against every draw ---- *)
Definition sampler_mismatches (cs : list (N * Z * Z * bool)) : list N :=
  flat_map (fun c => match c with (i, p, r, b) =>
     if Bool.eqb (fixed_sample p r) b then [] else [i] end) cs.

(* ---- stacks: what the innermost handler found (RequestIDKey value, x-request-id
   metadata values, the three trace keys) and what the client stack called from the
   handler put on the wire ---- *)
Definition stack_case := (N * kind * list layer * headers * list client_layer * list wevent *
                          (option bytes * list bytes * tctx * option thdrs) *
                          (list bytes * list (Z * N) * (Z * N)))%type.

(* logs: the id every Log layer printed (outermost first); http only: the status /
   bytes every Log layer printed and what the recorder underneath received *)
Definition stack_mismatches (cs : list stack_case) : list N :=
  flat_map (fun c => match c with (i, k, ls, h, cl, hist, (orid, omd, octx, ofwd), (oids, oreports, (wst, wby))) =>
     let s := run_stack k ls {| s_rid := None; s_md := h; s_tctx := empty_ctx; s_logs := [] |} in
     let mdok := match k with KHttp => true | _ => eqb_list eqb_bytes (hvals (s_md s) XRID) omd end in
     let reps := log_reports ls hist in
     let w := sent (writer_history ls hist) in
     let repok := match k with
                  | KHttp => eqb_list (fun a b => (fst a =? fst b)%Z && N.eqb (snd a) (snd b))
                                      (map (fun c => (cap_status c, cap_bytes c)) reps) oreports &&
                             (match w_status w with Some st => st | None => 200%Z end =? wst)%Z && N.eqb (w_bytes w) wby
                  | _ => is_nil oreports
                  end in
     if eqb_opt eqb_bytes (s_rid s) orid && mdok && eqb_ctx (s_tctx s) octx &&
        eqb_opt eqb_thdrs (client_stack cl (s_tctx s) ([], [])) ofwd &&
        eqb_list eqb_bytes (s_logs s) oids && forallb (fun b => negb (is_empty b)) oids && repok
     then [] else [i] end) cs.

(* ---- option constructors: does building the option list panic? ---- *)
Definition opts_mismatches (cs : list (N * list trace_opt * bool)) : list N :=
  flat_map (fun c => match c with (i, xs, panicked) =>
     if Bool.eqb (match trace_options_checked xs with None => true | Some _ => false end) panicked
     then [] else [i] end) cs.
