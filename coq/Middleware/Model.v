(* Middleware engine — executable model of
     middleware/requestid.go        NewRequestIDOptions, the three options, GenerateRequestID
     http/middleware/requestid.go   RequestID
     grpc/middleware/requestid.go   UnaryRequestID / StreamRequestID / generateRequestID
     middleware/trace.go            NewTraceOptions, NewSampler, WithSpan
     middleware/sampler.go          fixedSampler.Sample, adaptiveSampler.Sample
     http/middleware/trace.go       Trace, tracedDoer.Do (WrapDoer)
     grpc/middleware/trace.go       withTrace (unary and stream), setTrace (client interceptors)
     http/middleware/capture.go     ResponseCapture.committed / WriteHeader / Write / Flush
   and of the writer underneath a ResponseCapture (net/http semantics: the first
   WriteHeader, Write or Flush commits the status line; later WriteHeader calls are
   ignored), which is what "the status actually written" refers to.
   Definitions only; proofs are in Lemmas.v, property statements in Properties.v.

   Everything outside goa enters as data: identifiers returned by shortID /
   TraceIDFunc / SpanIDFunc, the value intn returns, the rate the adaptive sampler
   computes from the wall clock, and the result of every regular-expression match. *)
From Coq Require Export List Bool ZArith NArith.
Export ListNotations.

Definition bytes := list N.            (* a Go string, byte by byte *)

Definition is_empty (b : bytes) : bool := match b with [] => true | _ => false end.
Definition blen (b : bytes) : Z := Z.of_nat (length b).

(* Header / metadata multimaps. Names are small numbers the harness assigns to
   canonical header names (net/http canonicalises, gRPC metadata lower-cases). *)
Definition headers := list (N * list bytes).

Fixpoint hvals (h : headers) (k : N) : list bytes :=
  match h with
  | [] => []
  | (k', vs) :: r => if N.eqb k k' then vs else hvals r k
  end.

(* http.Header.Get / grpc middleware.MetadataValue: first value, or "" *)
Definition first_value (vs : list bytes) : bytes := hd [] vs.
Definition hget (h : headers) (k : N) : bytes := first_value (hvals h k).
(* http.Header.Set / metadata.MD.Set *)
Definition hset (h : headers) (k : N) (v : bytes) : headers :=
  (k, [v]) :: filter (fun p => negb (N.eqb (fst p) k)) h.

Inductive kind := KHttp | KUnary | KStream.

(* ------------------------------------------------------------------ *)
(* Request ID                                                          *)
(* ------------------------------------------------------------------ *)

Definition XRID : N := 0%N.        (* "X-Request-Id" / "x-request-id" *)
Definition NONAME : N := 1%N.      (* the empty header name (zero value of requestIDHeader) *)

Record rid_opts := { use_rid : bool; rid_header : N; rid_limit : Z }.

Inductive rid_opt :=
| OUse (f : bool)        (* UseRequestIDOption / UseXRequestIDHeaderOption / UseXRequestIDMetadataOption *)
| OHeader (h : N)        (* RequestIDHeaderOption *)
| OLimit (n : Z).        (* RequestIDLimitOption / XRequestHeaderLimitOption / XRequestMetadataLimitOption *)

Definition rid_default : rid_opts := {| use_rid := false; rid_header := NONAME; rid_limit := 0 |}.

Definition apply_rid_opt (o : rid_opts) (x : rid_opt) : rid_opts :=
  match x with
  | OUse f => {| use_rid := f; rid_header := XRID; rid_limit := rid_limit o |}
  | OHeader h => {| use_rid := true; rid_header := h; rid_limit := rid_limit o |}
  | OLimit n => {| use_rid := use_rid o; rid_header := rid_header o; rid_limit := n |}
  end.

(* NewRequestIDOptions *)
Definition rid_options (xs : list rid_opt) : rid_opts := fold_left apply_rid_opt xs rid_default.

(* if o.requestIDLimit > 0 && len(id) > o.requestIDLimit { id = id[:o.requestIDLimit] } *)
Definition truncate (limit : Z) (id : bytes) : bytes :=
  if ((0 <? limit) && (limit <? blen id))%Z then firstn (Z.to_nat limit) id else id.

(* GenerateRequestID up to the point where shortID() would be called:
   Some id = the id taken from the context, None = a new id is generated.
   ctxval is ctx.Value(RequestIDKey). *)
Definition select_id (o : rid_opts) (ctxval : option bytes) : option bytes :=
  let id := if use_rid o
            then match ctxval with Some i => truncate (rid_limit o) i | None => [] end
            else [] in
  if is_empty id then None else Some id.

(* fresh = the string shortID() returns if it is called *)
Definition generate_request_id (o : rid_opts) (ctxval : option bytes) (fresh : bytes) : bytes :=
  match select_id o ctxval with Some i => i | None => fresh end.

(* the transport part: copy the inbound header / metadata value into the context
   when the middleware is configured to use it and it is not empty; pre is the
   value the incoming context already carried under RequestIDKey, if any *)
Definition inbound_ctx (o : rid_opts) (key : N) (h : headers) (pre : option bytes) : option bytes :=
  if use_rid o
  then (let v := hget h key in if is_empty v then pre else Some v)
  else pre.

(* the header the variant reads: HTTP the configured one, gRPC always x-request-id *)
Definition rid_key (k : kind) (o : rid_opts) : N :=
  match k with KHttp => rid_header o | _ => XRID end.

(* one request through RequestID / UnaryRequestID / StreamRequestID: the id the
   handler finds in its context, and (gRPC) the incoming metadata it finds *)
Definition rid_step (k : kind) (o : rid_opts) (h : headers) (pre : option bytes) (fresh : bytes)
  : bytes * option headers :=
  let id := generate_request_id o (inbound_ctx o (rid_key k o) h pre) fresh in
  (id, match k with KHttp => None | _ => Some (hset h XRID id) end).

(* ------------------------------------------------------------------ *)
(* Samplers                                                            *)
(* ------------------------------------------------------------------ *)

Definition UPPER : Z := 10000.                    (* adaptiveUpperBoundInt *)
Definition two32 : N := 4294967296%N.

Inductive sampler :=
| Fixed (p : Z)
| Adaptive (maxrate : Z) (size : N) (counter : N) (last : Z).

(* fixedSampler.Sample with r = the value intn(100) returns if it is called *)
Definition fixed_sample (p r : Z) : bool := ((0 <? p) && ((p =? 100) || (r <? p)))%Z.
Definition fixed_draws (p : Z) : bool := ((0 <? p) && negb (p =? 100))%Z.

Definition clamp (c : Z) : Z := if (UPPER <? c)%Z then UPPER else if (c <? 1)%Z then 1%Z else c.

(* one call of Sample(): (sampled, intn was called, sampler afterwards).
   computed = int(maxSamplingRate * 10000 / (sampleSize / elapsed seconds)), the
   wall-clock dependent rate, only used when the counter reaches the sample size *)
Definition sample (s : sampler) (computed draw : Z) : bool * bool * sampler :=
  match s with
  | Fixed p => (fixed_sample p draw, fixed_draws p, s)
  | Adaptive m size counter last =>
    let c1 := N.modulo (counter + 1) two32 in
    let adjust := N.eqb c1 size in
    let rate := if adjust then clamp computed else last in
    let s' := if adjust then Adaptive m size 0 rate else Adaptive m size c1 last in
    (((rate =? UPPER) || (draw <? rate))%Z, negb (rate =? UPPER)%Z, s')
  end.

(* a run of Sample() calls on one sampler: the decisions and the final state;
   every call gets its own (computed, draw) pair *)
Fixpoint sample_seq (s : sampler) (ins : list (Z * Z)) : list bool * sampler :=
  match ins with
  | [] => ([], s)
  | (cmp, d) :: r =>
    match sample s cmp d with
    | (b, _, s') => let '(bs, sf) := sample_seq s' r in (b :: bs, sf)
    end
  end.

(* ------------------------------------------------------------------ *)
(* Trace options                                                       *)
(* ------------------------------------------------------------------ *)

Record trace_opts := { t_percent : Z; t_maxrate : Z; t_size : Z; t_ndisc : nat }.

Inductive trace_opt :=
| OPercent (p : Z)       (* SamplingPercent, 0 <= p <= 100 (panics otherwise) *)
| OMaxRate (r : Z)       (* MaxSamplingRate, r > 0 *)
| OSize (s : Z)          (* SampleSize, s > 0 *)
| ODiscard               (* DiscardFromTrace: one more pattern *)
| OIdFuncs.              (* TraceIDFunc / SpanIDFunc: the generators are data here *)

Definition trace_default : trace_opts := {| t_percent := 100; t_maxrate := 0; t_size := 1000; t_ndisc := 0 |}.

Definition apply_trace_opt (o : trace_opts) (x : trace_opt) : trace_opts :=
  match x with
  | OPercent p => {| t_percent := p; t_maxrate := t_maxrate o; t_size := t_size o; t_ndisc := t_ndisc o |}
  | OMaxRate r => {| t_percent := t_percent o; t_maxrate := r; t_size := t_size o; t_ndisc := t_ndisc o |}
  | OSize s => {| t_percent := t_percent o; t_maxrate := t_maxrate o; t_size := s; t_ndisc := t_ndisc o |}
  | ODiscard => {| t_percent := t_percent o; t_maxrate := t_maxrate o; t_size := t_size o; t_ndisc := S (t_ndisc o) |}
  | OIdFuncs => o
  end.

Definition trace_options (xs : list trace_opt) : trace_opts := fold_left apply_trace_opt xs trace_default.

(* the option constructors panic on values outside their domain: SamplingPercent
   on p < 0 or p > 100, MaxSamplingRate on r <= 0, SampleSize on s <= 0 (the same
   guards are repeated in NewFixedSampler / NewAdaptiveSampler) *)
Definition trace_opt_ok (x : trace_opt) : bool :=
  match x with
  | OPercent p => ((0 <=? p) && (p <=? 100))%Z
  | OMaxRate r => (0 <? r)%Z
  | OSize s => (0 <? s)%Z
  | _ => true
  end.

(* None = building the option list panicked *)
Definition trace_options_checked (xs : list trace_opt) : option trace_opts :=
  if forallb trace_opt_ok xs then Some (trace_options xs) else None.

(* TraceOptions.NewSampler; uint32(sampleSize) *)
Definition new_sampler (o : trace_opts) : sampler :=
  if (0 <? t_maxrate o)%Z
  then Adaptive (t_maxrate o) (N.modulo (Z.to_N (t_size o)) two32) 0 UPPER
  else Fixed (t_percent o).

(* ------------------------------------------------------------------ *)
(* Server side trace middleware                                        *)
(* ------------------------------------------------------------------ *)

(* the three context keys TraceIDKey, TraceSpanIDKey, TraceParentSpanIDKey *)
Record tctx := { c_trace : option bytes; c_span : option bytes; c_parent : option bytes }.
Definition empty_ctx : tctx := {| c_trace := None; c_span := None; c_parent := None |}.

(* middleware.WithSpan *)
Definition with_span (c : tctx) (t s p : bytes) : tctx :=
  {| c_trace := Some t; c_span := Some s; c_parent := if is_empty p then c_parent c else Some p |}.

(* one inbound request as the trace middleware sees it *)
Record treq := {
  q_url : bool;                 (* HTTP: r.URL != nil *)
  q_matches : list bool;        (* result of MatchString for every discard pattern, in order *)
  q_trace : list bytes;         (* values of the TraceID header / trace-id metadata *)
  q_parent : list bytes;        (* values of the ParentSpanID header / parent-span-id metadata *)
  q_base : tctx;                (* trace keys already present in the request context *)
  q_computed : Z;               (* adaptive sampler: rate computed from the clock, if it adjusts now *)
  q_draw : Z;                   (* the value intn returns if it is called *)
  q_newtrace : bytes;           (* what TraceIDFunc returns if it is called *)
  q_newspan : bytes             (* what SpanIDFunc returns if it is called *)
}.

(* the context handed to the wrapped handler, and which of the external
   functions were called on the way *)
Record tres := { r_ctx : tctx; r_used_draw : bool; r_used_trace : bool; r_used_span : bool }.

Definition any_true (l : list bool) : bool := existsb (fun b => b) l.

Definition discarded (k : kind) (o : trace_opts) (q : treq) : bool :=
  let m := any_true (firstn (t_ndisc o) (q_matches q)) in
  match k with KHttp => q_url q && m | _ => m end.

Definition finish_trace (q : treq) (t : bytes) (ud ut : bool) : tres :=
  if is_empty t
  then {| r_ctx := q_base q; r_used_draw := ud; r_used_trace := ut; r_used_span := false |}
  else {| r_ctx := with_span (q_base q) t (q_newspan q) (first_value (q_parent q));
          r_used_draw := ud; r_used_trace := ut; r_used_span := true |}.

(* http Trace (k = KHttp: one sampler per middleware instance, s is its state)
   and grpc withTrace (a new sampler for every request) *)
Definition trace_step (k : kind) (o : trace_opts) (s : sampler) (q : treq) : tres * sampler :=
  let t0 := first_value (q_trace q) in
  if negb (is_empty t0) then (finish_trace q t0 false false, s)
  else if discarded k o q then (finish_trace q [] false false, s)
  else
    let s0 := match k with KHttp => s | _ => new_sampler o end in
    match sample s0 (q_computed q) (q_draw q) with
    | (sampled, ud, s1) =>
      let s2 := match k with KHttp => s1 | _ => s end in
      if sampled then (finish_trace q (q_newtrace q) ud true, s2)
      else (finish_trace q [] ud false, s2)
    end.

(* a sequence of requests through one middleware instance *)
Fixpoint trace_seq (k : kind) (o : trace_opts) (s : sampler) (qs : list treq) : list tres :=
  match qs with
  | [] => []
  | q :: r => let '(res, s') := trace_step k o s q in res :: trace_seq k o s' r
  end.

Definition trace_run (k : kind) (xs : list trace_opt) (qs : list treq) : list tres :=
  let o := trace_options xs in trace_seq k o (new_sampler o) qs.

(* ------------------------------------------------------------------ *)
(* Client side: tracedDoer.Do / setTrace, and call chains              *)
(* ------------------------------------------------------------------ *)

(* the two trace headers of a request: (TraceID values, ParentSpanID values) *)
Definition thdrs := (list bytes * list bytes)%type.

(* out = what the outgoing request already carried. None = the Go code panics
   (trace id present, span id absent: nil.(string)) *)
Definition client_forward (c : tctx) (out : thdrs) : option thdrs :=
  match c_trace c with
  | None => Some out
  | Some t => match c_span c with
              | Some s => Some ([t], [s])
              | None => None
              end
  end.

(* The client side is a stack too: the traced client (WrapDoer / UnaryClientTrace /
   StreamClientTrace) composed, in any order, with wrappers that have to be
   transparent for the request context and the trace headers: goahttp.NewDebugDoer
   (what the generated CLI puts around the client with -debug), goagrpc.NewInvoker,
   user interceptors. First = outermost. The context the handler passed travels
   through every layer unchanged; only the traced layer touches the trace headers. *)
Inductive client_layer := CTraced | CTransparent.

Fixpoint client_stack (ls : list client_layer) (c : tctx) (out : thdrs) : option thdrs :=
  match ls with
  | [] => Some out
  | CTransparent :: r => client_stack r c out
  | CTraced :: r => match client_forward c out with
                    | Some o => client_stack r c o
                    | None => None
                    end
  end.

Definition has_traced (ls : list client_layer) : bool :=
  existsb (fun l => match l with CTraced => true | CTransparent => false end) ls.

Definition set_inbound (q : treq) (i : thdrs) : treq :=
  {| q_url := q_url q; q_matches := q_matches q; q_trace := fst i; q_parent := snd i;
     q_base := q_base q; q_computed := q_computed q; q_draw := q_draw q;
     q_newtrace := q_newtrace q; q_newspan := q_newspan q |}.

(* one service of a chain: its transport, options, everything about its request
   except the trace headers (those come from the caller), the trace headers the
   handler had put on its own outgoing request before the client ran, and the
   client stack it calls the next service through *)
Record hop := { h_kind : kind; h_opts : trace_opts; h_req : treq; h_out : thdrs; h_client : list client_layer }.

Definition hop_ctx (h : hop) (i : thdrs) : tctx :=
  r_ctx (fst (trace_step (h_kind h) (h_opts h) (new_sampler (h_opts h)) (set_inbound (h_req h) i))).

(* server 1 -> client stack -> server 2 -> ... : the trace headers each server
   receives and the context each handler runs with *)
Fixpoint chain (hops : list hop) (i : thdrs) : list (thdrs * tctx) :=
  match hops with
  | [] => []
  | h :: rest =>
    let c := hop_ctx h i in
    (i, c) :: match client_stack (h_client h) c (h_out h) with
              | Some i' => chain rest i'
              | None => []
              end
  end.

(* ------------------------------------------------------------------ *)
(* Middleware stacks                                                   *)
(* ------------------------------------------------------------------ *)

(* A server composes its middlewares (http: nested handlers, grpc:
   ChainUnaryInterceptor / ChainStreamInterceptor, first = outermost). Besides the
   request-id and trace layers there are layers that must be transparent for the
   identifiers: the Log middlewares, Debug, PopulateRequestContext,
   RequestContextKeyVals and grpc StreamCanceler, whose per-stream context is
   context.WithCancel(ss.Context()) — a child of the incoming context, so every
   value set by an earlier layer is still there. *)
Inductive layer :=
| LRid (xs : list rid_opt) (fresh : bytes)
| LTrace (xs : list trace_opt) (q : treq)      (* q_base is ignored: the base is the incoming context *)
| LLog (fresh : bytes)    (* http Log / LogContext, grpc Unary/StreamServerLog(Context); fresh = shortID() if called *)
| LDebug                  (* http Debug: transparent for the context, but its writer wrapper is no http.Flusher *)
| LTransparent.

(* what the next layer (finally the handler) finds: RequestIDKey, the incoming
   headers / metadata, the three trace keys *)
Record sstate := { s_rid : option bytes; s_md : headers; s_tctx : tctx;
                   s_logs : list bytes (* the "id" every Log layer printed, outermost first *) }.

(* the id a Log middleware prints: http takes RequestIDKey from the context, grpc
   takes the first x-request-id value of the incoming metadata (which is why the
   grpc request-id middleware writes the id back into the metadata); a new short id
   when there is none *)
Definition log_id (k : kind) (s : sstate) (fresh : bytes) : bytes :=
  match k with
  | KHttp => match s_rid s with Some id => id | None => fresh end
  | _ => let v := hget (s_md s) XRID in if is_empty v then fresh else v
  end.

Definition set_base (q : treq) (b : tctx) : treq :=
  {| q_url := q_url q; q_matches := q_matches q; q_trace := q_trace q; q_parent := q_parent q;
     q_base := b; q_computed := q_computed q; q_draw := q_draw q;
     q_newtrace := q_newtrace q; q_newspan := q_newspan q |}.

(* context.WithCancel(ctx): same values *)
Definition with_cancel (s : sstate) : sstate := s.

Definition layer_step (k : kind) (s : sstate) (l : layer) : sstate :=
  match l with
  | LRid xs fresh =>
    let '(id, md) := rid_step k (rid_options xs) (s_md s) (s_rid s) fresh in
    {| s_rid := Some id; s_md := match md with Some m => m | None => s_md s end; s_tctx := s_tctx s;
       s_logs := s_logs s |}
  | LTrace xs q =>
    let o := trace_options xs in
    {| s_rid := s_rid s; s_md := s_md s;
       s_tctx := r_ctx (fst (trace_step k o (new_sampler o) (set_base q (s_tctx s))));
       s_logs := s_logs s |}
  | LLog fresh =>
    {| s_rid := s_rid s; s_md := s_md s; s_tctx := s_tctx s; s_logs := s_logs s ++ [log_id k s fresh] |}
  | LDebug => s
  | LTransparent => with_cancel s
  end.

Definition run_stack (k : kind) (ls : list layer) (s : sstate) : sstate := fold_left (layer_step k) ls s.

Definition is_trace_layer (l : layer) : bool := match l with LTrace _ _ => true | _ => false end.
Definition is_rid_layer (l : layer) : bool := match l with LRid _ _ => true | _ => false end.
Definition is_log_layer (l : layer) : bool := match l with LLog _ => true | _ => false end.
Definition is_debug_layer (l : layer) : bool := match l with LDebug => true | _ => false end.
Definition count_logs (ls : list layer) : nat := length (filter is_log_layer ls).

(* ------------------------------------------------------------------ *)
(* Response capture                                                    *)
(* ------------------------------------------------------------------ *)

Inductive wevent :=
| WriteHeader (c : Z)
| Write (n : N)           (* n = the byte count the underlying writer returned *)
| Flush                   (* the writer underneath is a Flusher (net/http, recorder) *)
| Copy (n : N)            (* io.Copy(w, non-empty reader without WriteTo): Write, or ReadFrom if w has it; n = bytes copied *)
| WriteString (n : N)     (* io.WriteString(w, s): WriteString if w has it, else Write *)
| CtlFlush.               (* http.NewResponseController(w).Flush() *)

Record cap := { cap_status : Z; cap_bytes : N }.

(* ResponseCapture.committed: a final status has been recorded (1xx informational
   codes other than 101 are not final) *)
Definition final_status (c : Z) : bool := ((200 <=? c) || (c =? 101))%Z.

(* WriteHeader / Write / Flush of ResponseCapture. The capture implements neither
   io.ReaderFrom nor io.StringWriter nor FlushError: io.Copy and io.WriteString reach
   Write, a ResponseController reaches Flush — whatever the route, a body write
   behaves like Write and a flush like Flush (that is the property) *)
Definition cap_step (s : cap) (e : wevent) : cap :=
  let keep := final_status (cap_status s) in
  match e with
  | WriteHeader c => {| cap_status := if keep then cap_status s else c; cap_bytes := cap_bytes s |}
  | Write n | Copy n | WriteString n =>
    {| cap_status := if keep then cap_status s else 200%Z; cap_bytes := (cap_bytes s + n)%N |}
  | Flush | CtlFlush => {| cap_status := if keep then cap_status s else 200%Z; cap_bytes := cap_bytes s |}
  end.

Definition capture (h : list wevent) : cap := fold_left cap_step h {| cap_status := 0; cap_bytes := 0 |}.

(* the writer underneath: status line committed by the first event *)
Record wr := { w_status : option Z; w_bytes : N }.

Definition commit (s : option Z) (c : Z) : option Z := match s with None => Some c | Some _ => s end.

Definition wr_step (s : wr) (e : wevent) : wr :=
  match e with
  | WriteHeader c => {| w_status := commit (w_status s) c; w_bytes := w_bytes s |}
  | Write n | Copy n | WriteString n => {| w_status := commit (w_status s) 200; w_bytes := (w_bytes s + n)%N |}
  | Flush | CtlFlush => {| w_status := commit (w_status s) 200; w_bytes := w_bytes s |}
  end.

Definition sent (h : list wevent) : wr := fold_left wr_step h {| w_status := None; w_bytes := 0 |}.

(* StatusCode 0 means "no status written" *)
Definition reported_status (s : cap) : option Z :=
  if (cap_status s =? 0)%Z then None else Some (cap_status s).

(* histories whose WriteHeader codes are final statuses (>= 200, or 101); the
   informational 1xx responses of net/http are not modelled *)
Definition final_code (e : wevent) : bool :=
  match e with WriteHeader c => final_status c | _ => true end.

Fixpoint sum_writes (h : list wevent) : N :=
  match h with
  | [] => 0
  | (Write n | Copy n | WriteString n) :: r => (n + sum_writes r)%N
  | _ :: r => sum_writes r
  end.

Definition first_commit (h : list wevent) : option Z :=
  match h with
  | [] => None
  | WriteHeader c :: _ => Some c
  | _ :: _ => Some 200%Z
  end.

(* ---- what the http Log middlewares print about the response ----
   Every Log layer wraps the writer it received in a ResponseCapture and prints its
   StatusCode / ContentLength after the handler returned. Captures nest: each
   forwards WriteHeader / Write to the writer underneath. Flush is different:
   ResponseCapture always HAS a Flush method, which records the implicit 200 and
   forwards only if the writer underneath is an http.Flusher; Debug's writer wrapper
   is not one. So a handler's flush travels outwards through the captures until it
   meets a Debug wrapper; a capture records it iff the flush reaches it and its
   own underlying writer (the next wrapper outwards, or the server's writer) has a
   Flush method — which an outer ResponseCapture always has, even when ITS flush
   goes nowhere. *)
Definition is_flush (e : wevent) : bool := match e with Flush | CtlFlush => true | _ => false end.
Definition no_flush (h : list wevent) : list wevent := filter (fun e => negb (is_flush e)) h.

(* outer_flusher: the writer the current layer receives has a Flush method *)
Fixpoint log_reports_aux (outer_flusher : bool) (ls : list layer) (h : list wevent) : list cap :=
  match ls with
  | [] => []
  | l :: r =>
    if is_log_layer l then
      let records := negb (existsb is_debug_layer r) && outer_flusher in
      capture (if records then h else no_flush h) :: log_reports_aux true r h
    else if is_debug_layer l then log_reports_aux false r h
    else log_reports_aux outer_flusher r h
  end.

(* what every Log layer of the stack prints (outermost first) *)
Definition log_reports (ls : list layer) (h : list wevent) : list cap := log_reports_aux true ls h.

(* what reaches the server's writer: flushes only if no Debug wrapper is in the way *)
Definition writer_history (ls : list layer) (h : list wevent) : list wevent :=
  if existsb is_debug_layer ls then no_flush h else h.
