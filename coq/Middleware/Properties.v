(* C19 — property statements only. Every theorem is closed by lemmas of Lemmas.v
   and followed by Print Assumptions. Identifier generators, random draws, the
   clock-dependent adaptive rate and regular-expression results are universally
   quantified data (see Model.v); the only thing ever assumed of a generator is
   that the identifier it returns is not the empty string. *)
From Middleware Require Import Model Lemmas.

(* ---------------- request id ---------------- *)

(* Every request carries a non-empty request id: all option lists, all transports,
   all headers / metadata, any value already in the context, any generator that
   returns a non-empty string. *)
Theorem request_id_nonempty (k : kind) (xs : list rid_opt) (h : headers) (pre : option bytes) (fresh : bytes) :
  fresh <> [] -> fst (rid_step k (rid_options xs) h pre fresh) <> [].
Proof. exact (rid_step_nonempty k (rid_options xs) h pre fresh). Qed.
Print Assumptions request_id_nonempty.

(* Trusted and present: the id is the first `limit` bytes of the inbound value when
   limit > 0 and the whole value otherwise (limit 0 or negative). *)
Theorem request_id_trusted_prefix (k : kind) (o : rid_opts) (h : headers) (pre : option bytes) (fresh v : bytes) :
  use_rid o = true -> hget h (rid_key k o) = v -> v <> [] ->
  fst (rid_step k o h pre fresh) =
    if (0 <? rid_limit o)%Z then firstn (Z.to_nat (rid_limit o)) v else v.
Proof. exact (rid_step_trusted k o h pre fresh v). Qed.
Print Assumptions request_id_trusted_prefix.

(* Not trusted: the id is the generated one whatever the request carries. *)
Theorem request_id_untrusted_fresh (k : kind) (o : rid_opts) (h : headers) (pre : option bytes) (fresh : bytes) :
  use_rid o = false -> fst (rid_step k o h pre fresh) = fresh.
Proof. exact (rid_step_untrusted k o h pre fresh). Qed.
Print Assumptions request_id_untrusted_fresh.

(* Trusted but nothing inbound (absent or empty) on a fresh context: generated. *)
Theorem request_id_absent_fresh (k : kind) (o : rid_opts) (h : headers) (fresh : bytes) :
  hget h (rid_key k o) = [] -> fst (rid_step k o h None fresh) = fresh.
Proof. exact (rid_step_absent k o h fresh). Qed.
Print Assumptions request_id_absent_fresh.

(* HTTP / gRPC parity: variants that read the same header agree on the id; the
   unary and stream variants are the same function; the gRPC variants write the
   id back as the only x-request-id value and leave other keys alone. *)
Theorem request_id_parity (k1 k2 : kind) (o : rid_opts) (h : headers) (pre : option bytes) (fresh : bytes) :
  rid_key k1 o = rid_key k2 o ->
  fst (rid_step k1 o h pre fresh) = fst (rid_step k2 o h pre fresh).
Proof. exact (rid_step_parity k1 k2 o h pre fresh). Qed.
Print Assumptions request_id_parity.

Theorem request_id_unary_stream (o : rid_opts) (h : headers) (pre : option bytes) (fresh : bytes) :
  rid_step KUnary o h pre fresh = rid_step KStream o h pre fresh.
Proof. exact (rid_step_unary_stream o h pre fresh). Qed.
Print Assumptions request_id_unary_stream.

Theorem request_id_grpc_writeback (k : kind) (o : rid_opts) (h : headers) (pre : option bytes) (fresh id : bytes) (md : headers) :
  rid_step k o h pre fresh = (id, Some md) ->
  hvals md XRID = [id] /\ forall k', k' <> XRID -> hvals md k' = hvals h k'.
Proof. exact (rid_step_writeback k o h pre fresh id md). Qed.
Print Assumptions request_id_grpc_writeback.

(* the last option wins: a custom header name switches trust on, the use option
   resets the header to X-Request-Id, the limit option only sets the limit *)
Theorem request_id_options_last (xs : list rid_opt) (x : rid_opt) :
  rid_options (xs ++ [x]) = apply_rid_opt (rid_options xs) x.
Proof. exact (rid_options_snoc xs x). Qed.
Print Assumptions request_id_options_last.

(* ---------------- trace: one request ---------------- *)

(* A request that arrives with a trace id keeps it, whatever the options, the
   sampler state, the draw and the discard patterns; it receives the span its
   generator produced, and no sampler / trace-id generator is consulted. *)
Theorem trace_keeps_inbound (k : kind) (o : trace_opts) (s : sampler) (q : treq) (t : bytes) :
  first_value (q_trace q) = t -> t <> [] ->
  let res := fst (trace_step k o s q) in
  c_trace (r_ctx res) = Some t /\ c_span (r_ctx res) = Some (q_newspan q) /\
  r_used_draw res = false /\ r_used_trace res = false /\ snd (trace_step k o s q) = s.
Proof. exact (thm_trace_keeps_inbound k o s q t). Qed.
Print Assumptions trace_keeps_inbound.

(* ... and records the caller's span (the ParentSpanID it received) as its parent. *)
Theorem trace_parent_is_caller_span (k : kind) (o : trace_opts) (s : sampler) (q : treq) (t p : bytes) :
  first_value (q_trace q) = t -> t <> [] -> first_value (q_parent q) = p -> p <> [] ->
  c_parent (r_ctx (fst (trace_step k o s q))) = Some p.
Proof. exact (thm_trace_parent_is_caller_span k o s q t p). Qed.
Print Assumptions trace_parent_is_caller_span.

(* Whenever a request is traced at all its span is the freshly generated one
   (never a value taken from the request), and an untraced request runs with the
   context it came with. *)
Theorem trace_span_fresh (k : kind) (o : trace_opts) (s : sampler) (q : treq) :
  let res := fst (trace_step k o s q) in
  (r_used_span res = false /\ r_ctx res = q_base q) \/
  (exists t, t <> [] /\ r_used_span res = true /\
             r_ctx res = with_span (q_base q) t (q_newspan q) (first_value (q_parent q)) /\
             (t = first_value (q_trace q) \/ (first_value (q_trace q) = [] /\ t = q_newtrace q))).
Proof. exact (trace_step_shape k o s q). Qed.
Print Assumptions trace_span_fresh.

(* ---------------- sampling ---------------- *)

Theorem sampling_0_never (r : Z) : fixed_sample 0 r = false.
Proof. exact (fixed_sample_0 r). Qed.
Print Assumptions sampling_0_never.

Theorem sampling_100_always (r : Z) : fixed_sample 100 r = true.
Proof. exact (fixed_sample_100 r). Qed.
Print Assumptions sampling_100_always.

Theorem sampling_percent_exact (p r : Z) : (0 <= p <= 100)%Z -> (0 <= r < 100)%Z ->
  fixed_sample p r = (r <? p)%Z.
Proof. exact (fixed_sample_spec p r). Qed.
Print Assumptions sampling_percent_exact.

(* lifted to the middleware: with SamplingPercent(0) and no adaptive rate, no
   request without an inbound trace id is ever traced, for every sequence of
   requests, draws and discard results; with 100 every such request that is not
   discarded is traced under the generated trace id *)
Theorem sampling_0_never_traced (k : kind) (xs : list trace_opt) (qs : list treq) :
  let o := trace_options xs in
  (t_maxrate o <= 0)%Z -> t_percent o = 0%Z ->
  Forall (fun q => first_value (q_trace q) = []) qs ->
  map r_ctx (trace_run k xs qs) = map q_base qs.
Proof. exact (thm_sampling_0_never_traced k xs qs). Qed.
Print Assumptions sampling_0_never_traced.

Theorem sampling_100_always_traced (k : kind) (xs : list trace_opt) (qs : list treq) :
  let o := trace_options xs in
  (t_maxrate o <= 0)%Z -> t_percent o = 100%Z ->
  Forall (fun q => first_value (q_trace q) = [] /\ discarded k o q = false /\ q_newtrace q <> []) qs ->
  map r_ctx (trace_run k xs qs) =
  map (fun q => with_span (q_base q) (q_newtrace q) (q_newspan q) (first_value (q_parent q))) qs.
Proof. exact (thm_sampling_100_always_traced k xs qs). Qed.
Print Assumptions sampling_100_always_traced.

(* the default options sample everything *)
Theorem sampling_default_is_100 : new_sampler (trace_options []) = Fixed 100.
Proof. reflexivity. Qed.
Print Assumptions sampling_default_is_100.

(* The option constructors refuse values outside their domain, so every option
   list that can be built at all yields a percentage in [0,100], a non-negative
   maximum rate and a positive sample size: the range hypotheses of
   sampling_percent_exact and adaptive_warmup_samples_all are established by the
   code itself (uint32(sampleSize) < 2^32 by construction). *)
Theorem checked_options_in_range (xs : list trace_opt) (o : trace_opts) :
  trace_options_checked xs = Some o ->
  (0 <= t_percent o <= 100)%Z /\ (0 <= t_maxrate o)%Z /\ (0 < t_size o)%Z.
Proof. exact (thm_checked_options_in_range xs o). Qed.
Print Assumptions checked_options_in_range.

Theorem checked_fixed_sampling_exact (xs : list trace_opt) (o : trace_opts) (r : Z) :
  trace_options_checked xs = Some o -> t_maxrate o = 0%Z -> (0 <= r < 100)%Z ->
  exists p, new_sampler o = Fixed p /\ fst (fst (sample (new_sampler o) 0 r)) = (r <? p)%Z /\
            (p = 0%Z -> fst (fst (sample (new_sampler o) 0 r)) = false) /\
            (p = 100%Z -> fst (fst (sample (new_sampler o) 0 r)) = true).
Proof. exact (thm_checked_fixed_sampling_exact xs o r). Qed.
Print Assumptions checked_fixed_sampling_exact.

Theorem checked_adaptive_warmup (xs : list trace_opt) (o : trace_opts) (ins : list (Z * Z)) :
  trace_options_checked xs = Some o -> (0 < t_maxrate o)%Z ->
  (N.of_nat (length ins) < N.modulo (Z.to_N (t_size o)) 4294967296)%N ->
  fst (sample_seq (new_sampler o) ins) = repeat true (length ins).
Proof. exact (thm_checked_adaptive_warmup xs o ins). Qed.
Print Assumptions checked_adaptive_warmup.

(* adaptive sampler: the rate stays within [1, 10000] whatever the clock says, and
   until the sample size is reached for the first time every request is sampled *)
Theorem adaptive_rate_in_range (o : trace_opts) (ins : list (Z * Z)) :
  match snd (sample_seq (new_sampler o) ins) with
  | Adaptive _ _ _ last => (1 <= last <= 10000)%Z
  | Fixed _ => True
  end.
Proof. exact (thm_adaptive_rate_in_range o ins). Qed.
Print Assumptions adaptive_rate_in_range.

Theorem adaptive_warmup_samples_all (m : Z) (size : N) (ins : list (Z * Z)) :
  (size < 4294967296)%N -> (N.of_nat (length ins) < size)%N ->
  fst (sample_seq (Adaptive m size 0 10000) ins) = repeat true (length ins).
Proof. exact (thm_adaptive_warmup_samples_all m size ins). Qed.
Print Assumptions adaptive_warmup_samples_all.

(* ---------------- traced client and call chains ---------------- *)

(* the traced client forwards the current trace id and the CURRENT span as parent *)
Theorem client_forwards_trace_and_span (c : tctx) (out : thdrs) (t s : bytes) :
  c_trace c = Some t -> c_span c = Some s -> client_forward c out = Some ([t], [s]).
Proof. exact (client_forward_traced c out t s). Qed.
Print Assumptions client_forwards_trace_and_span.

Theorem client_untraced_unchanged (c : tctx) (out : thdrs) :
  c_trace c = None -> client_forward c out = Some out.
Proof. exact (client_forward_untraced c out). Qed.
Print Assumptions client_untraced_unchanged.

(* Wrappers that are transparent (goahttp.NewDebugDoer, goagrpc.NewInvoker, user
   interceptors: they pass the request context on) can be put anywhere in a client
   stack, around or inside the traced client, without changing what goes on the
   wire; a stack that contains the traced client forwards the current trace id and
   the current span whatever else it contains and whatever the request carried. *)
Theorem client_stack_transparent (l1 l2 : list client_layer) (c : tctx) (out : thdrs) :
  client_stack (l1 ++ CTransparent :: l2) c out = client_stack (l1 ++ l2) c out.
Proof. exact (thm_client_stack_transparent l1 l2 c out). Qed.
Print Assumptions client_stack_transparent.

Theorem client_stack_forwards (ls : list client_layer) (c : tctx) (out : thdrs) (t s : bytes) :
  has_traced ls = true -> c_trace c = Some t -> c_span c = Some s ->
  client_stack ls c out = Some ([t], [s]).
Proof. exact (client_stack_traced ls c out t s). Qed.
Print Assumptions client_stack_forwards.

(* A chain of any depth server -> traced client -> server -> ... whose first
   server traces the request under trace id t: nobody panics, every server of the
   chain receives t and runs under t, every server after the first received its
   caller's span as ParentSpanID and records it as its parent, and every server
   runs under the span its own generator produced. Each server has its own
   transport (HTTP, gRPC unary, gRPC stream), options, sampler draw, discard
   results, pre-existing outgoing headers, pre-existing context and its own client
   stack (debug doer around or inside the traced doer, ...); the only hypotheses
   are a fresh context at the first server, non-empty spans and that every client
   stack contains the traced client. *)
Theorem chain_shares_trace (h : hop) (hops : list hop) (i : thdrs) (t : bytes) :
  q_base (h_req h) = empty_ctx ->
  Forall (fun h => q_newspan (h_req h) <> [] /\ has_traced (h_client h) = true) (h :: hops) ->
  c_trace (hop_ctx h i) = Some t ->
  let cs := chain (h :: hops) i in
  length cs = S (length hops) /\
  Forall (fun ic => c_trace (snd ic) = Some t) cs /\
  map (fun ic => c_span (snd ic)) cs = map (fun h => Some (q_newspan (h_req h))) (h :: hops) /\
  (forall k a b, nth_error cs k = Some a -> nth_error cs (S k) = Some b ->
     c_parent (snd b) = c_span (snd a) /\
     first_value (fst (fst b)) = t /\
     Some (first_value (snd (fst b))) = c_span (snd a)).
Proof. exact (thm_chain_shares_trace h hops i t). Qed.
Print Assumptions chain_shares_trace.

(* a chain entered with a trace id and a parent span from outside behaves the same *)
Theorem chain_entered_with_trace (hops : list hop) (i : thdrs) (t p : bytes) :
  first_value (fst i) = t -> t <> [] -> first_value (snd i) = p -> p <> [] ->
  Forall (fun h => q_newspan (h_req h) <> [] /\ has_traced (h_client h) = true) hops ->
  let cs := chain hops i in
  length cs = length hops /\
  Forall (fun ic => c_trace (snd ic) = Some t) cs /\
  map (fun ic => c_span (snd ic)) cs = map (fun h => Some (q_newspan (h_req h))) hops /\
  map (fun ic => c_parent (snd ic)) cs =
    map Some (firstn (length hops) (p :: map (fun h => q_newspan (h_req h)) hops)).
Proof. exact (thm_chain_entered_with_trace hops i t p). Qed.
Print Assumptions chain_entered_with_trace.

(* ---------------- middleware stacks ---------------- *)

(* A layer that derives its context from the incoming one (the Log middlewares,
   Debug, PopulateRequestContext, RequestContextKeyVals, grpc StreamCanceler with
   ctx' = with_cancel ctx) can be inserted anywhere in a stack — outermost, between
   request-id and trace, innermost — without changing what the handler finds. *)
Theorem stack_transparent (k : kind) (l1 l2 : list layer) (s : sstate) :
  run_stack k (l1 ++ LTransparent :: l2) s = run_stack k (l1 ++ l2) s.
Proof. exact (thm_stack_transparent k l1 l2 s). Qed.
Print Assumptions stack_transparent.

(* once a request-id layer has run, every handler below it finds a non-empty id,
   whatever layers follow *)
Theorem stack_request_id_survives (k : kind) (l1 : list layer) (xs : list rid_opt) (fresh : bytes) (l2 : list layer) (s : sstate) :
  Forall (fun l => match l with LRid _ f => f <> [] | _ => True end) (l1 ++ LRid xs fresh :: l2) ->
  exists id, s_rid (run_stack k (l1 ++ LRid xs fresh :: l2) s) = Some id /\ id <> [].
Proof. exact (thm_stack_request_id_survives k l1 xs fresh l2 s). Qed.
Print Assumptions stack_request_id_survives.

(* a request that arrived with a trace id: below the trace layer, through any
   further non-trace layers, the handler runs under that trace and the fresh span,
   and a traced client called from the handler forwards exactly them *)
Theorem stack_trace_survives (k : kind) (l1 : list layer) (xs : list trace_opt) (q : treq) (l2 : list layer) (s : sstate) (t : bytes) :
  first_value (q_trace q) = t -> t <> [] ->
  forallb (fun l => negb (is_trace_layer l)) l2 = true ->
  let c := s_tctx (run_stack k (l1 ++ LTrace xs q :: l2) s) in
  c_trace c = Some t /\ c_span c = Some (q_newspan q) /\
  client_forward c ([], []) = Some ([t], [q_newspan q]).
Proof. exact (thm_stack_trace_survives k l1 xs q l2 s t). Qed.
Print Assumptions stack_trace_survives.

(* ---------------- Log middlewares: identifiers end to end ---------------- *)

(* Every Log layer placed below a request-id layer (any other layers in between and
   around, any transport) prints exactly the id the handler finds in its context:
   http reads it from the context, grpc from the x-request-id metadata the
   request-id middleware wrote back. *)
Theorem stack_log_id_is_request_id (k : kind) (l1 : list layer) (xs : list rid_opt) (fresh : bytes) (l2 : list layer) (s : sstate) :
  fresh <> [] -> forallb (fun l => negb (is_rid_layer l)) l2 = true ->
  let final := run_stack k (l1 ++ LRid xs fresh :: l2) s in
  exists id, s_rid final = Some id /\ id <> [] /\
             s_logs final = s_logs (run_stack k l1 s) ++ repeat id (count_logs l2).
Proof. exact (thm_stack_log_id_is_request_id k l1 xs fresh l2 s). Qed.
Print Assumptions stack_log_id_is_request_id.

(* A Log layer OUTSIDE the request-id layer of a fresh request prints a generated
   id (http) or the caller's raw x-request-id, trusted or not (grpc). *)
Theorem stack_log_before_request_id (k : kind) (fresh : bytes) (s : sstate) :
  s_rid s = None ->
  s_logs (layer_step k s (LLog fresh)) = s_logs s ++
    [match k with KHttp => fresh | _ => if is_empty (hget (s_md s) XRID) then fresh else hget (s_md s) XRID end].
Proof. exact (thm_stack_log_before_request_id k fresh s). Qed.
Print Assumptions stack_log_before_request_id.

(* What the http Log layers of a stack print about the response. Byte counts: every
   Log layer of every stack prints the number of bytes the writer received, for all
   handler histories (full). *)
Theorem log_reports_bytes_written (ls : list layer) (h : list wevent) :
  Forall (fun c => cap_bytes c = sum_writes h) (log_reports ls h) /\
  w_bytes (sent (writer_history ls h)) = sum_writes h.
Proof. exact (thm_log_reports_bytes_written ls h). Qed.
Print Assumptions log_reports_bytes_written.

(* Status: in a stack without a Debug layer every Log layer prints exactly the
   status the writer sent, for all handler histories (nested captures are
   transparent for one another). *)
Theorem log_reports_written_partial (ls : list layer) (h : list wevent) :
  forallb final_code h = true -> existsb is_debug_layer ls = false ->
  length (log_reports ls h) = count_logs ls /\
  Forall (fun c => reported_status c = w_status (sent (writer_history ls h)) /\
                   cap_bytes c = w_bytes (sent (writer_history ls h))) (log_reports ls h).
Proof. exact (thm_log_reports_written_partial ls h). Qed.
Print Assumptions log_reports_written_partial.

(* With a Debug layer OUTSIDE two nested Log layers the full statement is false:
   Debug's writer wrapper is no http.Flusher, the outer capture still has a Flush
   method, so the inner capture records the implicit 200 of a flush that goes
   nowhere and then ignores the WriteHeader(404) that is really sent. *)
Theorem log_reports_written_refuted :
  exists ls h, forallb final_code h = true /\ ls = [LDebug; LLog []; LLog []] /\ h = [Flush; WriteHeader 404] /\
    exists c, In c (log_reports ls h) /\ reported_status c <> w_status (sent (writer_history ls h)).
Proof. exact thm_log_reports_written_refuted. Qed.
Print Assumptions log_reports_written_refuted.

(* ---------------- response capture ---------------- *)

(* byte count: over ALL writer histories the capture's ContentLength is the sum of
   the counts the writer underneath returned, which is what that writer wrote *)
Theorem capture_reports_bytes_written (h : list wevent) :
  cap_bytes (capture h) = sum_writes h /\ w_bytes (sent h) = sum_writes h.
Proof. exact (thm_capture_reports_bytes_written h). Qed.
Print Assumptions capture_reports_bytes_written.

(* status and byte count: over ALL writer histories (any interleaving of
   WriteHeader, Write, Flush, io.Copy, io.WriteString and ResponseController
   flushes, repeated and late WriteHeader calls included,
   any sizes, any final status codes) the capture reports exactly what the writer
   underneath sent: the status committed by the first event — the implicit 200
   when that event is a Write or a Flush — "nothing" for the empty history, and
   the bytes actually accepted *)
Theorem capture_reports_written (h : list wevent) :
  forallb final_code h = true ->
  reported_status (capture h) = w_status (sent h) /\ cap_bytes (capture h) = w_bytes (sent h).
Proof. exact (thm_capture_reports_written h). Qed.
Print Assumptions capture_reports_written.

(* the writer sent the status committed by the FIRST event, and so says the capture *)
Theorem sent_status_closed_form (h : list wevent) : w_status (sent h) = first_commit h.
Proof. exact (sent_status h). Qed.
Print Assumptions sent_status_closed_form.

Theorem capture_status_closed_form (h : list wevent) :
  forallb final_code h = true -> reported_status (capture h) = first_commit h.
Proof. exact (thm_capture_status_closed_form h). Qed.
Print Assumptions capture_status_closed_form.

(* ---------------- non-vacuity ---------------- *)

Example request_id_example :
  let o := rid_options [OHeader 2%N; OLimit 3] in
  fst (rid_step KHttp o [(2%N, [[104; 101; 108; 108; 111]%N])] None [120%N]) = [104; 101; 108]%N /\
  fst (rid_step KUnary o [(2%N, [[104; 101; 108; 108; 111]%N])] None [120%N]) = [120%N] /\
  fst (rid_step KUnary o [(0%N, [[104; 101; 108; 108; 111]%N])] None [120%N]) = [104; 101; 108]%N.
Proof. vm_compute. repeat split. Qed.

Example chain_example :
  let q n := {| q_url := true; q_matches := []; q_trace := []; q_parent := []; q_base := empty_ctx;
                q_computed := 0; q_draw := 0; q_newtrace := [84%N; n]; q_newspan := [83%N; n] |} in
  let hp k n := {| h_kind := k; h_opts := trace_options []; h_req := q n; h_out := ([], []); h_client := [CTransparent; CTraced] |} in
  map snd (chain [hp KHttp 1%N; hp KUnary 2%N; hp KStream 3%N] ([], [])) =
  [ {| c_trace := Some [84%N; 1%N]; c_span := Some [83%N; 1%N]; c_parent := None |};
    {| c_trace := Some [84%N; 1%N]; c_span := Some [83%N; 2%N]; c_parent := Some [83%N; 1%N] |};
    {| c_trace := Some [84%N; 1%N]; c_span := Some [83%N; 3%N]; c_parent := Some [83%N; 2%N] |} ].
Proof. vm_compute. reflexivity. Qed.

Example capture_example :
  capture [Write 3; Flush; Write 4] = {| cap_status := 200; cap_bytes := 7 |} /\
  sent [Write 3; Flush; Write 4] = {| w_status := Some 200%Z; w_bytes := 7 |} /\
  cap_status (capture [WriteHeader 201; WriteHeader 500]) = 201%Z /\
  cap_status (capture [Flush; WriteHeader 500]) = 200%Z /\
  cap_status (capture [WriteHeader 103; WriteHeader 204]) = 204%Z /\
  capture [Copy 5] = {| cap_status := 200; cap_bytes := 5 |} /\
  capture [CtlFlush; WriteString 2; WriteHeader 404] = {| cap_status := 200; cap_bytes := 2 |} /\
  cap_status (capture []) = 0%Z.
Proof. vm_compute. repeat split. Qed.

Example log_example :
  let md := [(0%N, [[97%N; 98%N]])] in
  let st := {| s_rid := None; s_md := md; s_tctx := empty_ctx; s_logs := [] |} in
  s_logs (run_stack KUnary [LLog [120%N]; LRid [OUse false] [121%N]; LDebug; LLog [122%N]] st) = [[97%N; 98%N]; [121%N]] /\
  s_logs (run_stack KHttp [LLog [120%N]; LRid [OUse true] [121%N]; LLog [122%N]] st) = [[120%N]; [97%N; 98%N]] /\
  log_reports [LLog []; LDebug] [Flush; WriteHeader 404; Write 3] = [{| cap_status := 404; cap_bytes := 3 |}] /\
  log_reports [LLog []] [Flush; WriteHeader 404; Write 3] = [{| cap_status := 200; cap_bytes := 3 |}] /\
  log_reports [LDebug; LLog []; LLog []] [Flush; WriteHeader 404] =
    [{| cap_status := 404; cap_bytes := 0 |}; {| cap_status := 200; cap_bytes := 0 |}].
Proof. vm_compute. repeat split. Qed.

Example checked_options_example :
  trace_options_checked [OPercent 101] = None /\ trace_options_checked [OMaxRate 0] = None /\
  trace_options_checked [OSize 0; OPercent 5] = None /\
  trace_options_checked [OPercent 0; OSize 7; ODiscard] =
    Some {| t_percent := 0; t_maxrate := 0; t_size := 7; t_ndisc := 1 |}.
Proof. vm_compute. repeat split. Qed.
