(* Correspondence glue: the two documents of the model with the verb tables read from
   goa's source, and the comparison of what the model derives from a finalized design
   with what the real generators produced for it (evaluated by vm_compute on the cases
   the harness wrote). *)
From OpenAPI Require Import Model Generated_verbs.

Definition doc3 (d : design) : list (dkey * opd) := build v3_slot (assigns3 d).
Definition doc2 (d : design) : list (dkey * opd) := build v2_slot (assigns2 d).
Definition doc3_ops (d : design) : list op := doc_ops (doc3 d).
Definition doc2_ops (d : design) : list op := doc_ops (doc2 d).

(* ---- comparison of observed and derived operations ---- *)

Definition loc_eqb (a b : loc) : bool :=
  match a, b with InPath, InPath | InQuery, InQuery | InHeader, InHeader | InCookie, InCookie => true | _, _ => false end.

Definition param_eqb (a b : param) : bool :=
  N.eqb (pname a) (pname b) && loc_eqb (ploc a) (ploc b) && Bool.eqb (preq a) (preq b) && Bool.eqb (pauth a) (pauth b).

Definition sub {A} (eqb : A -> A -> bool) (a b : list A) : bool := forallb (fun x => existsb (eqb x) b) a.
Definition same_set {A} (eqb : A -> A -> bool) (a b : list A) : bool := sub eqb a b && sub eqb b a.

Fixpoint same_reqs (a b : list (list N)) : bool :=
  match a, b with
  | [], [] => true
  | x :: a', y :: b' => same_set N.eqb x y && same_reqs a' b'
  | _, _ => false
  end.

Definition op_same (a b : op) : bool :=
  verb_eqb (overb a) (overb b) && path_eqb (opath a) (opath b) &&
  same_set param_eqb (oparams a) (oparams b) && Nat.eqb (length (oparams a)) (length (oparams b)) &&
  Bool.eqb (obody a) (obody b) && same_set N.eqb (ostat a) (ostat b) && same_reqs (osec a) (osec b).

(* same operations: each one of a side has its equal on the other side *)
Definition ops_same (a b : list op) : bool := same_set op_same a b && Nat.eqb (length a) (length b).

(* the generated server may mount one (method, pattern) twice (two endpoints on one
   route): compare the mount tables as they are *)
Definition vk_eqb (a b : verb * path) : bool := verb_eqb (fst a) (fst b) && path_eqb (snd a) (snd b).

(* a case: index, the finalized design with its marks, the mount table, the operations of
   openapi3.json and of openapi.json (on basePath + key), and openapi.json as written:
   its basePath and its (method, path key) pairs *)
Definition case_ok (c : nat * mdesign * list op * list op * list op * (path * list (verb * path))) : bool :=
  match c with (_, m, srv, o3, o2, (bp, keys)) =>
    ops_same (server_ops (mounted m)) srv && ops_same (doc3_ops (visible m)) o3 && ops_same (doc2_resolved (visible m) (doc2_ops (visible m))) o2 &&
    path_eqb (norm (v2_base (visible m))) bp &&
    same_set vk_eqb (doc2_written (visible m) (doc2_ops (visible m))) keys end.

Definition mismatches (cs : list (nat * mdesign * list op * list op * list op * (path * list (verb * path)))) : list nat :=
  flat_map (fun c => if case_ok c then [] else [fst (fst (fst (fst (fst c))))]) cs.
