(* OpenAPI engine — executable model of
     http/codegen/service_data.go          routes, decoder parameters, file servers of the generated server
     http/codegen/templates/server_handler.go.tpl, file_server.go.tpl   what Mount registers
     http/codegen/openapi/v3/builder.go    buildPaths, buildOperation, buildFileServerOperation
     http/codegen/openapi/v3/parameters.go paramsFromPath, paramsFromHeadersAndCookies
     http/codegen/openapi/v2/builder.go    NewV2 (paths), buildPathFromExpr, buildPathFromFileServer,
                                           paramsFromExpr, paramsFromHeaders
     expr/http.go                          HTTPWildcardRegex rewriting {*name} -> {name}
   Names (attribute names, wire names, literal path segments, scheme names) are
   numbers: the harness interns the strings of one design, equal strings get equal
   numbers. 0 is the empty path segment (what follows a trailing slash).
   Definitions only; proofs are in Lemmas.v, property statements in Properties.v. *)
From Coq Require Export List Bool NArith.
Export ListNotations.
Open Scope N_scope.

(* ---- verbs and path item fields ---- *)

(* the nine route functions of the DSL *)
Inductive verb := GET | HEAD | POST | PUT | DELETE | CONNECT | OPTIONS | TRACE | PATCH.

(* the operation fields of an OpenAPI path item (v3/types.go PathItem; the v2 Path
   struct has the same fields except Trace) *)
Inductive slot := SGet | SPut | SPost | SDelete | SOptions | SHead | SPatch | STrace.

(* the HTTP method a path item field documents (its JSON name, upper case) *)
Definition slot_verb (s : slot) : verb :=
  match s with SGet => GET | SPut => PUT | SPost => POST | SDelete => DELETE
             | SOptions => OPTIONS | SHead => HEAD | SPatch => PATCH | STrace => TRACE end.

Definition verb_eqb (a b : verb) : bool :=
  match a, b with GET, GET | HEAD, HEAD | POST, POST | PUT, PUT | DELETE, DELETE | CONNECT, CONNECT
                | OPTIONS, OPTIONS | TRACE, TRACE | PATCH, PATCH => true | _, _ => false end.

Definition slot_eqb (a b : slot) : bool :=
  match a, b with SGet, SGet | SPut, SPut | SPost, SPost | SDelete, SDelete | SOptions, SOptions
                | SHead, SHead | SPatch, SPatch | STrace, STrace => true | _, _ => false end.

(* ---- paths ---- *)

Inductive seg := Lit (s : N) | Var (n : N) | Star (n : N).   (* "/s"  "/{n}"  "/{*n}" *)
Definition path := list seg.

(* expr.HTTPWildcardRegex.ReplaceAllString(key, "/{$1}") *)
Definition norm_seg (s : seg) : seg := match s with Star n => Var n | _ => s end.
Definition norm (p : path) : path := map norm_seg p.

(* expr.ExtractHTTPWildcards *)
Definition seg_wild (s : seg) : list N := match s with Lit _ => [] | Var n => [n] | Star n => [n] end.
Definition wildcards (p : path) : list N := flat_map seg_wild p.

Definition seg_star_free (s : seg) : bool := match s with Star _ => false | _ => true end.
Definition star_free (p : path) : bool := forallb seg_star_free p.

Definition seg_eqb (a b : seg) : bool :=
  match a, b with Lit x, Lit y => N.eqb x y | Var x, Var y => N.eqb x y | Star x, Star y => N.eqb x y | _, _ => false end.

Fixpoint path_eqb (a b : path) : bool :=
  match a, b with
  | [], [] => true
  | x :: a', y :: b' => seg_eqb x y && path_eqb a' b'
  | _, _ => false
  end.

Definition memN (n : N) (l : list N) : bool := existsb (N.eqb n) l.

(* ---- parameters, operations ---- *)

Inductive loc := InPath | InQuery | InHeader | InCookie.

(* pauth: a header whose name is "Authorization" in any letter case *)
Record param := mkp { pname : N; ploc : loc; preq : bool; pauth : bool }.

(* what is compared about one operation *)
Record opd := mkopd { dparams : list param; dbody : bool; dstat : list N; dsec : list (list N) }.
Record op := mko { overb : verb; opath : path; oparams : list param; obody : bool; ostat : list N; osec : list (list N) }.
Definition op_of (v : verb) (p : path) (o : opd) : op := mko v p (dparams o) (dbody o) (dstat o) (dsec o).

(* ---- the finalized design ---- *)

(* one entry of a mapped attribute (e.Params, e.Headers, e.Cookies): attribute
   name, wire name, IsRequired, has a default value, is the Authorization header *)
Record mparam := mkm { ma_attr : N; ma_wire : N; ma_req : bool; ma_def : bool; ma_auth : bool }.

(* RouteExpr: method and FullPaths() (one per service base path) *)
(* rabs: RouteExpr.IsAbsolute, the route path starts with "//" *)
Record route := mkr { rverb : verb; rabs : bool; rpaths : list path }.

Record endpoint := mke {
  routes : list route;
  eparams : list mparam;       (* e.Params: path and query string parameters *)
  eheaders : list mparam;
  ecookies : list mparam;
  ebody : bool;                (* e.Body.Type != Empty *)
  emultipart : bool;
  ebasic : option (N * bool);  (* payload has a basic-auth user name: ("Authorization", its required flag) *)
  eresp : list N;              (* status codes of e.Responses *)
  eerr : list N;               (* status codes of e.HTTPErrors *)
  ereqs : list (list N) }.     (* e.Requirements: scheme names per requirement *)

(* HTTPFileServerExpr.RequestPaths after Finalize *)
Record fileserver := mkf { fpaths : list path }.

(* sabs: the service's own HTTP path is absolute (Path("//...")): HTTPServiceExpr.FullPaths
   then ignores the API base path *)
Record service := mksa { endpoints : list endpoint; files : list fileserver; sabs : bool }.
Definition mks (e : list endpoint) (f : list fileserver) : service := mksa e f false.
(* api_base: the API level HTTP Path(...) *)
Record design := mkd { services : list service; api_reqs : list (list N); api_base : path }.

(* ---- the generated server ---- *)

(* names of the wildcards of all routes: RouteExpr.Params over e.Routes *)
Definition ep_wild (e : endpoint) : list N := flat_map (fun r => flat_map wildcards (rpaths r)) (routes e).

(* EndpointData.Payload.Request: PathParams (e.PathParams()), QueryParams
   (e.QueryParams()), Headers, Cookies with the Required flag the decoder tests *)
Definition srv_params (e : endpoint) : list param :=
  map (fun m => mkp (ma_wire m) InPath true false) (filter (fun m => memN (ma_attr m) (ep_wild e)) (eparams e)) ++
  map (fun m => mkp (ma_wire m) InQuery (ma_req m) false) (filter (fun m => negb (memN (ma_attr m) (ep_wild e))) (eparams e)) ++
  map (fun m => mkp (ma_wire m) InHeader (ma_req m) (ma_auth m)) (eheaders e) ++
  map (fun m => mkp (ma_wire m) InCookie (ma_req m) false) (ecookies e).

Definition srv_opd (e : endpoint) : opd :=
  mkopd (srv_params e) (ebody e || emultipart e) (eresp e ++ eerr e) (ereqs e).

(* (verb, full path) of every route of the endpoint: one mux.Handle each *)
Definition ep_entries (e : endpoint) : list (verb * path) :=
  flat_map (fun r => map (fun p => (rverb r, p)) (rpaths r)) (routes e).

Definition ep_srv (e : endpoint) : list (path * verb * opd) :=
  map (fun vp => (snd vp, fst vp, srv_opd e)) (ep_entries e).

(* file_server.go.tpl: a single file is one GET mount; a directory ("/{*name}" last)
   is two, the directory itself and everything below it *)
Definition fs_dir (p : path) : option (path * N) :=
  match rev p with Star n :: b => Some (rev b, n) | Var n :: b => Some (rev b, n) | _ => None end.

Definition fs_srv (p : path) : list (path * verb * opd) :=
  match fs_dir p with
  | None => [(p, GET, mkopd [] false [200] [])]
  | Some (base, n) => [(base ++ [Lit 0], GET, mkopd [] false [200] []);
                       (base ++ [Star n], GET, mkopd [mkp n InPath true false] false [200; 404] [])]
  end.

Definition svc_files (s : service) : list path := flat_map fpaths (files s).

Definition svc_srv (s : service) : list (path * verb * opd) :=
  flat_map ep_srv (endpoints s) ++ flat_map fs_srv (svc_files s).

Definition server_assigns (d : design) : list (path * verb * opd) := flat_map svc_srv (services d).

(* the mount table: pattern as passed to mux.Handle *)
Definition server_ops (d : design) : list op := map (fun a => op_of (snd (fst a)) (fst (fst a)) (snd a)) (server_assigns d).

(* ---- the documents ---- *)

(* path and query string parameters: paramsFromPath(e.Params, key) (v3),
   paramsFromExpr(endpoint.Params, key) (v2) *)
Definition doc_path_params (e : endpoint) (key : path) : list param :=
  map (fun m => if memN (ma_attr m) (wildcards key) then mkp (ma_wire m) InPath true false
                else mkp (ma_wire m) InQuery (ma_req m) false) (eparams e).

(* IsRequiredNoDefault *)
Definition req_nodef (m : mparam) : bool := ma_req m && negb (ma_def m).

(* v3 paramsFromHeadersAndCookies: Authorization headers are left to the security section *)
Definition doc3_params (e : endpoint) (key : path) : list param :=
  doc_path_params e key ++
  map (fun m => mkp (ma_wire m) InHeader (req_nodef m) false) (filter (fun m => negb (ma_auth m)) (eheaders e)) ++
  map (fun m => mkp (ma_wire m) InCookie (req_nodef m) false) (ecookies e).

Definition doc3_opd (e : endpoint) (key : path) : opd :=
  mkopd (doc3_params e key) (ebody e) (eresp e ++ eerr e) (ereqs e).

(* v2 paramsFromHeaders: every header, plus Authorization for basic auth; no cookies *)
Definition doc2_params (e : endpoint) (key : path) : list param :=
  doc_path_params e key ++
  map (fun m => mkp (ma_wire m) InHeader (req_nodef m) (ma_auth m)) (eheaders e) ++
  match ebasic e with Some (n, r) => [mkp n InHeader r true] | None => [] end.

Definition doc2_opd (e : endpoint) (key : path) : opd :=
  mkopd (doc2_params e key) (ebody e) (eresp e ++ eerr e) (ereqs e).

Definition fs_params (p : path) : list param :=
  match wildcards p with n :: _ => [mkp n InPath true false] | [] => [] end.
Definition fs_stat (p : path) : list N := match wildcards p with _ :: _ => [200; 404] | [] => [200] end.

(* the assignments performed while the paths map is built, in order; every key (endpoint
   route or file server request path, v3 and v2) is rewritten {*name} -> {name} *)
Definition ep_doc (f : endpoint -> path -> opd) (e : endpoint) : list (path * verb * opd) :=
  map (fun vp => (norm (snd vp), fst vp, f e (norm (snd vp)))) (ep_entries e).

Definition fs_doc3 (reqs : list (list N)) (p : path) : path * verb * opd :=
  (norm p, GET, mkopd (fs_params p) false (fs_stat p) reqs).
Definition fs_doc2 (p : path) : path * verb * opd :=
  (norm p, GET, mkopd (fs_params p) false (fs_stat p) []).

Definition svc_doc3 (reqs : list (list N)) (s : service) : list (path * verb * opd) :=
  flat_map (ep_doc doc3_opd) (endpoints s) ++ map (fs_doc3 reqs) (svc_files s).
Definition svc_doc2 (s : service) : list (path * verb * opd) :=
  map fs_doc2 (svc_files s) ++ flat_map (ep_doc doc2_opd) (endpoints s).

Definition assigns3 (d : design) : list (path * verb * opd) := flat_map (svc_doc3 (api_reqs d)) (services d).
Definition assigns2 (d : design) : list (path * verb * opd) := flat_map svc_doc2 (services d).

(* the paths map: path key -> path item, a path item being a partial map from the
   operation fields; flattened to a partial map on (key, field). Assigning replaces. *)
Definition dkey := (path * slot)%type.
Definition dkey_eqb (a b : dkey) : bool := path_eqb (fst a) (fst b) && slot_eqb (snd a) (snd b).

Fixpoint aset (m : list (dkey * opd)) (k : dkey) (v : opd) : list (dkey * opd) :=
  match m with
  | [] => [(k, v)]
  | (k', v') :: t => if dkey_eqb k k' then (k, v) :: t else (k', v') :: aset t k v
  end.

Section Build.
  (* the switch on the route method: which field of the path item receives the operation *)
  Variable slot_of : verb -> option slot.

  Definition step (m : list (dkey * opd)) (a : path * verb * opd) : list (dkey * opd) :=
    match slot_of (snd (fst a)) with
    | Some s => aset m (fst (fst a), s) (snd a)
    | None => m
    end.

  Definition build (l : list (path * verb * opd)) : list (dkey * opd) := fold_left step l [].
End Build.

(* the operations a reader finds in the document: every field of every path item *)
Definition doc_ops (m : list (dkey * opd)) : list op :=
  map (fun kv => op_of (slot_verb (snd (fst kv))) (fst (fst kv)) (snd kv)) m.

(* ---- openapi:generate=false ---- *)

(* A design as finalized, with the marks that Meta("openapi:generate", "false") (or
   swagger:generate) leaves on a service (ServiceExpr or HTTPServiceExpr), on an endpoint
   (MethodExpr or HTTPEndpointExpr) and on a file server. The generated server mounts
   everything; both builders skip what is marked (openapi.MustGenerate). *)
Record mendpoint := mkme { me_ep : endpoint; me_gen : bool }.
Record mfile := mkmf { mf_fs : fileserver; mf_gen : bool }.
Record mservice := mkms { ms_eps : list mendpoint; ms_files : list mfile; ms_gen : bool; ms_abs : bool }.
Record mdesign := mkmd { md_services : list mservice; md_reqs : list (list N); md_base : path }.

Definition sel_service (keep : bool -> bool -> bool) (s : mservice) : service :=
  mksa (map me_ep (filter (fun e => keep (ms_gen s) (me_gen e)) (ms_eps s)))
       (map mf_fs (filter (fun f => keep (ms_gen s) (mf_gen f)) (ms_files s))) (ms_abs s).

(* what the server mounts: everything *)
Definition mounted (m : mdesign) : design :=
  mkd (map (sel_service (fun _ _ => true)) (md_services m)) (md_reqs m) (md_base m).
(* what the documents are built from: services, endpoints and file servers not marked *)
Definition visible (m : mdesign) : design :=
  mkd (map (sel_service (fun sg g => sg && g)) (md_services m)) (md_reqs m) (md_base m).
(* the rest *)
Definition hidden (m : mdesign) : design :=
  mkd (map (sel_service (fun sg g => negb (sg && g))) (md_services m)) (md_reqs m) (md_base m).

(* ---- OpenAPI 2: basePath and path keys ---- *)

(* v2 hasAbsoluteRoutes: some documented route is absolute or belongs to a service whose own
   path is absolute, or a documented file server exists *)
Definition has_abs (d : design) : bool :=
  existsb (fun s => existsb (fun e => existsb rabs (routes e) || sabs s) (endpoints s)) (services d).
Definition has_files (d : design) : bool :=
  existsb (fun s => match svc_files s with [] => false | _ => true end) (services d).

(* NewV2: basePath := root.API.HTTP.Path, "" if hasAbsoluteRoutes *)
Definition v2_base (d : design) : path := if has_abs d || has_files d then [] else api_base d.

Fixpoint is_prefix (a b : path) : bool :=
  match a, b with
  | [], _ => true
  | x :: a', y :: b' => seg_eqb x y && is_prefix a' b'
  | _, [] => false
  end.

(* "" and "/" *)
Definition trivial_base (bp : path) : bool := match bp with [] => true | [Lit 0] => true | _ => false end.

(* buildPathFromExpr: if bp != "/" { key = strings.TrimPrefix(key, bp) }, bp the base path with
   its wildcards rewritten; on segments: the prefix goes when it is one *)
Definition v2_key (bp key : path) : path :=
  if trivial_base bp then key else if is_prefix bp key then skipn (length bp) key else key.

(* what a reader of the document resolves: basePath + key *)
Definition v2_resolve (bp key : path) : path := if trivial_base bp then key else (bp ++ key)%list.

(* (method, key as written) of every operation of openapi.json, for a document whose
   operations on full paths are ops *)
Definition doc2_written (d : design) (ops : list op) : list (verb * path) :=
  map (fun o => (overb o, v2_key (norm (v2_base d)) (opath o))) ops.

(* the operations of openapi.json as a reader resolves them: each key read against basePath *)
Definition doc2_resolved (d : design) (ops : list op) : list op :=
  let bp := norm (v2_base d) in
  map (fun o => mko (overb o) (v2_resolve bp (v2_key bp (opath o))) (oparams o) (obody o) (ostat o) (osec o)) ops.
