(* OpenAPI engine — proofs. *)
From OpenAPI Require Import Model Generated_verbs Run.
From Coq Require Import Lia Permutation.
From Hammer Require Import Tactics.

(* ---------- decidable equalities ---------- *)

Lemma seg_eqb_spec a b : seg_eqb a b = true <-> a = b.
Proof.
  destruct a, b; simpl; try (split; [discriminate | intro H; inversion H]);
    rewrite N.eqb_eq; split; intro H; try (inversion H); subst; reflexivity.
Qed.

Lemma path_eqb_spec a : forall b, path_eqb a b = true <-> a = b.
Proof.
  induction a as [|x a IH]; destruct b as [|y b]; simpl; try (split; [discriminate | intro H; inversion H]).
  - split; reflexivity.
  - rewrite andb_true_iff, seg_eqb_spec, IH. split; [intros [-> ->]; reflexivity | intro H; inversion H; auto].
Qed.

Lemma slot_eqb_spec a b : slot_eqb a b = true <-> a = b.
Proof. destruct a, b; simpl; split; intro H; try reflexivity; try discriminate. Qed.

Lemma dkey_eqb_spec (a b : dkey) : dkey_eqb a b = true <-> a = b.
Proof.
  destruct a as [p s], b as [q t]; unfold dkey_eqb; simpl.
  rewrite andb_true_iff, path_eqb_spec, slot_eqb_spec. split; [intros [-> ->]; reflexivity | intro H; inversion H; auto].
Qed.

Lemma memN_spec n l : memN n l = true <-> In n l.
Proof.
  unfold memN. rewrite existsb_exists. split.
  - intros [x [Hx E]]. apply N.eqb_eq in E. subst. assumption.
  - intro H. exists n. split; [assumption | apply N.eqb_refl].
Qed.

Lemma slot_verb_inj a b : slot_verb a = slot_verb b -> a = b.
Proof. destruct a, b; simpl; intro H; try reflexivity; discriminate. Qed.

(* ---------- wildcard rewriting ---------- *)

Lemma norm_seg_idem s : norm_seg (norm_seg s) = norm_seg s.
Proof. destruct s; reflexivity. Qed.

Lemma norm_idem_l p : norm (norm p) = norm p.
Proof. unfold norm. rewrite map_map. apply map_ext. apply norm_seg_idem. Qed.

Lemma norm_star_free_l p : star_free (norm p) = true.
Proof. unfold star_free, norm. rewrite forallb_forall. intros s Hs. apply in_map_iff in Hs. destruct Hs as [t [<- _]]. destruct t; reflexivity. Qed.

Lemma wildcards_norm_l p : wildcards (norm p) = wildcards p.
Proof. induction p as [|s p IH]; simpl; [reflexivity|]. rewrite IH. destruct s; reflexivity. Qed.

Lemma norm_fix_l p : star_free p = true -> norm p = p.
Proof.
  induction p as [|s p IH]; simpl; [reflexivity|]. rewrite andb_true_iff. intros [Hs Hp].
  rewrite (IH Hp). destruct s; simpl in *; try reflexivity. discriminate.
Qed.

Lemma wildcards_app a b : wildcards (a ++ b) = (wildcards a ++ wildcards b)%list.
Proof. unfold wildcards. apply flat_map_app. Qed.

Lemma no_wild_star_free p : wildcards p = [] -> star_free p = true.
Proof.
  induction p as [|s p IH]; simpl; [reflexivity|]. intro H. apply app_eq_nil in H. destruct H as [Hs Hp].
  rewrite (IH Hp). destruct s; simpl in *; try reflexivity; discriminate.
Qed.

Lemma no_wild_not_dir p : wildcards p = [] -> fs_dir p = None.
Proof.
  intro H. unfold fs_dir. destruct (rev p) as [|x b] eqn:E; [reflexivity|].
  assert (Hp : p = (rev b ++ [x])%list) by (rewrite <- (rev_involutive p), E; reflexivity).
  rewrite Hp, wildcards_app in H. apply app_eq_nil in H. destruct H as [_ H].
  destruct x; simpl in H; try discriminate. reflexivity.
Qed.

(* ---------- the paths map ---------- *)

Lemma aset_keys m k v k' : In k' (map fst (aset m k v)) <-> k' = k \/ In k' (map fst m).
Proof.
  induction m as [|[k0 v0] m IH]; simpl.
  - split; [intros [H|[]]; auto | intros [H|[]]; auto].
  - destruct (dkey_eqb k k0) eqn:E; simpl.
    + apply dkey_eqb_spec in E. subst. split; [intros [H|H]; auto | intros [H|[H|H]]; auto].
    + rewrite IH. split; [intros [H|[H|H]]; auto | intros [H|[H|H]]; auto].
Qed.

Lemma aset_nodup m k v : NoDup (map fst m) -> NoDup (map fst (aset m k v)).
Proof.
  induction m as [|[k0 v0] m IH]; simpl; intro H.
  - constructor; [intros []|constructor].
  - inversion H as [|? ? Hn Hd]; subst. destruct (dkey_eqb k k0) eqn:E; simpl.
    + apply dkey_eqb_spec in E. subst. constructor; assumption.
    + constructor; [|apply IH; assumption]. rewrite aset_keys. intros [->|Hin]; [|contradiction].
      assert (dkey_eqb k k = true) by (apply dkey_eqb_spec; reflexivity). congruence.
Qed.

Lemma aset_in m k v kv : In kv (aset m k v) -> kv = (k, v) \/ In kv m.
Proof.
  induction m as [|[k0 v0] m IH]; simpl.
  - intros [H|[]]; auto.
  - destruct (dkey_eqb k k0); simpl; intros [H|H]; auto. destruct (IH H); auto.
Qed.

Section BuildLemmas.
  Variable slot_of : verb -> option slot.

  Lemma fold_keys l : forall m k s,
    In (k, s) (map fst (fold_left (step slot_of) l m)) <->
    In (k, s) (map fst m) \/ exists v o, In (k, v, o) l /\ slot_of v = Some s.
  Proof.
    induction l as [|[[k0 v0] o0] l IH]; intros m k s; simpl.
    - split; [auto | intros [H|[v [o [[] _]]]]; assumption].
    - rewrite IH. unfold step; simpl. destruct (slot_of v0) as [s0|] eqn:E.
      + rewrite aset_keys. split.
        * intros [[H|H]|[v [o [H1 H2]]]]; [inversion H; subst; right; exists v0, o0; auto | auto | right; exists v, o; auto].
        * intros [H|[v [o [[H|H] H2]]]]; [auto | inversion H; subst; left; left; congruence | right; exists v, o; auto].
      + split.
        * intros [H|[v [o [H1 H2]]]]; [auto | right; exists v, o; auto].
        * intros [H|[v [o [[H|H] H2]]]]; [auto | inversion H; subst; congruence | right; exists v, o; auto].
  Qed.

  Lemma fold_nodup l : forall m, NoDup (map fst m) -> NoDup (map fst (fold_left (step slot_of) l m)).
  Proof.
    induction l as [|a l IH]; intros m H; simpl; [assumption|]. apply IH. unfold step.
    destruct (slot_of (snd (fst a))); [apply aset_nodup|]; assumption.
  Qed.

  Lemma fold_in l : forall m k s o,
    In (k, s, o) (fold_left (step slot_of) l m) ->
    In (k, s, o) m \/ exists v, In (k, v, o) l /\ slot_of v = Some s.
  Proof.
    induction l as [|[[k0 v0] o0] l IH]; intros m k s o; simpl; [auto|].
    intro H. apply IH in H. destruct H as [H|[v [H1 H2]]]; [|right; exists v; auto].
    unfold step in H; simpl in H. destruct (slot_of v0) as [s0|] eqn:E; [|auto].
    apply aset_in in H. destruct H as [H|H]; [|auto]. inversion H; subst. right. exists v0. auto.
  Qed.

  Hypothesis sound : forall v s, slot_of v = Some s -> slot_verb s = v.

  Definition okey (o : op) := (overb o, opath o).

  Lemma doc_ops_key l v k :
    In (v, k) (map okey (doc_ops (build slot_of l))) <-> (exists o, In (k, v, o) l) /\ slot_of v <> None.
  Proof.
    unfold doc_ops, build. rewrite map_map. rewrite in_map_iff. split.
    - intros [[[k0 s] o] [E Hin]]. unfold okey in E; simpl in E. inversion E; subst.
      apply fold_in in Hin. destruct Hin as [[]|[v [H1 H2]]]. rewrite (sound _ _ H2).
      split; [exists o; assumption | congruence].
    - intros [[o Hin] Hs]. destruct (slot_of v) as [s|] eqn:E; [|congruence].
      assert (Hk : In (k, s) (map fst (fold_left (step slot_of) l []))) by (apply fold_keys; right; exists v, o; auto).
      apply in_map_iff in Hk. destruct Hk as [[[k1 s1] o1] [E1 H1]]. simpl in E1. inversion E1; subst.
      exists (k, s, o1). split; [|assumption]. unfold okey; simpl. rewrite (sound _ _ E). reflexivity.
  Qed.

  Lemma doc_ops_nodup l : NoDup (map okey (doc_ops (build slot_of l))).
  Proof.
    unfold doc_ops, build. rewrite map_map.
    assert (H : NoDup (map fst (fold_left (step slot_of) l []))) by (apply fold_nodup; constructor).
    revert H. generalize (fold_left (step slot_of) l []). intro m. induction m as [|[[k s] o] m IH]; simpl; intro H; [constructor|].
    inversion H as [|? ? Hn Hd]; subst. constructor; [|apply IH; assumption].
    rewrite in_map_iff. intros [[[k1 s1] o1] [E Hin]]. unfold okey in E; simpl in E. inversion E as [[Es Ek]]. apply slot_verb_inj in Es. subst.
    apply Hn. apply in_map_iff. exists (k, s, o1). auto.
  Qed.

  Lemma doc_ops_origin l o :
    In o (doc_ops (build slot_of l)) -> exists k v od, In (k, v, od) l /\ slot_of v <> None /\ o = op_of v k od.
  Proof.
    unfold doc_ops, build. rewrite in_map_iff. intros [[[k s] od] [E Hin]]. simpl in E.
    apply fold_in in Hin. destruct Hin as [[]|[v [H1 H2]]]. exists k, v, od.
    split; [assumption|]. split; [congruence|]. rewrite <- (sound _ _ H2). auto.
  Qed.
End BuildLemmas.

Lemma v3_sound v s : v3_slot v = Some s -> slot_verb s = v.
Proof. destruct v; simpl; intro H; inversion H; reflexivity. Qed.

Lemma v2_sound v s : v2_slot v = Some s -> slot_verb s = v.
Proof. destruct v; simpl; intro H; inversion H; reflexivity. Qed.

Lemma v3_total v : v <> CONNECT -> v3_slot v <> None.
Proof. destruct v; simpl; intro H; try discriminate. congruence. Qed.

Lemma v2_total v : v <> CONNECT -> v <> TRACE -> v2_slot v <> None.
Proof. destruct v; simpl; intros H1 H2; try discriminate; congruence. Qed.

(* ---------- membership in the assignment sequences ---------- *)

Definition endpoint_of (d : design) (e : endpoint) := exists s, In s (services d) /\ In e (endpoints s).
Definition file_of (d : design) (f : path) := exists s, In s (services d) /\ In f (svc_files s).

(* no file server path has a wildcard (single files only) *)
Definition no_wild_files (d : design) := forall f, file_of d f -> wildcards f = [].

Definition nkey (o : op) := (overb o, norm (opath o)).

Lemma in_ep_srv e p v o : In (p, v, o) (ep_srv e) <-> In (v, p) (ep_entries e) /\ o = srv_opd e.
Proof.
  unfold ep_srv. rewrite in_map_iff. split.
  - intros [[v0 p0] [E H]]. simpl in E. inversion E; subst. auto.
  - intros [H ->]. exists (v, p). auto.
Qed.

Lemma in_ep_doc f e k v o : In (k, v, o) (ep_doc f e) <-> exists p, In (v, p) (ep_entries e) /\ k = norm p /\ o = f e (norm p).
Proof.
  unfold ep_doc. rewrite in_map_iff. split.
  - intros [[v0 p0] [E H]]. simpl in E. inversion E; subst. exists p0. auto.
  - intros [p [H [-> ->]]]. exists (v, p). auto.
Qed.

Lemma in_server_assigns d p v o :
  In (p, v, o) (server_assigns d) <->
  (exists e, endpoint_of d e /\ In (v, p) (ep_entries e) /\ o = srv_opd e) \/
  (exists f, file_of d f /\ In (p, v, o) (fs_srv f)).
Proof.
  unfold server_assigns, svc_srv, endpoint_of, file_of. rewrite in_flat_map. split.
  - intros [s [Hs H]]. rewrite in_app_iff, !in_flat_map in H. destruct H as [[e [He H]]|[f [Hf H]]].
    + apply in_ep_srv in H. left. exists e. split; [exists s; auto | assumption].
    + right. exists f. split; [exists s; auto | assumption].
  - intros [[e [[s [Hs He]] [H1 H2]]]|[f [[s [Hs Hf]] H]]]; exists s; split; try assumption; rewrite in_app_iff, !in_flat_map.
    + left. exists e. split; [assumption|]. apply in_ep_srv. auto.
    + right. exists f. auto.
Qed.

Lemma in_assigns3 d k v o :
  In (k, v, o) (assigns3 d) <->
  (exists e p, endpoint_of d e /\ In (v, p) (ep_entries e) /\ k = norm p /\ o = doc3_opd e (norm p)) \/
  (exists f, file_of d f /\ (k, v, o) = fs_doc3 (api_reqs d) f).
Proof.
  unfold assigns3, svc_doc3, endpoint_of, file_of. rewrite in_flat_map. split.
  - intros [s [Hs H]]. rewrite in_app_iff, in_flat_map, in_map_iff in H. destruct H as [[e [He H]]|[f [E Hf]]].
    + apply in_ep_doc in H. destruct H as [p [H1 [H2 H3]]]. left. exists e, p. split; [exists s; auto | auto].
    + right. exists f. split; [exists s; auto | auto].
  - intros [[e [p [[s [Hs He]] [H1 [H2 H3]]]]]|[f [[s [Hs Hf]] H]]]; exists s; split; try assumption; rewrite in_app_iff, in_flat_map, in_map_iff.
    + left. exists e. split; [assumption|]. apply in_ep_doc. exists p. auto.
    + right. exists f. auto.
Qed.

Lemma in_assigns2 d k v o :
  In (k, v, o) (assigns2 d) <->
  (exists e p, endpoint_of d e /\ In (v, p) (ep_entries e) /\ k = norm p /\ o = doc2_opd e (norm p)) \/
  (exists f, file_of d f /\ (k, v, o) = fs_doc2 f).
Proof.
  unfold assigns2, svc_doc2, endpoint_of, file_of. rewrite in_flat_map. split.
  - intros [s [Hs H]]. rewrite in_app_iff, in_flat_map, in_map_iff in H. destruct H as [[f [E Hf]]|[e [He H]]].
    + right. exists f. split; [exists s; auto | auto].
    + apply in_ep_doc in H. destruct H as [p [H1 [H2 H3]]]. left. exists e, p. split; [exists s; auto | auto].
  - intros [[e [p [[s [Hs He]] [H1 [H2 H3]]]]]|[f [[s [Hs Hf]] H]]]; exists s; split; try assumption; rewrite in_app_iff, in_flat_map, in_map_iff.
    + right. exists e. split; [assumption|]. apply in_ep_doc. exists p. auto.
    + left. exists f. auto.
Qed.

Lemma fs_srv_single f : wildcards f = [] -> fs_srv f = [(f, GET, mkopd [] false [200] [])].
Proof. intro H. unfold fs_srv. rewrite (no_wild_not_dir _ H). reflexivity. Qed.

Lemma fs_doc3_single r f : wildcards f = [] -> fs_doc3 r f = (f, GET, mkopd [] false [200] r).
Proof. intro H. unfold fs_doc3, fs_params, fs_stat. rewrite H, (norm_fix_l _ (no_wild_star_free _ H)). reflexivity. Qed.

Lemma fs_doc2_single f : wildcards f = [] -> fs_doc2 f = (f, GET, mkopd [] false [200] []).
Proof. intro H. unfold fs_doc2, fs_params, fs_stat. rewrite H, (norm_fix_l _ (no_wild_star_free _ H)). reflexivity. Qed.

Lemma in_server_nkeys d v k :
  In (v, k) (map nkey (server_ops d)) <-> exists p o, In (p, v, o) (server_assigns d) /\ norm p = k.
Proof.
  unfold server_ops. rewrite map_map, in_map_iff. split.
  - intros [[[p v0] o] [E H]]. unfold nkey in E; simpl in E. inversion E; subst. exists p, o. auto.
  - intros [p [o [H E]]]. exists (p, v, o). unfold nkey; simpl. subst. auto.
Qed.

(* the keys assigned while building either document are the normal forms of the
   mounted patterns *)
Lemma assigns3_keys d v k : no_wild_files d ->
  (exists o, In (k, v, o) (assigns3 d)) <-> In (v, k) (map nkey (server_ops d)).
Proof.
  intro NW. rewrite in_server_nkeys. split.
  - intros [o H]. apply in_assigns3 in H. destruct H as [[e [p [He [H1 [H2 H3]]]]]|[f [Hf E]]].
    + exists p, (srv_opd e). split; [|auto]. apply in_server_assigns. left. exists e. auto.
    + rewrite (fs_doc3_single _ _ (NW _ Hf)) in E. inversion E as [[Ek Ev Eo]]. subst k v o.
      exists f, (mkopd [] false [200] []). split; [|apply norm_fix_l, no_wild_star_free, NW; assumption].
      apply in_server_assigns. right. exists f. split; [assumption|]. rewrite (fs_srv_single _ (NW _ Hf)). left. reflexivity.
  - intros [p [o [H E]]]. apply in_server_assigns in H. destruct H as [[e [He [H1 H2]]]|[f [Hf H]]].
    + exists (doc3_opd e (norm p)). apply in_assigns3. left. exists e, p. subst. auto.
    + rewrite (fs_srv_single _ (NW _ Hf)) in H. destruct H as [H|[]]. inversion H as [[Ep Ev Eo]]. subst p v o k.
      exists (mkopd [] false [200] (api_reqs d)). apply in_assigns3. right. exists f. split; [assumption|].
      rewrite (fs_doc3_single _ _ (NW _ Hf)), (norm_fix_l _ (no_wild_star_free _ (NW _ Hf))). reflexivity.
Qed.

Lemma assigns2_keys d v k : no_wild_files d ->
  (exists o, In (k, v, o) (assigns2 d)) <-> In (v, k) (map nkey (server_ops d)).
Proof.
  intro NW. rewrite in_server_nkeys. split.
  - intros [o H]. apply in_assigns2 in H. destruct H as [[e [p [He [H1 [H2 H3]]]]]|[f [Hf E]]].
    + exists p, (srv_opd e). split; [|auto]. apply in_server_assigns. left. exists e. auto.
    + rewrite (fs_doc2_single _ (NW _ Hf)) in E. inversion E as [[Ek Ev Eo]]. subst k v o.
      exists f, (mkopd [] false [200] []). split; [|apply norm_fix_l, no_wild_star_free, NW; assumption].
      apply in_server_assigns. right. exists f. split; [assumption|]. rewrite (fs_srv_single _ (NW _ Hf)). left. reflexivity.
  - intros [p [o [H E]]]. apply in_server_assigns in H. destruct H as [[e [He [H1 H2]]]|[f [Hf H]]].
    + exists (doc2_opd e (norm p)). apply in_assigns2. left. exists e, p. subst. auto.
    + rewrite (fs_srv_single _ (NW _ Hf)) in H. destruct H as [H|[]]. inversion H as [[Ep Ev Eo]]. subst p v o k.
      exists (mkopd [] false [200] []). apply in_assigns2. right. exists f. split; [assumption|].
      rewrite (fs_doc2_single _ (NW _ Hf)), (norm_fix_l _ (no_wild_star_free _ (NW _ Hf))). reflexivity.
Qed.

(* ---------- operations: document = server ---------- *)

(* some mounted operation uses the verb *)
Definition uses (d : design) (v : verb) := exists o, In o (server_ops d) /\ overb o = v.

Lemma nkey_uses d v k : In (v, k) (map nkey (server_ops d)) -> uses d v.
Proof. rewrite in_map_iff. intros [o [E H]]. exists o. unfold nkey in E. inversion E. auto. Qed.

Lemma doc3_keys_gen d v k : no_wild_files d ->
  In (v, k) (map okey (doc3_ops d)) <-> In (v, k) (map nkey (server_ops d)) /\ v3_slot v <> None.
Proof. intro NW. unfold doc3_ops, doc3. rewrite (doc_ops_key _ v3_sound), (assigns3_keys _ _ _ NW). reflexivity. Qed.

Lemma doc2_keys_gen d v k : no_wild_files d ->
  In (v, k) (map okey (doc2_ops d)) <-> In (v, k) (map nkey (server_ops d)) /\ v2_slot v <> None.
Proof. intro NW. unfold doc2_ops, doc2. rewrite (doc_ops_key _ v2_sound), (assigns2_keys _ _ _ NW). reflexivity. Qed.

Lemma doc3_keys d : no_wild_files d -> ~ uses d CONNECT ->
  forall v k, In (v, k) (map okey (doc3_ops d)) <-> In (v, k) (map nkey (server_ops d)).
Proof.
  intros NW NC v k. rewrite (doc3_keys_gen _ _ _ NW). split; [tauto|]. intro H. split; [assumption|].
  apply v3_total. intros ->. apply NC. eapply nkey_uses. eassumption.
Qed.

Lemma doc2_keys d : no_wild_files d -> ~ uses d CONNECT -> ~ uses d TRACE ->
  forall v k, In (v, k) (map okey (doc2_ops d)) <-> In (v, k) (map nkey (server_ops d)).
Proof.
  intros NW NC NT v k. rewrite (doc2_keys_gen _ _ _ NW). split; [tauto|]. intro H. split; [assumption|].
  apply v2_total; intros ->; [apply NC | apply NT]; eapply nkey_uses; eassumption.
Qed.

Lemma doc3_perm d : no_wild_files d -> ~ uses d CONNECT -> NoDup (map nkey (server_ops d)) ->
  Permutation (map okey (doc3_ops d)) (map nkey (server_ops d)).
Proof.
  intros NW NC ND. apply NoDup_Permutation; [apply doc_ops_nodup | assumption|].
  intros [v k]. apply doc3_keys; assumption.
Qed.

Lemma doc2_perm d : no_wild_files d -> ~ uses d CONNECT -> ~ uses d TRACE -> NoDup (map nkey (server_ops d)) ->
  Permutation (map okey (doc2_ops d)) (map nkey (server_ops d)).
Proof.
  intros NW NC NT ND. apply NoDup_Permutation; [apply doc_ops_nodup | assumption|].
  intros [v k]. apply doc2_keys; assumption.
Qed.

(* ---------- without any hypothesis: documented implies mounted, keys are path templates ---------- *)

Lemma norm_app a b : norm (a ++ b) = (norm a ++ norm b)%list.
Proof. unfold norm. apply map_app. Qed.

(* a file server request path, rewritten, is the rewritten form of one of its mounts *)
Lemma fs_srv_norm f : exists p o, In (p, GET, o) (fs_srv f) /\ norm p = norm f.
Proof.
  unfold fs_srv. destruct (fs_dir f) as [[base n]|] eqn:E.
  - exists (base ++ [Star n])%list. eexists. split; [right; left; reflexivity|].
    unfold fs_dir in E. destruct (rev f) as [|x b] eqn:R; [discriminate|].
    assert (Hf : f = (rev b ++ [x])%list) by (rewrite <- (rev_involutive f), R; reflexivity).
    destruct x; inversion E; subst base n; rewrite Hf, !norm_app; reflexivity.
  - exists f. eexists. split; [left; reflexivity | reflexivity].
Qed.

Lemma assigns3_keys_sub d v k : (exists o, In (k, v, o) (assigns3 d)) -> In (v, k) (map nkey (server_ops d)).
Proof.
  rewrite in_server_nkeys. intros [o H]. apply in_assigns3 in H. destruct H as [[e [p [He [H1 [H2 H3]]]]]|[f [Hf E]]].
  - exists p, (srv_opd e). split; [|auto]. apply in_server_assigns. left. exists e. auto.
  - unfold fs_doc3 in E. inversion E as [[Ek Ev Eo]]. destruct (fs_srv_norm f) as [p [o' [Hp Hn]]].
    exists p, o'. split; [|assumption]. apply in_server_assigns. right. exists f. auto.
Qed.

Lemma assigns2_keys_sub d v k : (exists o, In (k, v, o) (assigns2 d)) -> In (v, k) (map nkey (server_ops d)).
Proof.
  rewrite in_server_nkeys. intros [o H]. apply in_assigns2 in H. destruct H as [[e [p [He [H1 [H2 H3]]]]]|[f [Hf E]]].
  - exists p, (srv_opd e). split; [|auto]. apply in_server_assigns. left. exists e. auto.
  - unfold fs_doc2 in E. inversion E as [[Ek Ev Eo]]. destruct (fs_srv_norm f) as [p [o' [Hp Hn]]].
    exists p, o'. split; [|assumption]. apply in_server_assigns. right. exists f. auto.
Qed.

Lemma doc3_sub d v k : In (v, k) (map okey (doc3_ops d)) -> In (v, k) (map nkey (server_ops d)).
Proof. unfold doc3_ops, doc3. rewrite (doc_ops_key _ v3_sound). intros [H _]. apply assigns3_keys_sub. assumption. Qed.

Lemma doc2_sub d v k : In (v, k) (map okey (doc2_ops d)) -> In (v, k) (map nkey (server_ops d)).
Proof. unfold doc2_ops, doc2. rewrite (doc_ops_key _ v2_sound). intros [H _]. apply assigns2_keys_sub. assumption. Qed.

(* every path key of either document is a path template: no {*name} *)
Lemma doc3_star_free d v k : In (v, k) (map okey (doc3_ops d)) -> star_free k = true.
Proof.
  unfold doc3_ops, doc3. rewrite (doc_ops_key _ v3_sound). intros [[o H] _]. apply in_assigns3 in H.
  destruct H as [[e [p [_ [_ [-> _]]]]]|[f [_ E]]]; [apply norm_star_free_l|].
  unfold fs_doc3 in E. inversion E. apply norm_star_free_l.
Qed.

Lemma doc2_star_free d v k : In (v, k) (map okey (doc2_ops d)) -> star_free k = true.
Proof.
  unfold doc2_ops, doc2. rewrite (doc_ops_key _ v2_sound). intros [[o H] _]. apply in_assigns2 in H.
  destruct H as [[e [p [_ [_ [-> _]]]]]|[f [_ E]]]; [apply norm_star_free_l|].
  unfold fs_doc2 in E. inversion E. apply norm_star_free_l.
Qed.

(* ---------- corresponding operations: parameters, body, status codes, schemes ---------- *)

(* where a documented operation comes from *)
Lemma doc3_origin d o : no_wild_files d -> In o (doc3_ops d) ->
  (exists e v p, endpoint_of d e /\ In (v, p) (ep_entries e) /\
                 o = op_of v (norm p) (doc3_opd e (norm p)) /\ In (op_of v p (srv_opd e)) (server_ops d)) \/
  (exists f, file_of d f /\ o = op_of GET f (mkopd [] false [200] (api_reqs d)) /\
             In (op_of GET f (mkopd [] false [200] [])) (server_ops d)).
Proof.
  intros NW H. apply (doc_ops_origin _ v3_sound) in H. destruct H as [k [v [od [Hin [_ ->]]]]].
  apply in_assigns3 in Hin. destruct Hin as [[e [p [He [H1 [-> ->]]]]]|[f [Hf E]]].
  - left. exists e, v, p. repeat split; try assumption.
    unfold server_ops. apply in_map_iff. exists (p, v, srv_opd e). split; [reflexivity|].
    apply in_server_assigns. left. exists e. auto.
  - right. rewrite (fs_doc3_single _ _ (NW _ Hf)) in E. inversion E as [[Ek Ev Eo]]. subst k v od. exists f. repeat split; try assumption.
    unfold server_ops. apply in_map_iff. exists (f, GET, mkopd [] false [200] []). split; [reflexivity|].
    apply in_server_assigns. right. exists f. split; [assumption|]. rewrite (fs_srv_single _ (NW _ Hf)). left. reflexivity.
Qed.

Lemma doc2_origin d o : no_wild_files d -> In o (doc2_ops d) ->
  (exists e v p, endpoint_of d e /\ In (v, p) (ep_entries e) /\
                 o = op_of v (norm p) (doc2_opd e (norm p)) /\ In (op_of v p (srv_opd e)) (server_ops d)) \/
  (exists f, file_of d f /\ o = op_of GET f (mkopd [] false [200] []) /\
             In (op_of GET f (mkopd [] false [200] [])) (server_ops d)).
Proof.
  intros NW H. apply (doc_ops_origin _ v2_sound) in H. destruct H as [k [v [od [Hin [_ ->]]]]].
  apply in_assigns2 in Hin. destruct Hin as [[e [p [He [H1 [-> ->]]]]]|[f [Hf E]]].
  - left. exists e, v, p. repeat split; try assumption.
    unfold server_ops. apply in_map_iff. exists (p, v, srv_opd e). split; [reflexivity|].
    apply in_server_assigns. left. exists e. auto.
  - right. rewrite (fs_doc2_single _ (NW _ Hf)) in E. inversion E as [[Ek Ev Eo]]. subst k v od. exists f. repeat split; try assumption.
    unfold server_ops. apply in_map_iff. exists (f, GET, mkopd [] false [200] []). split; [reflexivity|].
    apply in_server_assigns. right. exists f. split; [assumption|]. rewrite (fs_srv_single _ (NW _ Hf)). left. reflexivity.
Qed.

(* every route of the endpoint binds the same wildcard names (goa's validation refuses
   "Param does not appear in all routes") *)
Definition uniform (e : endpoint) := forall v p n, In (v, p) (ep_entries e) -> In n (ep_wild e) -> In n (wildcards p).

(* no header or cookie is both required and defaulted *)
Definition nodef (e : endpoint) := forall m, In m (eheaders e) \/ In m (ecookies e) -> ma_req m = true -> ma_def m = false.

Lemma wild_in_ep_wild e v p n : In (v, p) (ep_entries e) -> In n (wildcards p) -> In n (ep_wild e).
Proof.
  unfold ep_entries, ep_wild. rewrite !in_flat_map. intros [r [Hr H]] Hn. apply in_map_iff in H. destruct H as [q [E Hq]].
  inversion E; subst. exists r. split; [assumption|]. apply in_flat_map. exists p. auto.
Qed.

Lemma mem_wild_norm e v p m : uniform e -> In (v, p) (ep_entries e) ->
  memN (ma_attr m) (wildcards (norm p)) = memN (ma_attr m) (ep_wild e).
Proof.
  intros U H. rewrite wildcards_norm_l. apply eq_true_iff_eq. rewrite !memN_spec. split.
  - apply (wild_in_ep_wild _ _ _ _ H).
  - apply (U _ _ _ H).
Qed.

Lemma req_nodef_eq e m : nodef e -> In m (eheaders e) \/ In m (ecookies e) -> req_nodef m = ma_req m.
Proof.
  intros ND H. unfold req_nodef. destruct (ma_req m) eqn:E; [|reflexivity]. rewrite (ND _ H E). reflexivity.
Qed.

Definition not_auth (q : param) : bool := negb (pauth q).
Definition not_cookie (q : param) : bool := match ploc q with InCookie => false | _ => true end.

(* OpenAPI 3: the documented parameters are the parameters the decoder reads, minus
   the Authorization headers (described by the security requirement) *)
Lemma params3_agree e v p : uniform e -> nodef e -> In (v, p) (ep_entries e) ->
  forall q, In q (doc3_params e (norm p)) <-> In q (filter not_auth (srv_params e)).
Proof.
  intros U ND H q. unfold doc3_params, doc_path_params, srv_params.
  rewrite filter_In, !in_app_iff, !in_map_iff. split.
  - intros [[m [E Hm]]|[[m [E Hm]]|[m [E Hm]]]].
    + rewrite (mem_wild_norm _ _ _ m U H) in E. destruct (memN (ma_attr m) (ep_wild e)) eqn:M; subst q; (split; [|reflexivity]).
      * left. exists m. split; [reflexivity|]. apply filter_In. auto.
      * right; left. exists m. split; [reflexivity|]. apply filter_In. rewrite M. auto.
    + apply filter_In in Hm. destruct Hm as [Hm Ha]. subst q. rewrite (req_nodef_eq e m ND (or_introl Hm)). split.
      * right; right; left. exists m. apply negb_true_iff in Ha. rewrite Ha. auto.
      * reflexivity.
    + subst q. rewrite (req_nodef_eq e m ND (or_intror Hm)). split; [|reflexivity]. right; right; right. exists m. auto.
  - intros [[[m [E Hm]]|[[m [E Hm]]|[[m [E Hm]]|[m [E Hm]]]]] Ha].
    + apply filter_In in Hm. destruct Hm as [Hm M]. left. exists m. split; [|assumption].
      rewrite (mem_wild_norm _ _ _ m U H), M. assumption.
    + apply filter_In in Hm. destruct Hm as [Hm M]. apply negb_true_iff in M. left. exists m. split; [|assumption].
      rewrite (mem_wild_norm _ _ _ m U H), M. assumption.
    + right; left. subst q. unfold not_auth in Ha; simpl in Ha. exists m. rewrite (req_nodef_eq e m ND (or_introl Hm)).
      apply negb_true_iff in Ha. rewrite Ha. split; [reflexivity|]. apply filter_In. rewrite Ha. auto.
    + right; right. exists m. rewrite (req_nodef_eq e m ND (or_intror Hm)). auto.
Qed.

(* OpenAPI 2: no cookie location; the Authorization header of basic auth is listed *)
Lemma params2_agree e v p : uniform e -> nodef e -> In (v, p) (ep_entries e) ->
  forall q, In q (doc2_params e (norm p)) <->
            In q (filter not_cookie (srv_params e)) \/ (exists n r, ebasic e = Some (n, r) /\ q = mkp n InHeader r true).
Proof.
  intros U ND H q. unfold doc2_params, doc_path_params, srv_params.
  rewrite filter_In, !in_app_iff, !in_map_iff. split.
  - intros [[m [E Hm]]|[[m [E Hm]]|Hb]].
    + left. rewrite (mem_wild_norm _ _ _ m U H) in E. destruct (memN (ma_attr m) (ep_wild e)) eqn:M; subst q; (split; [|reflexivity]).
      * left. exists m. split; [reflexivity|]. apply filter_In. auto.
      * right; left. exists m. split; [reflexivity|]. apply filter_In. rewrite M. auto.
    + left. subst q. rewrite (req_nodef_eq e m ND (or_introl Hm)). split; [|reflexivity]. right; right; left. exists m. auto.
    + right. destruct (ebasic e) as [[n r]|]; [|destruct Hb]. destruct Hb as [<-|[]]. exists n, r. auto.
  - intros [[[[m [E Hm]]|[[m [E Hm]]|[[m [E Hm]]|[m [E Hm]]]]] Hc]|[n [r [Eb ->]]]].
    + apply filter_In in Hm. destruct Hm as [Hm M]. left. exists m. split; [|assumption].
      rewrite (mem_wild_norm _ _ _ m U H), M. assumption.
    + apply filter_In in Hm. destruct Hm as [Hm M]. apply negb_true_iff in M. left. exists m. split; [|assumption].
      rewrite (mem_wild_norm _ _ _ m U H), M. assumption.
    + right; left. exists m. rewrite (req_nodef_eq e m ND (or_introl Hm)). auto.
    + subst q. discriminate Hc.
    + right; right. rewrite Eb. left. reflexivity.
Qed.

Definition params_agree3 (s o : op) := forall q, In q (oparams o) <-> In q (filter not_auth (oparams s)).
Definition statuses_agree (s o : op) := forall n, In n (ostat o) <-> In n (ostat s).

Definition all_uniform (d : design) := forall e, endpoint_of d e -> uniform e.
Definition all_nodef (d : design) := forall e, endpoint_of d e -> nodef e.
Definition no_files (d : design) := forall f, ~ file_of d f.

(* a multipart request has a body type *)
Definition all_multipart_body (d : design) := forall e, endpoint_of d e -> emultipart e = true -> ebody e = true.

Lemma body_eq e : (emultipart e = true -> ebody e = true) -> ebody e = (ebody e || emultipart e).
Proof. destruct (ebody e), (emultipart e); simpl; intro H; try reflexivity. apply H. reflexivity. Qed.

Definition same_op (s o : op) := overb s = overb o /\ norm (opath s) = opath o.

(* every documented operation has a mounted operation with the same method and path
   template, and each compared attribute agrees under the hypothesis it needs *)
Lemma ops3_agree_gen d : no_wild_files d ->
  forall o, In o (doc3_ops d) ->
  exists s, In s (server_ops d) /\ same_op s o /\
            (all_uniform d -> all_nodef d -> params_agree3 s o) /\
            (all_multipart_body d -> obody o = obody s) /\
            statuses_agree s o /\
            (api_reqs d = [] \/ no_files d -> osec o = osec s).
Proof.
  intros NW o H. destruct (doc3_origin _ _ NW H) as [[e [v [p [He [Hin [-> Hs]]]]]]|[f [Hf [-> Hs]]]].
  - exists (op_of v p (srv_opd e)). split; [assumption|]. split; [split; reflexivity|].
    split; [intros U ND; exact (params3_agree e v p (U _ He) (ND _ He) Hin)|].
    split; [intro MB; exact (body_eq e (MB _ He)) | split; [intro n; reflexivity | reflexivity]].
  - exists (op_of GET f (mkopd [] false [200] [])). split; [assumption|].
    split; [split; [reflexivity | apply norm_fix_l, no_wild_star_free, NW; assumption]|].
    split; [intros _ _ q; simpl; tauto|]. split; [reflexivity|]. split; [intro n; reflexivity|].
    simpl. intros [->|NF]; [reflexivity | destruct (NF _ Hf)].
Qed.

Lemma ops3_agree d : no_wild_files d -> all_uniform d -> all_nodef d -> all_multipart_body d -> (api_reqs d = [] \/ no_files d) ->
  forall o, In o (doc3_ops d) ->
  exists s, In s (server_ops d) /\ same_op s o /\
            params_agree3 s o /\ obody o = obody s /\ statuses_agree s o /\ osec o = osec s.
Proof.
  intros NW U ND MB AR o H. destruct (ops3_agree_gen d NW o H) as [s [H1 [H2 [H3 [H4 [H5 H6]]]]]].
  exists s. repeat (split; auto).
Qed.

Lemma params3_agree_d d : no_wild_files d -> all_uniform d -> all_nodef d ->
  forall o, In o (doc3_ops d) -> exists s, In s (server_ops d) /\ same_op s o /\ params_agree3 s o.
Proof. intros NW U ND o H. destruct (ops3_agree_gen d NW o H) as [s [H1 [H2 [H3 _]]]]. exists s. auto. Qed.

Lemma body3_agree_d d : no_wild_files d -> all_multipart_body d ->
  forall o, In o (doc3_ops d) -> exists s, In s (server_ops d) /\ same_op s o /\ (obody o = true <-> obody s = true).
Proof.
  intros NW MB o H. destruct (ops3_agree_gen d NW o H) as [s [H1 [H2 [_ [H4 _]]]]]. exists s. rewrite (H4 MB). tauto.
Qed.

Lemma statuses3_agree_d d : no_wild_files d ->
  forall o, In o (doc3_ops d) -> exists s, In s (server_ops d) /\ same_op s o /\ statuses_agree s o.
Proof. intros NW o H. destruct (ops3_agree_gen d NW o H) as [s [H1 [H2 [_ [_ [H5 _]]]]]]. exists s. auto. Qed.

Lemma schemes3_agree_d d : no_wild_files d -> (api_reqs d = [] \/ no_files d) ->
  forall o, In o (doc3_ops d) -> exists s, In s (server_ops d) /\ same_op s o /\ osec o = osec s.
Proof. intros NW AR o H. destruct (ops3_agree_gen d NW o H) as [s [H1 [H2 [_ [_ [_ H6]]]]]]. exists s. auto. Qed.

Definition params_agree2 (e_basic : option (N * bool)) (s o : op) :=
  forall q, In q (oparams o) <->
            In q (filter not_cookie (oparams s)) \/ (exists n r, e_basic = Some (n, r) /\ q = mkp n InHeader r true).

(* OpenAPI 2 *)
Lemma ops2_agree d : no_wild_files d -> all_uniform d -> all_nodef d -> all_multipart_body d ->
  forall o, In o (doc2_ops d) ->
  exists s, In s (server_ops d) /\ same_op s o /\
            (exists b, params_agree2 b s o) /\ obody o = obody s /\ statuses_agree s o /\ osec o = osec s.
Proof.
  intros NW U ND MB o H. destruct (doc2_origin _ _ NW H) as [[e [v [p [He [Hin [-> Hs]]]]]]|[f [Hf [-> Hs]]]].
  - exists (op_of v p (srv_opd e)). split; [assumption|]. split; [split; reflexivity|].
    split; [exists (ebasic e); exact (params2_agree e v p (U _ He) (ND _ He) Hin)|].
    split; [exact (body_eq e (MB _ He)) | split; [intro n; reflexivity | reflexivity]].
  - exists (op_of GET f (mkopd [] false [200] [])). split; [assumption|].
    split; [split; [reflexivity | apply norm_fix_l, no_wild_star_free, NW; assumption]|].
    split; [exists None; intro q; simpl; split; [tauto | intros [[]|[n [r [E _]]]]; discriminate]|].
    split; [reflexivity|]. split; [intro n; reflexivity | reflexivity].
Qed.

(* ---------- witnesses of the recorded findings, evaluated inside Coq ---------- *)

Definition plain_ep (v : verb) (p : path) : endpoint := mke [mkr v false [p]] [] [] [] false false None [204] [] [].

(* a CONNECT route next to a GET route *)
Definition w_connect : design := mkd [mks [plain_ep CONNECT [Lit 1]; plain_ep GET [Lit 2]] []] [] [].
(* a TRACE route *)
Definition w_trace : design := mkd [mks [plain_ep TRACE [Lit 1]; plain_ep GET [Lit 2]] []] [] [].
(* Files("/1/{*2}", ...) *)
Definition w_dir : design := mkd [mks [plain_ep GET [Lit 3]] [mkf [[Lit 1; Star 2]]]] [] [].
(* a header that is required and has a default *)
Definition w_reqdef : design :=
  mkd [mks [mke [mkr GET false [[Lit 1]]] [] [mkm 2 3 true true false] [] false false None [200] [] []] []] [] [].
(* a cookie *)
Definition w_cookie : design :=
  mkd [mks [mke [mkr GET false [[Lit 1]]] [] [] [mkm 2 3 true false false] false false None [200] [] []] []] [] [].
(* API level requirement and a single-file server *)
Definition w_filesec : design := mkd [mks [plain_ep GET [Lit 3]] [mkf [[Lit 1]]]] [[5]] [].

Ltac not_in := let H := fresh in intro H; vm_compute in H; intuition discriminate.

Lemma connect_refuted_l :
  exists d v k, uses d CONNECT /\ In (v, k) (map nkey (server_ops d)) /\ ~ In (v, k) (map okey (doc3_ops d)).
Proof.
  exists w_connect, CONNECT, [Lit 1]. split; [|split].
  - eexists. split; [left; reflexivity | reflexivity].
  - vm_compute. auto.
  - not_in.
Qed.

Lemma trace2_refuted_l :
  exists d v k, uses d TRACE /\ ~ uses d CONNECT /\ In (v, k) (map nkey (server_ops d)) /\ ~ In (v, k) (map okey (doc2_ops d)) /\
                In (v, k) (map okey (doc3_ops d)).
Proof.
  exists w_trace, TRACE, [Lit 1]. split; [|split; [|split; [|split]]].
  - eexists. split; [left; reflexivity | reflexivity].
  - intros [o [H E]]. vm_compute in H. destruct H as [<-|[<-|[]]]; discriminate E.
  - vm_compute. auto.
  - not_in.
  - vm_compute. auto.
Qed.

Lemma dir_refuted_l :
  exists d, ~ uses d CONNECT /\ ~ no_wild_files d /\
    (exists k, In k (map nkey (server_ops d)) /\ ~ In k (map okey (doc3_ops d)) /\ ~ In k (map okey (doc2_ops d))) /\
    (* the other mount, GET <dir>/{*name}, is documented by both under its rewritten form *)
    (exists k, In k (map nkey (server_ops d)) /\ In k (map okey (doc3_ops d)) /\ In k (map okey (doc2_ops d)) /\ star_free (snd k) = true).
Proof.
  exists w_dir. split; [|split; [|split]].
  - intros [o [H E]]. vm_compute in H. destruct H as [<-|[<-|[<-|[]]]]; discriminate E.
  - intro NW. assert (H : wildcards [Lit 1; Star 2] = []) by (apply NW; exists (mks [plain_ep GET [Lit 3]] [mkf [[Lit 1; Star 2]]]); split; [left; reflexivity | left; reflexivity]). discriminate H.
  - exists (GET, [Lit 1; Lit 0]). split; [vm_compute; auto | split; not_in].
  - exists (GET, [Lit 1; Var 2]). split; [vm_compute; auto | split; [vm_compute; auto | split; [vm_compute; auto | reflexivity]]].
Qed.

Lemma reqdef_refuted_l :
  exists d o, no_wild_files d /\ all_uniform d /\ In o (doc3_ops d) /\
    forall s, In s (server_ops d) -> same_op s o -> ~ params_agree3 s o.
Proof.
  exists w_reqdef, (mko GET [Lit 1] [mkp 3 InHeader false false] false [200] []). split; [|split; [|split]].
  - intros f [s [[<-|[]] []]].
  - intros e [s [[<-|[]] [<-|[]]]] v p n H1 H2. vm_compute in H2. destruct H2.
  - vm_compute. auto.
  - intros s H _ A. vm_compute in H. destruct H as [<-|[]]. specialize (A (mkp 3 InHeader false false)).
    vm_compute in A. destruct A as [A _]. destruct (A (or_introl eq_refl)) as [E|[]]. discriminate E.
Qed.

Lemma cookie2_refuted_l :
  exists d o, In o (doc2_ops d) /\
    forall s, In s (server_ops d) -> same_op s o -> exists q, In q (oparams s) /\ ploc q = InCookie /\ ~ In q (oparams o).
Proof.
  exists w_cookie, (mko GET [Lit 1] [] false [200] []). split.
  - vm_compute. auto.
  - intros s H _. vm_compute in H. destruct H as [<-|[]]. exists (mkp 3 InCookie true false). split; [vm_compute; auto | split; [reflexivity | intros []]].
Qed.

Lemma filesec_refuted_l :
  exists d o, no_wild_files d /\ api_reqs d <> [] /\ In o (doc3_ops d) /\ osec o <> [] /\
    forall s, In s (server_ops d) -> same_op s o -> osec s = [].
Proof.
  exists w_filesec, (mko GET [Lit 1] [] false [200] [[5]]). split; [|split; [|split; [|split]]].
  - intros f [s [[<-|[]] [<-|[]]]]. reflexivity.
  - discriminate.
  - vm_compute. auto.
  - discriminate.
  - intros s H [_ K]. vm_compute in H. destruct H as [<-|[<-|[]]]; [discriminate K | reflexivity].
Qed.

(* non-vacuity: a design inside every hypothesis, with path, query, header and cookie
   parameters, a wildcard route, two routes on one endpoint, a file server *)
Definition good : design :=
  mkd [mks [mke [mkr PUT false [[Lit 1; Var 10; Star 11]]; mkr PATCH false [[Lit 2; Var 11; Var 10]]]
                [mkm 10 10 true false false; mkm 11 11 true false false; mkm 12 20 false true false]
                [mkm 13 21 true false false; mkm 14 22 true false true] [mkm 15 23 false true false]
                true false None [200; 202] [404] [[30]; [31; 32]];
            plain_ep TRACE [Lit 3]]
           [mkf [[Lit 4; Lit 5]]]] [] [].

Lemma good_hyps : no_wild_files good /\ ~ uses good CONNECT /\ all_uniform good /\ all_nodef good /\ all_multipart_body good /\
                  NoDup (map nkey (server_ops good)).
Proof.
  split; [|split; [|split; [|split; [|split]]]].
  - intros f [s [[<-|[]] [<-|[]]]]. reflexivity.
  - intros [o [H E]]. vm_compute in H. repeat (destruct H as [<-|H]; [discriminate E|]). destruct H.
  - intros e [s [[<-|[]] [<-|[<-|[]]]]] v p n H1 H2; vm_compute in H1, H2.
    + destruct H1 as [H1|[H1|[]]]; inversion H1; subst; vm_compute; tauto.
    + destruct H2.
  - intros e [s [[<-|[]] [<-|[<-|[]]]]] m [H|H] R; vm_compute in H; try (destruct H as [<-|[<-|[]]]); try (destruct H as [<-|[]]); try destruct H; try reflexivity; discriminate R.
  - intros e [s [[<-|[]] [<-|[<-|[]]]]] H; [discriminate H | discriminate H].
  - vm_compute. repeat constructor; simpl; intuition discriminate.
Qed.

(* ---------- openapi:generate=false: mounted = visible + hidden ---------- *)

Lemma in_sel_assigns keep ms r b a :
  In a (server_assigns (mkd (map (sel_service keep) ms) r b)) <->
  exists s, In s ms /\
    ((exists e, In e (ms_eps s) /\ keep (ms_gen s) (me_gen e) = true /\ In a (ep_srv (me_ep e))) \/
     (exists f p, In f (ms_files s) /\ keep (ms_gen s) (mf_gen f) = true /\ In p (fpaths (mf_fs f)) /\ In a (fs_srv p))).
Proof.
  unfold server_assigns; simpl. rewrite in_flat_map. split.
  - intros [s' [Hs H]]. apply in_map_iff in Hs. destruct Hs as [s [<- Hs]]. exists s. split; [assumption|].
    unfold svc_srv, svc_files, sel_service in H; simpl in H. rewrite in_app_iff, !in_flat_map in H. destruct H as [[e' [He H]]|[p [Hp H]]].
    + apply in_map_iff in He. destruct He as [e [<- He]]. apply filter_In in He. left. exists e. tauto.
    + apply in_flat_map in Hp. destruct Hp as [f' [Hf Hp]]. apply in_map_iff in Hf. destruct Hf as [f [<- Hf]]. apply filter_In in Hf.
      right. exists f, p. tauto.
  - intros [s [Hs H]]. exists (sel_service keep s). split; [apply in_map; assumption|].
    unfold svc_srv, svc_files, sel_service; simpl. rewrite in_app_iff, !in_flat_map. destruct H as [[e [He [K H]]]|[f [p [Hf [K [Hp H]]]]]].
    + left. exists (me_ep e). split; [|assumption]. apply in_map. apply filter_In. auto.
    + right. exists p. split; [|assumption]. apply in_flat_map. exists (mf_fs f). split; [|assumption]. apply in_map. apply filter_In. auto.
Qed.

Lemma mounted_split_assigns m a :
  In a (server_assigns (mounted m)) <-> In a (server_assigns (visible m)) \/ In a (server_assigns (hidden m)).
Proof.
  unfold mounted, visible, hidden. rewrite !in_sel_assigns. split.
  - intros [s [Hs [[e [He [_ H]]]|[f [p [Hf [_ [Hp H]]]]]]]].
    + destruct (ms_gen s && me_gen e) eqn:K; [left|right]; exists s; (split; [assumption|]); left; exists e; rewrite K; auto.
    + destruct (ms_gen s && mf_gen f) eqn:K; [left|right]; exists s; (split; [assumption|]); right; exists f, p; rewrite K; auto.
  - intros [[s [Hs H]]|[s [Hs H]]]; exists s; (split; [assumption|]);
      (destruct H as [[e [He [_ H]]]|[f [p [Hf [_ [Hp H]]]]]]; [left; exists e; auto | right; exists f, p; auto]).
Qed.

Lemma mounted_split m o :
  In o (server_ops (mounted m)) <-> In o (server_ops (visible m)) \/ In o (server_ops (hidden m)).
Proof.
  unfold server_ops. rewrite !in_map_iff. split.
  - intros [a [E H]]. apply mounted_split_assigns in H. destruct H as [H|H]; [left|right]; exists a; auto.
  - intros [[a [E H]]|[a [E H]]]; exists a; (split; [assumption|]); apply mounted_split_assigns; auto.
Qed.

Lemma mounted_split_keys m v k :
  In (v, k) (map nkey (server_ops (mounted m))) <->
  In (v, k) (map nkey (server_ops (visible m))) \/ In (v, k) (map nkey (server_ops (hidden m))).
Proof.
  rewrite !in_map_iff. split.
  - intros [o [E H]]. apply mounted_split in H. destruct H as [H|H]; [left|right]; exists o; auto.
  - intros [[o [E H]]|[o [E H]]]; exists o; (split; [assumption|]); apply mounted_split; auto.
Qed.

Definition unmarked (m : mdesign) :=
  forall s, In s (md_services m) -> ms_gen s = true /\ (forall e, In e (ms_eps s) -> me_gen e = true) /\ (forall f, In f (ms_files s) -> mf_gen f = true).

Lemma filter_all {A} (f : A -> bool) l : (forall x, In x l -> f x = true) -> filter f l = l.
Proof. induction l as [|x l IH]; simpl; intro H; [reflexivity|]. rewrite (H x (or_introl eq_refl)), IH; [reflexivity|]. intros y Hy. apply H. right. assumption. Qed.

Lemma unmarked_visible m : unmarked m -> visible m = mounted m.
Proof.
  intro U. unfold visible, mounted. f_equal. apply map_ext_in. intros s Hs. destruct (U s Hs) as [G [GE GF]].
  unfold sel_service. rewrite G.
  rewrite (filter_all (fun e => true && me_gen e) (ms_eps s)) by (intros e He; rewrite (GE e He); reflexivity).
  rewrite (filter_all (fun _ : mendpoint => true) (ms_eps s)) by reflexivity.
  rewrite (filter_all (fun f => true && mf_gen f) (ms_files s)) by (intros f Hf; rewrite (GF f Hf); reflexivity).
  rewrite (filter_all (fun _ : mfile => true) (ms_files s)) by reflexivity.
  reflexivity.
Qed.

(* the documents of a marked design list exactly the mounted operations that are not
   marked (and whose verb has a case) *)
Lemma mdoc3_keys m v k : no_wild_files (visible m) -> ~ uses (visible m) CONNECT ->
  (In (v, k) (map okey (doc3_ops (visible m))) <->
   In (v, k) (map nkey (server_ops (visible m)))) /\
  (In (v, k) (map okey (doc3_ops (visible m))) -> In (v, k) (map nkey (server_ops (mounted m)))).
Proof.
  intros NW NC. split; [apply doc3_keys; assumption|]. intro H. apply mounted_split_keys. left. apply doc3_sub. assumption.
Qed.

Lemma mdoc3_sub m v k : In (v, k) (map okey (doc3_ops (visible m))) -> In (v, k) (map nkey (server_ops (mounted m))).
Proof. intro H. apply mounted_split_keys. left. apply doc3_sub. assumption. Qed.

Lemma mdoc2_sub m v k : In (v, k) (map okey (doc2_ops (visible m))) -> In (v, k) (map nkey (server_ops (mounted m))).
Proof. intro H. apply mounted_split_keys. left. apply doc2_sub. assumption. Qed.

(* a mounted operation missing from the OpenAPI 3 document is marked, or uses a verb
   without a case *)
Lemma mdoc3_missing m v k : no_wild_files (visible m) ->
  In (v, k) (map nkey (server_ops (mounted m))) -> ~ In (v, k) (map okey (doc3_ops (visible m))) ->
  In (v, k) (map nkey (server_ops (hidden m))) \/ v3_slot v = None.
Proof.
  intros NW H N. apply mounted_split_keys in H. destruct H as [H|H]; [|left; assumption].
  right. destruct (v3_slot v) eqn:E; [|reflexivity]. exfalso. apply N. apply (doc3_keys_gen _ _ _ NW). split; [assumption | congruence].
Qed.

(* witness: two endpoints, the second marked; it is mounted and in neither document *)
Definition w_marked : mdesign :=
  mkmd [mkms [mkme (plain_ep GET [Lit 1]) true; mkme (plain_ep POST [Lit 2]) false] [] true false] [] [].

Lemma marked_example :
  In (POST, [Lit 2]) (map nkey (server_ops (mounted w_marked))) /\
  ~ In (POST, [Lit 2]) (map okey (doc3_ops (visible w_marked))) /\ ~ In (POST, [Lit 2]) (map okey (doc2_ops (visible w_marked))) /\
  In (POST, [Lit 2]) (map nkey (server_ops (hidden w_marked))) /\
  In (GET, [Lit 1]) (map okey (doc3_ops (visible w_marked))).
Proof. split; [vm_compute; auto | split; [not_in | split; [not_in | split; vm_compute; auto]]]. Qed.

(* ---------- OpenAPI 2: basePath + key resolves to the mounted path ---------- *)

Lemma prefix_recombine bp : forall k, is_prefix bp k = true -> (bp ++ skipn (length bp) k)%list = k.
Proof.
  induction bp as [|b bp IH]; intros k H; simpl; [reflexivity|].
  destruct k as [|x k]; simpl in H; [discriminate|]. apply andb_true_iff in H. destruct H as [E H].
  apply seg_eqb_spec in E. subst. simpl. rewrite (IH _ H). reflexivity.
Qed.

Lemma v2_resolve_key bp k : trivial_base bp = true \/ is_prefix bp k = true -> v2_resolve bp (v2_key bp k) = k.
Proof.
  unfold v2_resolve, v2_key. destruct (trivial_base bp) eqn:T; [reflexivity|].
  intros [H|H]; [discriminate|]. rewrite H. apply prefix_recombine. assumption.
Qed.

Lemma norm_seg_eqb a b : seg_eqb a b = true -> seg_eqb (norm_seg a) (norm_seg b) = true.
Proof. intro H. apply seg_eqb_spec in H. subst. apply seg_eqb_spec. reflexivity. Qed.

Lemma is_prefix_norm a : forall b, is_prefix a b = true -> is_prefix (norm a) (norm b) = true.
Proof.
  induction a as [|x a IH]; intros b H; simpl; [reflexivity|]. destruct b as [|y b]; simpl in *; [discriminate|].
  apply andb_true_iff in H. destruct H as [E H]. rewrite (norm_seg_eqb _ _ E), (IH _ H). reflexivity.
Qed.

(* every path of a route that is not absolute, in a service whose own path is not absolute,
   starts with the API base path (what RouteExpr.FullPaths builds: API path, service path,
   route path joined) *)
Definition rooted (d : design) :=
  forall s e r p, In s (services d) -> In e (endpoints s) -> In r (routes e) -> rabs r = false -> sabs s = false ->
                  In p (rpaths r) -> is_prefix (api_base d) p = true.

Lemma has_abs_false d s e r : has_abs d = false -> In s (services d) -> In e (endpoints s) -> In r (routes e) ->
  rabs r = false /\ sabs s = false.
Proof.
  unfold has_abs. intros H Hs He Hr.
  destruct (rabs r) eqn:A; destruct (sabs s) eqn:B; try (split; reflexivity); exfalso;
    (assert (X : existsb (fun s => existsb (fun e => existsb rabs (routes e) || sabs s) (endpoints s)) (services d) = true);
     [apply existsb_exists; exists s; split; [assumption|]; apply existsb_exists; exists e; split; [assumption|];
      apply orb_true_iff; first [right; assumption | left; apply existsb_exists; exists r; auto] | congruence]).
Qed.

Lemma has_files_false d f : has_files d = false -> ~ file_of d f.
Proof.
  unfold has_files. intros H [s [Hs Hf]].
  assert (X : existsb (fun s => match svc_files s with [] => false | _ => true end) (services d) = true).
  { apply existsb_exists. exists s. split; [assumption|]. destruct (svc_files s); [destruct Hf | reflexivity]. }
  congruence.
Qed.

Lemma in_ep_entries e v p : In (v, p) (ep_entries e) -> exists r, In r (routes e) /\ rverb r = v /\ In p (rpaths r).
Proof.
  unfold ep_entries. rewrite in_flat_map. intros [r [Hr H]]. apply in_map_iff in H. destruct H as [q [E Hq]].
  inversion E; subst. exists r. auto.
Qed.

(* for every design: the key written in openapi.json, read against basePath, is the
   (rewritten) path the server mounts *)
Lemma doc2_resolve d : rooted d -> forall o, In o (doc2_ops d) ->
  v2_resolve (norm (v2_base d)) (v2_key (norm (v2_base d)) (opath o)) = opath o.
Proof.
  intros R o H. apply v2_resolve_key. unfold v2_base.
  destruct (has_abs d) eqn:HA; simpl; [left; reflexivity|]. destruct (has_files d) eqn:HF; simpl; [left; reflexivity|].
  right. apply (doc_ops_origin _ v2_sound) in H. destruct H as [k [v [od [Hin [_ ->]]]]]. simpl.
  apply in_assigns2 in Hin. destruct Hin as [[e [p [He [H1 [-> _]]]]]|[f [Hf _]]].
  - destruct (in_ep_entries _ _ _ H1) as [r [Hr [_ Hp]]]. apply is_prefix_norm. destruct He as [s [Hs He]].
    destruct (has_abs_false d s e r HA Hs He Hr) as [A B]. apply (R s e r p Hs He Hr A B Hp).
  - destruct (has_files_false d f HF Hf).
Qed.

(* when the base path is given up every key is written in full *)
Lemma doc2_full_keys d k : has_abs d || has_files d = true -> v2_key (norm (v2_base d)) k = k.
Proof. intro H. unfold v2_base. rewrite H. reflexivity. Qed.

(* regression example (was a finding, fix of hasAbsoluteRoutes): a service whose own path is
   absolute ("//abs") under an API base path gives the base path up, every key is written in
   full and resolves to what is mounted; the design is rooted although /5/6 is not under /9 *)
Definition w_svcabs : design :=
  mkd [mksa [plain_ep GET [Lit 5; Lit 6]] [] true; mks [plain_ep GET [Lit 9; Lit 7]] []] [] [Lit 9].

Lemma svcabs_example :
  rooted w_svcabs /\ has_abs w_svcabs = true /\ v2_base w_svcabs = [] /\
  doc2_written w_svcabs (doc2_ops w_svcabs) = [(GET, [Lit 5; Lit 6]); (GET, [Lit 9; Lit 7])] /\
  doc2_resolved w_svcabs (doc2_ops w_svcabs) = doc2_ops w_svcabs /\
  map nkey (server_ops w_svcabs) = map okey (doc2_ops w_svcabs).
Proof.
  split; [|vm_compute; repeat split].
  intros s e r p [<-|[<-|[]]] [<-|[]] [<-|[]] _ B [<-|[]]; [discriminate B | reflexivity].
Qed.

(* non-vacuity: a rooted design; the keys are written without the base path *)
Definition w_based : design :=
  mkd [mks [plain_ep GET [Lit 9; Lit 7]; plain_ep POST [Lit 9; Lit 8; Star 3]] []] [] [Lit 9].

Lemma based_example :
  rooted w_based /\ norm (v2_base w_based) = [Lit 9] /\
  doc2_written w_based (doc2_ops w_based) = [(GET, [Lit 7]); (POST, [Lit 8; Var 3])] /\
  map (fun vk => v2_resolve [Lit 9] (snd vk)) (doc2_written w_based (doc2_ops w_based)) = map opath (doc2_ops w_based).
Proof.
  split; [|vm_compute; auto].
  intros s e r p [<-|[]] [<-|[<-|[]]] [<-|[]] _ _ [<-|[]]; reflexivity.
Qed.

Lemma doc2_resolved_id d : rooted d -> doc2_resolved d (doc2_ops d) = doc2_ops d.
Proof.
  intro R. unfold doc2_resolved. rewrite <- (map_id (doc2_ops d)) at 2. apply map_ext_in. intros o H.
  rewrite (doc2_resolve d R o H). destruct o; reflexivity.
Qed.
