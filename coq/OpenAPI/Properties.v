(* C07 — property statements only. Every theorem is closed by a lemma of Lemmas.v and
   followed by Print Assumptions.

   Vocabulary (Model.v / Run.v / Lemmas.v):
     server_ops d   the mount table of the generated server: one operation per
                    mux.Handle call (method, pattern with {name} / {*name}), with the
                    parameters its decoder reads, whether it decodes a body, the status
                    codes it writes, the schemes of its requirements;
     doc3_ops d     the operations found in openapi3.json / .yaml, doc2_ops d those of
                    openapi.json / .yaml, built with the verb switches read from
                    builder.go on this run (Generated_verbs.v);
     okey o         (method, path key) of a documented operation;
     nkey s         (method, pattern with {*name} rewritten to {name}) of a mounted one;
     uses d v       some mounted operation uses the verb v;
     no_wild_files  no file server path holds a wildcard (single files only: a directory
                    file server is also mounted on GET <dir>/, which no document lists). *)
From OpenAPI Require Import Model Generated_verbs Run Lemmas.
From Coq Require Import Permutation.

(* ---- OpenAPI 3: the document lists exactly the mounted operations ---- *)

(* for every design (any number of services, endpoints, routes, base paths, file
   servers): a (method, path) is documented iff it is mounted and the verb switch has a
   case for the method *)
Theorem doc_ops_general d v k : no_wild_files d ->
  In (v, k) (map okey (doc3_ops d)) <-> In (v, k) (map nkey (server_ops d)) /\ v3_slot v <> None.
Proof. exact (doc3_keys_gen d v k). Qed.
Print Assumptions doc_ops_general.

Theorem doc_ops_eq_server_ops_partial d : no_wild_files d -> ~ uses d CONNECT ->
  forall v k, In (v, k) (map okey (doc3_ops d)) <-> In (v, k) (map nkey (server_ops d)).
Proof. exact (doc3_keys d). Qed.
Print Assumptions doc_ops_eq_server_ops_partial.

(* a document never lists a (method, path) twice *)
Theorem doc_ops_keys_unique d : NoDup (map okey (doc3_ops d)).
Proof. exact (doc_ops_nodup v3_slot (assigns3 d)). Qed.
Print Assumptions doc_ops_keys_unique.

(* when no two mounts collide the two listings are permutations of each other *)
Theorem doc_ops_permutation_partial d : no_wild_files d -> ~ uses d CONNECT -> NoDup (map nkey (server_ops d)) ->
  Permutation (map okey (doc3_ops d)) (map nkey (server_ops d)).
Proof. exact (doc3_perm d). Qed.
Print Assumptions doc_ops_permutation_partial.

(* finding: a CONNECT route is mounted and absent from the document *)
Theorem doc_ops_connect_refuted :
  exists d v k, uses d CONNECT /\ In (v, k) (map nkey (server_ops d)) /\ ~ In (v, k) (map okey (doc3_ops d)).
Proof. exact connect_refuted_l. Qed.
Print Assumptions doc_ops_connect_refuted.

(* with no hypothesis at all: whatever is documented is mounted, and every path key is a
   path template (no {*name}); since 09d8d6c this includes wildcard file servers *)
Theorem doc_ops_subset_server_ops d v k : In (v, k) (map okey (doc3_ops d)) -> In (v, k) (map nkey (server_ops d)).
Proof. exact (doc3_sub d v k). Qed.
Print Assumptions doc_ops_subset_server_ops.

Theorem doc_ops_keys_are_path_templates d v k : In (v, k) (map okey (doc3_ops d)) -> star_free k = true.
Proof. exact (doc3_star_free d v k). Qed.
Print Assumptions doc_ops_keys_are_path_templates.

(* finding: a directory file server ("/1/{*2}") is mounted twice, GET /1/ and
   GET /1/{*2}; the first mount is in neither document (the second is in both, as
   /1/{2}). This is why the equalities above keep the hypothesis no_wild_files. *)
Theorem doc_ops_dir_file_server_refuted :
  exists d, ~ uses d CONNECT /\ ~ no_wild_files d /\
    (exists k, In k (map nkey (server_ops d)) /\ ~ In k (map okey (doc3_ops d)) /\ ~ In k (map okey (doc2_ops d))) /\
    (exists k, In k (map nkey (server_ops d)) /\ In k (map okey (doc3_ops d)) /\ In k (map okey (doc2_ops d)) /\ star_free (snd k) = true).
Proof. exact dir_refuted_l. Qed.
Print Assumptions doc_ops_dir_file_server_refuted.

(* ---- OpenAPI 2 ---- *)

Theorem doc2_ops_general d v k : no_wild_files d ->
  In (v, k) (map okey (doc2_ops d)) <-> In (v, k) (map nkey (server_ops d)) /\ v2_slot v <> None.
Proof. exact (doc2_keys_gen d v k). Qed.
Print Assumptions doc2_ops_general.

Theorem doc2_ops_eq_server_ops_partial d : no_wild_files d -> ~ uses d CONNECT -> ~ uses d TRACE ->
  forall v k, In (v, k) (map okey (doc2_ops d)) <-> In (v, k) (map nkey (server_ops d)).
Proof. exact (doc2_keys d). Qed.
Print Assumptions doc2_ops_eq_server_ops_partial.

Theorem doc2_ops_subset_server_ops d v k : In (v, k) (map okey (doc2_ops d)) -> In (v, k) (map nkey (server_ops d)).
Proof. exact (doc2_sub d v k). Qed.
Print Assumptions doc2_ops_subset_server_ops.

Theorem doc2_ops_keys_are_path_templates d v k : In (v, k) (map okey (doc2_ops d)) -> star_free k = true.
Proof. exact (doc2_star_free d v k). Qed.
Print Assumptions doc2_ops_keys_are_path_templates.

Theorem doc2_ops_permutation_partial d : no_wild_files d -> ~ uses d CONNECT -> ~ uses d TRACE -> NoDup (map nkey (server_ops d)) ->
  Permutation (map okey (doc2_ops d)) (map nkey (server_ops d)).
Proof. exact (doc2_perm d). Qed.
Print Assumptions doc2_ops_permutation_partial.

(* finding (Swagger 2.0 has no trace field): a TRACE route is mounted, listed by
   OpenAPI 3, absent from OpenAPI 2 *)
Theorem doc2_ops_trace_refuted :
  exists d v k, uses d TRACE /\ ~ uses d CONNECT /\ In (v, k) (map nkey (server_ops d)) /\ ~ In (v, k) (map okey (doc2_ops d)) /\
                In (v, k) (map okey (doc3_ops d)).
Proof. exact trace2_refuted_l. Qed.
Print Assumptions doc2_ops_trace_refuted.

(* ---- corresponding operations agree ---- *)

(* every documented operation corresponds to a mounted one (same method, same path
   template) with: the same parameters (name, location, required) except the
   Authorization headers, a request body exactly when the server decodes one, the same
   status codes, the same schemes *)
Theorem operations_agree_partial d :
  no_wild_files d -> all_uniform d -> all_nodef d -> all_multipart_body d -> (api_reqs d = [] \/ no_files d) ->
  forall o, In o (doc3_ops d) ->
  exists s, In s (server_ops d) /\ same_op s o /\
            params_agree3 s o /\ obody o = obody s /\ statuses_agree s o /\ osec o = osec s.
Proof. exact (ops3_agree d). Qed.
Print Assumptions operations_agree_partial.

Theorem params_agree_partial d : no_wild_files d -> all_uniform d -> all_nodef d ->
  forall o, In o (doc3_ops d) -> exists s, In s (server_ops d) /\ same_op s o /\ params_agree3 s o.
Proof. exact (params3_agree_d d). Qed.
Print Assumptions params_agree_partial.

(* finding: a header both required and defaulted is optional in the document and
   required by the decoder *)
Theorem params_agree_required_default_refuted :
  exists d o, no_wild_files d /\ all_uniform d /\ In o (doc3_ops d) /\
    forall s, In s (server_ops d) -> same_op s o -> ~ params_agree3 s o.
Proof. exact reqdef_refuted_l. Qed.
Print Assumptions params_agree_required_default_refuted.

Theorem body_iff_server_body d : no_wild_files d -> all_multipart_body d ->
  forall o, In o (doc3_ops d) -> exists s, In s (server_ops d) /\ same_op s o /\ (obody o = true <-> obody s = true).
Proof. exact (body3_agree_d d). Qed.
Print Assumptions body_iff_server_body.

Theorem statuses_agree_all d : no_wild_files d ->
  forall o, In o (doc3_ops d) -> exists s, In s (server_ops d) /\ same_op s o /\ statuses_agree s o.
Proof. exact (statuses3_agree_d d). Qed.
Print Assumptions statuses_agree_all.

Theorem schemes_agree_partial d : no_wild_files d -> (api_reqs d = [] \/ no_files d) ->
  forall o, In o (doc3_ops d) -> exists s, In s (server_ops d) /\ same_op s o /\ osec o = osec s.
Proof. exact (schemes3_agree_d d). Qed.
Print Assumptions schemes_agree_partial.

(* finding: with an API level requirement the document lists it on a file server
   operation, the server mounts the file server without any scheme *)
Theorem schemes_agree_file_server_refuted :
  exists d o, no_wild_files d /\ api_reqs d <> [] /\ In o (doc3_ops d) /\ osec o <> [] /\
    forall s, In s (server_ops d) -> same_op s o -> osec s = [].
Proof. exact filesec_refuted_l. Qed.
Print Assumptions schemes_agree_file_server_refuted.

(* OpenAPI 2: same, cookies excluded (Swagger 2.0 has no cookie location), the
   Authorization header of basic auth listed as a parameter *)
Theorem operations2_agree_partial d : no_wild_files d -> all_uniform d -> all_nodef d -> all_multipart_body d ->
  forall o, In o (doc2_ops d) ->
  exists s, In s (server_ops d) /\ same_op s o /\
            (exists b, params_agree2 b s o) /\ obody o = obody s /\ statuses_agree s o /\ osec o = osec s.
Proof. exact (ops2_agree d). Qed.
Print Assumptions operations2_agree_partial.

Theorem params2_cookie_refuted :
  exists d o, In o (doc2_ops d) /\
    forall s, In s (server_ops d) -> same_op s o -> exists q, In q (oparams s) /\ ploc q = InCookie /\ ~ In q (oparams o).
Proof. exact cookie2_refuted_l. Qed.
Print Assumptions params2_cookie_refuted.

(* ---- wildcard rewriting ---- *)

Theorem norm_idempotent p : norm (norm p) = norm p.
Proof. exact (norm_idem_l p). Qed.
Print Assumptions norm_idempotent.

Theorem norm_star_free p : star_free (norm p) = true.
Proof. exact (norm_star_free_l p). Qed.
Print Assumptions norm_star_free.

Theorem norm_keeps_wildcards p : wildcards (norm p) = wildcards p.
Proof. exact (wildcards_norm_l p). Qed.
Print Assumptions norm_keeps_wildcards.

Theorem norm_fixes_star_free p : star_free p = true -> norm p = p.
Proof. exact (norm_fix_l p). Qed.
Print Assumptions norm_fixes_star_free.

(* ---- the verb switches read from builder.go ---- *)

Theorem v3_switch_covers_all_but_connect v : v <> CONNECT -> v3_slot v <> None.
Proof. exact (v3_total v). Qed.
Print Assumptions v3_switch_covers_all_but_connect.

Theorem v3_switch_fields_match_methods v s : v3_slot v = Some s -> slot_verb s = v.
Proof. exact (v3_sound v s). Qed.
Print Assumptions v3_switch_fields_match_methods.

Theorem v2_switch_covers_all_but_connect_trace v : v <> CONNECT -> v <> TRACE -> v2_slot v <> None.
Proof. exact (v2_total v). Qed.
Print Assumptions v2_switch_covers_all_but_connect_trace.

Theorem v2_switch_fields_match_methods v s : v2_slot v = Some s -> slot_verb s = v.
Proof. exact (v2_sound v s). Qed.
Print Assumptions v2_switch_fields_match_methods.

(* ---- OpenAPI 2: basePath and path keys ---- *)

(* openapi.json writes a basePath (the API base path, or nothing as soon as a documented
   route is absolute or a file server is documented) and path keys with that prefix
   removed. For every design whose routes, when neither they nor their service have an absolute
   path, start with the API base path, each
   key resolved against basePath is the path template of the operation, i.e. (by
   doc2_ops_subset_server_ops) a path the server mounts *)
Theorem doc2_paths_resolve_partial d : rooted d -> forall o, In o (doc2_ops d) ->
  v2_resolve (norm (v2_base d)) (v2_key (norm (v2_base d)) (opath o)) = opath o.
Proof. exact (doc2_resolve d). Qed.
Print Assumptions doc2_paths_resolve_partial.

(* hence the document as a reader resolves it is the document on full paths, about which
   every OpenAPI 2 theorem above speaks *)
Theorem doc2_resolved_is_doc2_ops_partial d : rooted d -> doc2_resolved d (doc2_ops d) = doc2_ops d.
Proof. exact (doc2_resolved_id d). Qed.
Print Assumptions doc2_resolved_is_doc2_ops_partial.

Theorem doc2_keys_full_when_base_dropped d k : has_abs d || has_files d = true -> v2_key (norm (v2_base d)) k = k.
Proof. exact (doc2_full_keys d k). Qed.
Print Assumptions doc2_keys_full_when_base_dropped.

(* the string operation behind it: a prefix that is removed and put back *)
Theorem v2_key_resolves bp k : trivial_base bp = true \/ is_prefix bp k = true -> v2_resolve bp (v2_key bp k) = k.
Proof. exact (v2_resolve_key bp k). Qed.
Print Assumptions v2_key_resolves.

(* ---- openapi:generate=false ---- *)

(* A design whose services, endpoints and file servers may be marked with
   Meta("openapi:generate", "false"): the server mounts `mounted m` (everything), both
   documents are built from `visible m` (what is not marked). Every theorem above, read
   with d := visible m, is a statement about the documents of m; the theorems below
   relate them to what the server really mounts. *)

(* the mount table is the visible operations plus the marked ones, nothing else *)
Theorem mounted_is_visible_plus_hidden m o :
  In o (server_ops (mounted m)) <-> In o (server_ops (visible m)) \/ In o (server_ops (hidden m)).
Proof. exact (mounted_split m o). Qed.
Print Assumptions mounted_is_visible_plus_hidden.

(* with no hypothesis: whatever either document lists is mounted *)
Theorem marked_doc_ops_subset_mounted m v k :
  In (v, k) (map okey (doc3_ops (visible m))) -> In (v, k) (map nkey (server_ops (mounted m))).
Proof. exact (mdoc3_sub m v k). Qed.
Print Assumptions marked_doc_ops_subset_mounted.

Theorem marked_doc2_ops_subset_mounted m v k :
  In (v, k) (map okey (doc2_ops (visible m))) -> In (v, k) (map nkey (server_ops (mounted m))).
Proof. exact (mdoc2_sub m v k). Qed.
Print Assumptions marked_doc2_ops_subset_mounted.

(* a mounted operation that the OpenAPI 3 document does not list is marked (or uses a
   verb the switch has no case for): marking is the only way to leave an operation out *)
Theorem marked_missing_only_if_marked m v k : no_wild_files (visible m) ->
  In (v, k) (map nkey (server_ops (mounted m))) -> ~ In (v, k) (map okey (doc3_ops (visible m))) ->
  In (v, k) (map nkey (server_ops (hidden m))) \/ v3_slot v = None.
Proof. exact (mdoc3_missing m v k). Qed.
Print Assumptions marked_missing_only_if_marked.

(* nothing marked: the documents are built from the whole mount table *)
Theorem unmarked_visible_is_mounted m : unmarked m -> visible m = mounted m.
Proof. exact (unmarked_visible m). Qed.
Print Assumptions unmarked_visible_is_mounted.

(* ---- non-vacuity ---- *)

(* a design with path, query, header, cookie parameters, a wildcard route, two routes on
   one endpoint, TRACE, a file server satisfies every hypothesis used above *)
Example hypotheses_satisfiable :
  no_wild_files good /\ ~ uses good CONNECT /\ all_uniform good /\ all_nodef good /\ all_multipart_body good /\
  NoDup (map nkey (server_ops good)).
Proof. exact good_hyps. Qed.

Example good_listing :
  map okey (doc3_ops good) =
  [(PUT, [Lit 1; Var 10; Var 11]); (PATCH, [Lit 2; Var 11; Var 10]); (TRACE, [Lit 3]); (GET, [Lit 4; Lit 5])] /\
  map nkey (server_ops good) = map okey (doc3_ops good) /\
  map (fun o => length (oparams o)) (doc3_ops good) = [5; 5; 0; 0]%nat /\
  map (fun o => length (oparams o)) (server_ops good) = [6; 6; 0; 0]%nat.
Proof. vm_compute. repeat split. Qed.

Example marked_endpoint_left_out :
  In (POST, [Lit 2]) (map nkey (server_ops (mounted w_marked))) /\
  ~ In (POST, [Lit 2]) (map okey (doc3_ops (visible w_marked))) /\ ~ In (POST, [Lit 2]) (map okey (doc2_ops (visible w_marked))) /\
  In (POST, [Lit 2]) (map nkey (server_ops (hidden w_marked))) /\
  In (GET, [Lit 1]) (map okey (doc3_ops (visible w_marked))).
Proof. exact marked_example. Qed.

Example based_design_keys :
  rooted w_based /\ norm (v2_base w_based) = [Lit 9] /\
  doc2_written w_based (doc2_ops w_based) = [(GET, [Lit 7]); (POST, [Lit 8; Var 3])] /\
  map (fun vk => v2_resolve [Lit 9] (snd vk)) (doc2_written w_based (doc2_ops w_based)) = map opath (doc2_ops w_based).
Proof. exact based_example. Qed.

(* regression example (was the finding "absolute service path under a kept basePath") *)
Example absolute_service_drops_base :
  rooted w_svcabs /\ has_abs w_svcabs = true /\ v2_base w_svcabs = [] /\
  doc2_written w_svcabs (doc2_ops w_svcabs) = [(GET, [Lit 5; Lit 6]); (GET, [Lit 9; Lit 7])] /\
  doc2_resolved w_svcabs (doc2_ops w_svcabs) = doc2_ops w_svcabs /\
  map nkey (server_ops w_svcabs) = map okey (doc2_ops w_svcabs).
Proof. exact svcabs_example. Qed.
