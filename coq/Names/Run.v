(* Correspondence glue: the classifier as a finite table of what the real
   unicode package answered for every rune the harness used, and the comparison
   of model and implementation evaluated by vm_compute on the harness's cases. *)
From Coq Require Import List NArith Bool FMapPositive.
From Names Require Import Generated_reserved Model.
Import ListNotations.
Open Scope N_scope.

(* isLetter, isDigit, isLower, isUpper, toUpper, toLower *)
Definition entry := (bool * bool * bool * bool * N * N)%type.
Definition table := PositiveMap.t entry.

Definition mk_table (l : list (N * entry)) : table :=
  fold_left (fun m kv => PositiveMap.add (N.succ_pos (fst kv)) (snd kv) m) l (PositiveMap.empty entry).

(* a rune missing from the table is classified as nothing and mapped to 0: any use shows as a mismatch *)
Definition get (t : table) (c : N) : entry :=
  match PositiveMap.find (N.succ_pos c) t with
  | Some e => e
  | None => (false, false, false, false, 0, 0)
  end.

Definition t_letter (t : table) c := match get t c with (a, _, _, _, _, _) => a end.
Definition t_digit (t : table) c := match get t c with (_, a, _, _, _, _) => a end.
Definition t_lower (t : table) c := match get t c with (_, _, a, _, _, _) => a end.
Definition t_upper (t : table) c := match get t c with (_, _, _, a, _, _) => a end.
Definition t_to_upper (t : table) c := match get t c with (_, _, _, _, a, _) => a end.
Definition t_to_lower (t : table) c := match get t c with (_, _, _, _, _, a) => a end.

Definition t_camel (t : table) (s : str) (fu acr : bool) : str :=
  camel_case (t_letter t) (t_digit t) (t_lower t) (t_to_upper t) (t_to_lower t) s fu acr.
Definition t_goify (t : table) (s : str) (fu : bool) : str :=
  goify (t_letter t) (t_digit t) (t_lower t) (t_to_upper t) (t_to_lower t) s fu.

(* case: index, input runes, firstUpper, observed Goify result (runes) *)
Definition goify_mismatches (t : table) (cs : list (N * str * bool * str)) : list N :=
  flat_map (fun c => match c with (i, s, fu, o) =>
     if str_eqb (t_goify t s fu) o then [] else [i] end) cs.

(* case: index, input runes, firstUpper, acronym, observed CamelCase result *)
Definition camel_mismatches (t : table) (cs : list (N * str * bool * bool * str)) : list N :=
  flat_map (fun c => match c with (i, s, fu, acr, o) =>
     if str_eqb (t_camel t s fu acr) o then [] else [i] end) cs.

(* the direct statement of the identifier theorems, evaluated on the observed result *)
Definition t_ident (t : table) (s : str) : bool := go_ident (t_letter t) (t_digit t) s.

Fixpoint strs_eqb (a b : list str) : bool :=
  match a, b with
  | [], [] => true
  | x :: a', y :: b' => str_eqb x y && strs_eqb a' b'
  | _, _ => false
  end.

(* case: index, call sequence on a fresh NameScope, observed results *)
Definition scope_mismatches (cs : list (N * list op * list str)) : list N :=
  flat_map (fun c => match c with (i, ops, o) =>
     if strs_eqb (run empty_scope ops) o then [] else [i] end) cs.

(* case: index, sequence of GoTypeRef / GoTypeName calls on a fresh NameScope, observed strings *)
Definition type_mismatches (t : table) (cs : list (N * list (bool * ty) * list str)) : list N :=
  flat_map (fun c => match c with (i, calls, o) =>
     if strs_eqb (run_types (fun n => t_goify t n true) empty_scope calls) o then [] else [i] end) cs.
