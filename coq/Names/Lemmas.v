(* C01, engine Names — proofs. *)
From Coq Require Import List NArith Bool Lia ZifyBool ZifyN Decimal DecimalN DecimalFacts FinFun.
From Names Require Import Generated_reserved Model.
Import ListNotations.
Open Scope N_scope.

#[local] Arguments valid : simpl never.
#[local] Arguments lowerish : simpl never.
#[local] Arguments N.eqb : simpl never.

(* ---------- strings ---------- *)

Lemma str_eqb_spec a b : str_eqb a b = true <-> a = b.
Proof.
  revert b; induction a as [|x a IH]; intros [|y b]; simpl; split; intro H; try reflexivity; try discriminate.
  - apply andb_true_iff in H as [H1 H2]. apply N.eqb_eq in H1. apply IH in H2. subst; reflexivity.
  - injection H as -> ->. rewrite N.eqb_refl. simpl. apply IH. reflexivity.
Qed.

Lemma str_eqb_refl a : str_eqb a a = true.
Proof. apply str_eqb_spec; reflexivity. Qed.

Lemma str_eqb_false a b : str_eqb a b = false <-> a <> b.
Proof.
  split.
  - intros H E. apply str_eqb_spec in E. congruence.
  - intro H. destruct (str_eqb a b) eqn:E; [apply str_eqb_spec in E; contradiction|reflexivity].
Qed.

Lemma mem_str_In w l : mem_str w l = true <-> In w l.
Proof.
  unfold mem_str. rewrite existsb_exists. split.
  - intros [x [Hin He]]. apply str_eqb_spec in He. subst; assumption.
  - intro H. exists w. split; [assumption|apply str_eqb_refl].
Qed.

(* ---------- facts about the extracted tables (finite, by computation) ---------- *)

Lemma separator_is_colon : name_separator = [58].
Proof. reflexivity. Qed.

Lemma suffix_is_underscore : reserved_suffix = [underscore].
Proof. reflexivity. Qed.

Lemma fallbacks : fallback_upper = [86; 97; 108] /\ fallback_lower = [118; 97; 108].
Proof. split; reflexivity. Qed.

(* appending the suffix to a reserved word never yields a reserved word *)
Lemma escaped_not_reserved : forallb (fun w => negb (is_reserved (w ++ reserved_suffix))) reserved = true.
Proof. vm_compute. reflexivity. Qed.

Lemma fallbacks_not_reserved : is_reserved fallback_upper = false /\ is_reserved fallback_lower = false.
Proof. split; vm_compute; reflexivity. Qed.

Lemma empty_not_reserved : is_reserved [] = false.
Proof. vm_compute. reflexivity. Qed.

Lemma fix_reserved_not_reserved w : is_reserved (fix_reserved w) = false.
Proof.
  unfold fix_reserved. destruct (is_reserved w) eqn:E; [|assumption].
  pose proof escaped_not_reserved as H. rewrite forallb_forall in H.
  apply mem_str_In in E. specialize (H w E). apply negb_true_iff in H. exact H.
Qed.

(* ---------- CamelCase / Goify ---------- *)

Section Classes.
  Variables is_letter is_digit is_lower is_upper : rune -> bool.
  Variables to_upper to_lower : rune -> rune.

  Notation valid := (valid is_letter is_digit).
  Notation lowerish := (lowerish is_digit is_lower).
  Notation rti := (rti is_letter is_digit).
  Notation seg := (seg is_letter is_digit is_lower).
  Notation emit := (emit to_upper to_lower).
  Notation join_words := (join_words to_upper to_lower).
  Notation camel_case := (camel_case is_letter is_digit is_lower to_upper to_lower).
  Notation goify := (goify is_letter is_digit is_lower to_upper to_lower).
  Notation go_ident := (go_ident is_letter is_digit).
  Notation go_letter := (go_letter is_letter).
  Notation exported := (exported is_upper).
  Notation first_valid := (first_valid is_letter is_digit).
  Notation upper_first := (upper_first to_upper).
  Notation lower_first := (lower_first to_lower).
  Notation lower_inv := (lower_inv to_lower).

  (* goify_not_reserved needs nothing about the classifiers *)
  Lemma goify_not_reserved_lemma s fu : is_reserved (goify s fu) = false.
  Proof.
    unfold Model.goify. destruct s as [|c s]; [apply empty_not_reserved|].
    destruct (camel_case (cut_sep (c :: s)) fu true) eqn:E.
    - destruct fu; apply fallbacks_not_reserved.
    - apply fix_reserved_not_reserved.
  Qed.

  Lemma goify_nonempty s fu : s <> [] -> goify s fu <> [].
  Proof.
    intro Hs. unfold Model.goify. destruct s as [|c s]; [contradiction|].
    destruct (camel_case (cut_sep (c :: s)) fu true) as [|n l] eqn:E.
    - destruct fu; discriminate.
    - unfold fix_reserved. destruct (is_reserved (n :: l)); simpl; discriminate.
  Qed.

  (* --- rti --- *)
  Lemma rti_find s : find valid (rti s) = find valid s.
  Proof.
    induction s as [|c r IH]; [reflexivity|]. simpl.
    destruct (rti r) as [|x r'] eqn:E.
    - simpl in IH. destruct (valid c) eqn:V; simpl; [rewrite V; reflexivity|]. exact IH.
    - simpl. destruct (valid c); [reflexivity|]. exact IH.
  Qed.

  Lemma rti_last_valid s : rti s <> [] -> valid (last (rti s) 0) = true.
  Proof.
    induction s as [|c r IH]; [intro H; contradiction H; reflexivity|]. simpl.
    destruct (rti r) as [|x r'] eqn:E.
    - destruct (valid c) eqn:V; intro H; [simpl; exact V|contradiction H; reflexivity].
    - intros _. specialize (IH ltac:(discriminate)). simpl in *. exact IH.
  Qed.

  Lemma rti_subset s c : In c (rti s) -> In c s.
  Proof.
    revert c. induction s as [|x r IH]; intros c; simpl; [tauto|].
    destruct (rti r) as [|y r'] eqn:E.
    - destruct (valid x); simpl; tauto.
    - intros [H|H]; [left; assumption|right; apply IH; exact H].
  Qed.

  (* --- seg: every word is a non-empty list of valid runes --- *)
  Lemma seg_words skip cur rest :
    Forall (fun c => valid c = true) cur ->
    Forall (fun w => w <> [] /\ Forall (fun c => valid c = true) w) (seg skip cur rest).
  Proof.
    revert skip cur. induction rest as [|c rest' IH]; intros skip cur Hc; simpl; [constructor|].
    destruct (skip && (c =? underscore)); [apply IH; assumption|].
    destruct (valid c) eqn:V; simpl; [|apply IH; assumption].
    assert (Hc' : Forall (fun c => valid c = true) (cur ++ [c])).
    { apply Forall_app; split; [assumption|constructor; [assumption|constructor]]. }
    assert (Hne : cur ++ [c] <> []) by (destruct cur; discriminate).
    destruct rest' as [|d r''].
    - constructor; [split; assumption|constructor].
    - destruct (d =? underscore).
      + constructor; [split; assumption|]. apply IH. constructor.
      + destruct (lowerish c && negb (lowerish d)).
        * constructor; [split; assumption|]. apply IH. constructor.
        * apply IH. assumption.
  Qed.

  (* the first word starts with [cur], or with the first valid rune *)
  Lemma seg_first cur rest w ws :
    seg false cur rest = w :: ws ->
    match cur with
    | x :: _ => hd_error w = Some x
    | [] => hd_error w = find valid rest
    end.
  Proof.
    revert cur w ws. induction rest as [|c rest' IH]; intros cur w ws; simpl; [discriminate|].
    destruct (valid c) eqn:V; simpl.
    - assert (Hhd : forall w', w' = cur ++ [c] -> match cur with x :: _ => hd_error w' = Some x | [] => hd_error w' = Some c end).
      { intros w' ->. destruct cur; reflexivity. }
      destruct rest' as [|d r''].
      + intro H. injection H as <- <-. apply Hhd; reflexivity.
      + destruct (d =? underscore); [intro H; injection H as <- _; apply Hhd; reflexivity|].
        destruct (lowerish c && negb (lowerish d)); [intro H; injection H as <- _; apply Hhd; reflexivity|].
        intro H. apply IH in H. destruct cur as [|x cur]; simpl in H; exact H.
    - intro H. apply IH in H. exact H.
  Qed.

  (* with the last rune valid the scan yields at least one word *)
  Lemma seg_nonempty cur rest :
    rest <> [] -> valid (last rest 0) = true -> seg false cur rest <> [].
  Proof.
    revert cur. induction rest as [|c rest' IH]; intros cur Hne Hl; [contradiction|].
    simpl. destruct rest' as [|d r''].
    - simpl in Hl. rewrite Hl. simpl. discriminate.
    - assert (Hl' : valid (last (d :: r'') 0) = true) by exact Hl.
      destruct (valid c); simpl; [|apply IH; [discriminate|assumption]].
      destruct (d =? underscore); [discriminate|].
      destruct (lowerish c && negb (lowerish d)); [discriminate|].
      apply IH; [discriminate|assumption].
  Qed.

  (* --- what emit does to a word --- *)
  Hypothesis Hcl : class_laws is_letter is_digit to_upper to_lower.

  Let vP := fun c => valid c = true.

  Lemma valid_upper c : valid c = true -> valid (to_upper c) = true.
  Proof.
    destruct Hcl as (Hu & _ & Hd & _). unfold Model.valid. intro H. apply orb_true_iff in H as [H|H].
    - rewrite (Hu _ H). reflexivity.
    - rewrite (Hd _ H), H. apply orb_true_r.
  Qed.

  Lemma valid_lower c : valid c = true -> valid (to_lower c) = true.
  Proof.
    destruct Hcl as (_ & Hl & _ & Hd & _). unfold Model.valid. intro H. apply orb_true_iff in H as [H|H].
    - rewrite (Hl _ H). reflexivity.
    - rewrite (Hd _ H), H. apply orb_true_r.
  Qed.

  Definition head_letter (w : str) : Prop := match w with c :: _ => is_letter c = true | [] => False end.

  Lemma all_map_upper w : Forall vP w -> Forall vP (map to_upper w).
  Proof. induction 1; simpl; constructor; [apply valid_upper|]; assumption. Qed.
  Lemma all_map_lower w : Forall vP w -> Forall vP (map to_lower w).
  Proof. induction 1; simpl; constructor; [apply valid_lower|]; assumption. Qed.
  Lemma all_upper_first w : Forall vP w -> Forall vP (upper_first w).
  Proof. destruct 1; simpl; constructor; [apply valid_upper|]; assumption. Qed.
  Lemma all_lower_first w : Forall vP w -> Forall vP (lower_first w).
  Proof. destruct 1; simpl; constructor; [apply valid_lower|]; assumption. Qed.

  Lemma hl_map_upper w : head_letter w -> head_letter (map to_upper w).
  Proof. destruct Hcl as (Hu & _). destruct w; simpl; [tauto|apply Hu]. Qed.
  Lemma hl_map_lower w : head_letter w -> head_letter (map to_lower w).
  Proof. destruct Hcl as (_ & Hl & _). destruct w; simpl; [tauto|apply Hl]. Qed.
  Lemma hl_upper_first w : head_letter w -> head_letter (upper_first w).
  Proof. destruct Hcl as (Hu & _). destruct w; simpl; [tauto|apply Hu]. Qed.
  Lemma hl_lower_first w : head_letter w -> head_letter (lower_first w).
  Proof. destruct Hcl as (_ & Hl & _). destruct w; simpl; [tauto|apply Hl]. Qed.

  Lemma emit_all first fu acr w : Forall vP w -> Forall vP (emit first fu acr w).
  Proof.
    intro H. unfold Model.emit.
    assert (H1 : Forall vP (map to_upper w)) by (apply all_map_upper; assumption).
    assert (H2 : Forall vP (upper_first (map to_lower (map to_upper w)))) by (apply all_upper_first, all_map_lower; assumption).
    assert (H3 : Forall vP (map to_lower (map to_upper w))) by (apply all_map_lower; assumption).
    assert (H4 : Forall vP (upper_first w)) by (apply all_upper_first; assumption).
    repeat match goal with |- context [if ?b then _ else _] => destruct b end;
      try apply all_lower_first; assumption.
  Qed.

  Lemma emit_head first fu acr w : head_letter w -> head_letter (emit first fu acr w).
  Proof.
    intro H. unfold Model.emit.
    assert (H1 : head_letter (map to_upper w)) by (apply hl_map_upper; assumption).
    assert (H2 : head_letter (upper_first (map to_lower (map to_upper w)))) by (apply hl_upper_first, hl_map_lower; assumption).
    assert (H3 : head_letter (map to_lower (map to_upper w))) by (apply hl_map_lower; assumption).
    assert (H4 : head_letter (upper_first w)) by (apply hl_upper_first; assumption).
    repeat match goal with |- context [if ?b then _ else _] => destruct b end;
      try apply hl_lower_first; assumption.
  Qed.

  Lemma join_all fu acr ws :
    Forall (fun w => w <> [] /\ Forall vP w) ws -> Forall vP (join_words fu acr ws).
  Proof.
    intro H. destruct ws as [|w r]; simpl; [constructor|].
    inversion H as [|? ? [_ Hw] Hr]; subst. apply Forall_app; split; [apply emit_all; assumption|].
    clear H Hw. induction Hr as [|x l [_ Hx] _ IH]; simpl; [constructor|].
    apply Forall_app; split; [apply emit_all; assumption|assumption].
  Qed.

  Lemma head_letter_app a b : head_letter a -> head_letter (a ++ b).
  Proof. destruct a; simpl; [intros []|intro H; exact H]. Qed.

  Lemma camel_all name fu acr : Forall vP (camel_case name fu acr).
  Proof. unfold Model.camel_case. apply join_all, seg_words. constructor. Qed.

  Lemma camel_head name fu acr :
    (forall c, first_valid name = Some c -> is_letter c = true) ->
    camel_case name fu acr <> [] -> head_letter (camel_case name fu acr).
  Proof.
    intros Hf Hne. unfold Model.camel_case in Hne |- *.
    destruct (seg false [] (rti name)) as [|w ws] eqn:E; [contradiction Hne; reflexivity|].
    simpl. apply head_letter_app, emit_head.
    pose proof (seg_first _ _ _ _ E) as Hh. simpl in Hh. rewrite rti_find in Hh.
    assert (Hw : Forall (fun w => w <> [] /\ Forall vP w) (w :: ws)) by (rewrite <- E; apply seg_words; constructor).
    inversion Hw as [|? ? [Hwne _] _]; subst.
    destruct w as [|x w]; [contradiction Hwne; reflexivity|]. simpl in Hh. simpl. apply Hf. unfold Model.first_valid. symmetry. exact Hh.
  Qed.

  Lemma ident_of_valid w : Forall vP w -> head_letter w -> go_ident w = true.
  Proof.
    intros Ha Hh. destruct w as [|c r]; [contradiction|]. simpl in *.
    unfold Model.go_letter. rewrite Hh. simpl. inversion Ha as [|? ? _ Hr]; subst.
    apply forallb_forall. intros x Hx. rewrite Forall_forall in Hr. specialize (Hr x Hx).
    unfold vP, Model.valid in Hr. apply orb_true_iff in Hr as [Hr|Hr]; rewrite Hr; [reflexivity|apply orb_true_r].
  Qed.

  Lemma ident_app_underscore w : go_ident w = true -> go_ident (w ++ [underscore]) = true.
  Proof.
    destruct w as [|c r]; [discriminate|]. simpl. intro H. apply andb_true_iff in H as [H1 H2].
    rewrite H1. simpl. rewrite forallb_app. unfold rune in *. rewrite H2. simpl. unfold Model.go_letter.
    rewrite N.eqb_refl. rewrite orb_true_r. reflexivity.
  Qed.

  Lemma fallback_ident (fu : bool) : go_ident (if fu then fallback_upper else fallback_lower) = true.
  Proof.
    destruct Hcl as (_ & _ & _ & _ & Ha).
    assert (L : forall c, (65 <=? c) && (c <=? 90) || (97 <=? c) && (c <=? 122) = true -> go_letter c = true).
    { intros c Hc. unfold Model.go_letter. rewrite (Ha c Hc). reflexivity. }
    destruct fu; simpl; rewrite !L by reflexivity; reflexivity.
  Qed.

  Lemma goify_ident_lemma s fu :
    s <> [] ->
    (forall c, first_valid (cut_sep s) = Some c -> is_letter c = true) ->
    go_ident (goify s fu) = true.
  Proof.
    intros Hs Hf. unfold Model.goify. destruct s as [|c0 s]; [contradiction|].
    destruct (camel_case (cut_sep (c0 :: s)) fu true) as [|n l] eqn:E; [apply fallback_ident|].
    assert (Hid : go_ident (n :: l) = true).
    { rewrite <- E. apply ident_of_valid; [apply camel_all|apply camel_head; [assumption|rewrite E; discriminate]]. }
    unfold fix_reserved. destruct (is_reserved (n :: l)); [|assumption].
    rewrite suffix_is_underscore. apply ident_app_underscore. assumption.
  Qed.

  (* --- exportedness --- *)
  Hypothesis Hcase : case_laws is_letter is_lower is_upper to_upper to_lower.

  Let lowP := fun c => lowerish c = true.

  Lemma seg_lower rest : forall cur w ws,
    (forall c, In c rest -> lowerish c = true -> valid c = true) ->
    Forall lowP cur ->
    match cur with
    | [] => exists c, find valid rest = Some c /\ lowerish c = true
    | _ :: _ => match rest with d :: _ => lowerish d = true | [] => True end
    end ->
    seg false cur rest = w :: ws -> Forall lowP w.
  Proof.
    induction rest as [|c rest' IH]; intros cur w ws Hcl' Hcur Hinv; simpl; [discriminate|].
    assert (Hsub : forall x, In x rest' -> lowerish x = true -> valid x = true) by (intros x Hx; apply Hcl'; right; assumption).
    assert (Hc : valid c = true -> lowerish c = true -> forall w ws,
              match rest' with
              | [] => [cur ++ [c]]
              | d :: _ => if d =? underscore then (cur ++ [c]) :: Model.seg is_letter is_digit is_lower true [] rest'
                          else if lowerish c && negb (lowerish d) then (cur ++ [c]) :: seg false [] rest'
                          else seg false (cur ++ [c]) rest'
              end = w :: ws -> Forall lowP w).
    { intros Vc Lc w0 ws0.
      assert (Hcur' : Forall lowP (cur ++ [c])) by (apply Forall_app; split; [assumption|constructor; [exact Lc|constructor]]).
      destruct rest' as [|d r'']; [intro H; injection H as <- _; assumption|].
      destruct (d =? underscore); [intro H; injection H as <- _; assumption|].
      destruct (lowerish d) eqn:Ld; rewrite Lc; simpl.
      - intro H. apply (IH (cur ++ [c]) w0 ws0 Hsub Hcur'); [|exact H].
        destruct (cur ++ [c]) eqn:E; [destruct cur; discriminate|reflexivity].
      - intro H; injection H as <- _; assumption. }
    destruct cur as [|x cur].
    - destruct Hinv as [c0 [Hf Hl]]. simpl in Hf. destruct (valid c) eqn:V; simpl.
      + injection Hf as <-. apply Hc; try reflexivity; assumption.
      + intro H. apply (IH [] w ws Hsub Hcur); [exists c0; split; assumption|exact H].
    - assert (V : valid c = true) by (apply Hcl'; [left; reflexivity|exact Hinv]).
      rewrite V. simpl. apply Hc; assumption.
  Qed.

  Lemma lower_inv_of_lowerish w : Forall lowP w -> lower_inv w = true.
  Proof.
    destruct Hcl as (_ & _ & _ & Hd & _). destruct Hcase as (_ & Hl & _).
    intro H. unfold Model.lower_inv. apply str_eqb_spec. induction H as [|c r Hc _ IH]; simpl; [reflexivity|].
    rewrite IH. f_equal. unfold lowP, Model.lowerish in Hc. apply orb_true_iff in Hc as [Hc|Hc]; [apply Hd|apply Hl]; assumption.
  Qed.

  Lemma emit_first_upper r0 t :
    is_upper r0 = true \/ (is_upper (to_upper r0) = true /\ lower_inv (r0 :: t) = true) ->
    exported (emit true true true (r0 :: t)) = true.
  Proof.
    destruct Hcase as (Hu & _). intro H. unfold Model.emit. simpl map.
    destruct (is_initialism (to_upper r0 :: map to_upper t)); simpl.
    - destruct H as [H|[H _]]; [rewrite (Hu _ H)|]; assumption.
    - destruct (lower_inv (r0 :: t)) eqn:E; simpl.
      + destruct H as [H|[H _]]; [rewrite (Hu _ H)|]; assumption.
      + destruct H as [H|[_ H]]; [assumption|discriminate].
  Qed.

  Lemma exported_app a b : exported a = true -> exported (a ++ b) = true.
  Proof. destruct a; simpl; [discriminate|tauto]. Qed.

  Lemma goify_exported_lemma s r0 :
    first_valid (cut_sep s) = Some r0 ->
    cased is_lower is_upper to_upper r0 = true ->
    exported (goify s true) = true.
  Proof.
    intros Hf Hr0.
    assert (Hr : is_upper r0 = true \/ (is_lower r0 = true /\ is_upper (to_upper r0) = true)).
    { unfold cased in Hr0. apply orb_true_iff in Hr0 as [H|H]; [left; exact H|right; apply andb_true_iff in H; exact H]. }
    clear Hr0. destruct Hcase as (_ & _ & Hll). unfold Model.goify. destruct s as [|c0 s]; [discriminate|].
    set (x := cut_sep (c0 :: s)) in *.
    assert (Hfr : find valid (rti x) = Some r0) by (rewrite rti_find; exact Hf).
    assert (Hne : rti x <> []) by (intro E; rewrite E in Hfr; discriminate).
    unfold Model.camel_case.
    destruct (seg false [] (rti x)) as [|w ws] eqn:E.
    { exfalso. revert E. apply seg_nonempty; [assumption|apply rti_last_valid; assumption]. }
    pose proof (seg_first _ _ _ _ E) as Hh. simpl in Hh. rewrite Hfr in Hh.
    destruct w as [|y t]; [discriminate|]. simpl in Hh. injection Hh as ->.
    assert (Hex : exported (emit true true true (r0 :: t)) = true).
    { apply emit_first_upper. destruct Hr as [Hr|(Hl & Hu)]; [left; assumption|right; split; [assumption|]].
      apply lower_inv_of_lowerish. apply (seg_lower (rti x) [] (r0 :: t) ws); [| constructor | | exact E].
      - intros c Hin Hlc. unfold Model.lowerish in Hlc. unfold Model.valid.
        apply orb_true_iff in Hlc as [Hd|Hlo]; [rewrite Hd; apply orb_true_r|].
        rewrite (Hll c Hlo). reflexivity.
      - exists r0. split; [assumption|]. unfold Model.lowerish. rewrite Hl. apply orb_true_r. }
    simpl join_words.
    match goal with |- exported (match ?c with [] => _ | _ :: _ => _ end) = true =>
      assert (Hcam : exported c = true) by (apply exported_app; assumption);
      destruct c as [|n l]; [discriminate|] end.
    unfold fix_reserved. destruct (is_reserved (n :: l)); [apply exported_app|]; assumption.
  Qed.
End Classes.

(* ---------- NameScope ---------- *)

Lemma uint_bytes_inj a b : uint_bytes a = uint_bytes b -> a = b.
Proof.
  revert b; induction a; intros b H; destruct b; simpl in H; try discriminate; try reflexivity;
    injection H as H; try (apply N.eqb_neq in H; [contradiction|reflexivity]); f_equal; apply IHa; assumption.
Qed.

Lemma itoa_inj a b : itoa a = itoa b -> a = b.
Proof.
  unfold itoa. intro H. apply uint_bytes_inj in H.
  rewrite <- (DecimalN.Unsigned.of_to a), <- (DecimalN.Unsigned.of_to b). f_equal. exact H.
Qed.

Definition has {V} (k : str) (m : amap V) : Prop := lookup k m <> None.

Lemma lookup_in {V} k (m : amap V) : has k m <-> In k (map fst m).
Proof.
  unfold has. induction m as [|[k' v] r IH]; simpl; [split; [intro H; contradiction H; reflexivity|tauto]|].
  destruct (str_eqb k k') eqn:E.
  - apply str_eqb_spec in E. subst. split; [intros _; left; reflexivity|intros _; discriminate].
  - apply str_eqb_false in E. rewrite IH. split; [intro H; right; assumption|intros [H|H]; [congruence|assumption]].
Qed.

Lemma has_incr k k' m : has k (incr k' m) <-> k = k' \/ has k m.
Proof.
  unfold has, incr. simpl. destruct (str_eqb k k') eqn:E.
  - apply str_eqb_spec in E. split; [intros _; left; assumption|intros _; discriminate].
  - apply str_eqb_false in E. split; [intro H; right; assumption|intros [H|H]; [contradiction|assumption]].
Qed.

Lemma find_free_some base i fuel cnt r :
  find_free base i fuel cnt = Some r -> lookup r cnt = None /\ exists j, r = base ++ itoa j.
Proof.
  revert i; induction fuel as [|f IH]; intros i; simpl; [discriminate|].
  destruct (lookup (base ++ itoa (i + 1)) cnt) eqn:E.
  - apply IH.
  - intro H; injection H as <-. split; [assumption|eexists; reflexivity].
Qed.

Lemma find_free_none base i fuel cnt :
  find_free base i fuel cnt = None ->
  forall k, (k < fuel)%nat -> has (base ++ itoa (i + 1 + N.of_nat k)) cnt.
Proof.
  revert i; induction fuel as [|f IH]; intros i H k Hk; [lia|]. simpl in H.
  destruct (lookup (base ++ itoa (i + 1)) cnt) eqn:E; [|discriminate].
  destruct k as [|k].
  - replace (i + 1 + N.of_nat 0) with (i + 1) by lia. unfold has. rewrite E. discriminate.
  - specialize (IH (i + 1) H k ltac:(lia)). replace (i + 1 + N.of_nat (S k)) with (i + 1 + 1 + N.of_nat k) by lia. exact IH.
Qed.

(* the counter loop finds a free name within |counts|+1 candidates: decimal
   rendering is injective, so the candidates are pairwise distinct *)
Lemma find_free_terminates base i cnt : find_free base i (S (length cnt)) cnt <> None.
Proof.
  intro H. pose proof (find_free_none _ _ _ _ H) as Hall.
  set (cands := map (fun k => base ++ itoa (i + 1 + N.of_nat k)) (seq 0 (S (length cnt)))).
  assert (Hnd : NoDup cands).
  { unfold cands. apply FinFun.Injective_map_NoDup; [|apply seq_NoDup].
    intros a b Hab. apply app_inv_head in Hab. apply itoa_inj in Hab. lia. }
  assert (Hincl : incl cands (map fst cnt)).
  { intros x Hx. unfold cands in Hx. apply in_map_iff in Hx as [k [<- Hk]]. apply in_seq in Hk.
    apply lookup_in. apply Hall. lia. }
  pose proof (NoDup_incl_length Hnd Hincl) as Hlen.
  unfold cands in Hlen. rewrite !map_length, seq_length in Hlen. lia.
Qed.

(* Unique: the result was free, is taken afterwards, nothing else changes *)
Lemma unique_spec s name suffix r s' :
  unique s name suffix = (r, s') ->
  ~ has r (counts s) /\ names s' = names s /\ (forall k, has k (counts s') <-> k = r \/ has k (counts s)).
Proof.
  assert (Htake : forall n, ~ has n (counts s) -> take s n = (r, s') ->
            ~ has r (counts s) /\ names s' = names s /\ (forall k, has k (counts s') <-> k = r \/ has k (counts s))).
  { intros n Hn H. unfold take in H. injection H as <- <-. simpl. split; [assumption|split; [reflexivity|]]. intro k. apply has_incr. }
  assert (Hgo : forall base c2,
            match find_free base c2 (S (length (counts s))) (counts s) with
            | Some ret => take s ret | None => (base, s) end = (r, s') ->
            ~ has r (counts s) /\ names s' = names s /\ (forall k, has k (counts s') <-> k = r \/ has k (counts s))).
  { intros base c2. destruct (find_free base c2 (S (length (counts s))) (counts s)) as [ret|] eqn:E.
    - apply find_free_some in E as [E _]. apply Htake. unfold has. rewrite E. intro X; apply X; reflexivity.
    - exfalso. revert E. apply find_free_terminates. }
  unfold unique. destruct (lookup name (counts s)) as [c|] eqn:E.
  - destruct suffix as [sf|]; [|apply Hgo].
    destruct (lookup (name ++ sf) (counts s)) as [c2|] eqn:E2; [apply Hgo|].
    apply Htake. unfold has. rewrite E2. intro X; apply X; reflexivity.
  - apply Htake. unfold has. rewrite E. intro X; apply X; reflexivity.
Qed.

(* invariants of a scope reachable from the empty one *)
Definition inv (s : scope) : Prop :=
  (forall k n, lookup k (names s) = Some n -> has n (counts s)) /\
  (forall k1 k2 n, lookup k1 (names s) = Some n -> lookup k2 (names s) = Some n -> k1 = k2).

Lemma inv_empty : inv empty_scope.
Proof. split; simpl; intros; discriminate. Qed.

Lemma lookup_cons {V} k k' (v : V) m : lookup k ((k', v) :: m) = if str_eqb k k' then Some v else lookup k m.
Proof. reflexivity. Qed.

(* one step: what it returns and how the scope grows *)
Lemma step_spec s o r s' :
  inv s -> step s o = (r, s') ->
  inv s' /\
  (forall k, has k (counts s) -> has k (counts s')) /\
  (forall k n, lookup k (names s) = Some n -> lookup k (names s') = Some n) /\
  (forall k n, lookup k (names s) = None -> lookup k (names s') = Some n -> ~ has n (counts s)) /\
  (allocates o = true -> has r (counts s')) /\
  match o with
  | OUnique _ _ => ~ has r (counts s)
  | OHashed key _ _ => lookup key (names s') = Some r /\
                       (lookup key (names s) = None -> ~ has r (counts s))
  | OName _ => True
  end.
Proof.
  intros [I1 I2] H. destruct o as [n sf|key n sf|n]; simpl in H.
  - apply unique_spec in H as (Hfree & Hn & Hc).
    repeat split.
    + intros k x Hk. rewrite Hn in Hk. apply Hc. right. apply (I1 _ _ Hk).
    + rewrite Hn. exact I2.
    + intros k Hk. apply Hc. right; assumption.
    + intros k x Hk. rewrite Hn. exact Hk.
    + intros k x Hk1 Hk2. rewrite Hn in Hk2. congruence.
    + intros _. apply Hc. left; reflexivity.
    + assumption.
  - unfold hashed_unique in H. destruct (lookup key (names s)) as [x|] eqn:E.
    + injection H as <- <-. repeat split; try assumption; try tauto.
      * intros k x' Hk1 Hk2. congruence.
      * intros _. apply (I1 _ _ E).
      * intro X; discriminate.
    + destruct (unique s n sf) as [x s1] eqn:U. injection H as <- <-.
      apply unique_spec in U as (Hfree & Hn & Hc).
      repeat split; cbn [names counts].
      * intros k y. rewrite lookup_cons. destruct (str_eqb k key) eqn:Ek.
        -- intro Hy; injection Hy as <-. apply Hc. left; reflexivity.
        -- rewrite Hn. intro Hy. apply Hc. right. apply (I1 _ _ Hy).
      * intros k1 k2 y. rewrite !lookup_cons. rewrite Hn.
        destruct (str_eqb k1 key) eqn:E1; destruct (str_eqb k2 key) eqn:E2.
        -- apply str_eqb_spec in E1, E2. congruence.
        -- intro Hy; injection Hy as <-. intro Hy. exfalso. apply Hfree. apply (I1 _ _ Hy).
        -- intros Hy Hy2; injection Hy2 as <-. exfalso. apply Hfree. apply (I1 _ _ Hy).
        -- apply I2.
      * intros k Hk. apply Hc. right; assumption.
      * intros k y Hk. rewrite lookup_cons. destruct (str_eqb k key) eqn:Ek; [|rewrite Hn; exact Hk].
        apply str_eqb_spec in Ek. congruence.
      * intros k y Hk. rewrite lookup_cons. destruct (str_eqb k key) eqn:Ek.
        -- intro Hy; injection Hy as <-. exact Hfree.
        -- rewrite Hn. congruence.
      * intros _. apply Hc. left; reflexivity.
      * rewrite lookup_cons, str_eqb_refl. reflexivity.
      * intros _. exact Hfree.
  - injection H as <- <-. repeat split; try assumption; try tauto; try discriminate.
    intros k x Hk1 Hk2. congruence.
Qed.

Lemma exec_spec ops : forall s, inv s ->
  inv (exec s ops) /\
  (forall k, has k (counts s) -> has k (counts (exec s ops))) /\
  (forall k n, lookup k (names s) = Some n -> lookup k (names (exec s ops)) = Some n) /\
  (forall k n, lookup k (names s) = None -> lookup k (names (exec s ops)) = Some n -> ~ has n (counts s)).
Proof.
  induction ops as [|o r IH]; intros s I; simpl.
  - repeat split; try apply I; try tauto. intros k n H1 H2. congruence.
  - destruct (step s o) as [x s1] eqn:E. simpl.
    destruct (step_spec _ _ _ _ I E) as (I1 & Hc & Hn & Hnew & _ & _).
    destruct (IH s1 I1) as (I' & Hc' & Hn' & Hnew').
    repeat split; try apply I'.
    + intros k Hk. apply Hc', Hc, Hk.
    + intros k n Hk. apply Hn', Hn, Hk.
    + intros k n Hk1 Hk2. destruct (lookup k (names s1)) as [y|] eqn:Ey.
      * rewrite (Hn' _ _ Ey) in Hk2. injection Hk2 as <-. apply (Hnew _ _ Hk1 Ey).
      * intro Hh. apply (Hnew' _ _ Ey Hk2). apply Hc. exact Hh.
Qed.

(* the main statement: two allocating calls return the same name exactly when
   they are HashedUnique calls with the same key *)
Lemma scope_injective_lemma pre oi mid oj :
  allocates oi = true -> allocates oj = true ->
  let s1 := exec empty_scope pre in
  let ri := fst (step s1 oi) in
  let s3 := exec (snd (step s1 oi)) mid in
  let rj := fst (step s3 oj) in
  (ri = rj <-> same_key oi oj = true).
Proof.
  intros Ai Aj s1 ri s3 rj.
  destruct (exec_spec pre empty_scope inv_empty) as (I1 & _). fold s1 in I1.
  destruct (step s1 oi) as [ri' s2] eqn:Ei. simpl in ri, s3. subst ri.
  destruct (step_spec _ _ _ _ I1 Ei) as (I2 & Hc12 & Hn12 & Hnew12 & Hal_i & Hsp_i).
  specialize (Hal_i Ai).
  destruct (exec_spec mid s2 I2) as (I3 & Hc23 & Hn23 & Hnew23). fold s3 in I3, Hc23, Hn23, Hnew23.
  destruct (step s3 oj) as [rj' s4] eqn:Ej. simpl in rj. subst rj.
  destruct (step_spec _ _ _ _ I3 Ej) as (_ & _ & _ & _ & _ & Hsp_j).
  assert (Hri3 : has ri' (counts s3)) by (apply Hc23; exact Hal_i).
  destruct oj as [nj sfj|kj nj sfj|nj]; [| |discriminate].
  - (* Unique: fresh *)
    split; [intro E; subst; contradiction|].
    destruct oi; simpl; discriminate.
  - destruct Hsp_j as [Hbind Hmiss].
    destruct (lookup kj (names s3)) as [y|] eqn:E3.
    + (* hit: rj' = y *)
      assert (rj' = y).
      { unfold step, hashed_unique in Ej. rewrite E3 in Ej. injection Ej as <- _. reflexivity. }
      subst y.
      destruct oi as [ni sfi|ki ni sfi|ni]; [| |discriminate].
      * simpl. split; [|discriminate]. intro E; subst rj'. exfalso.
        (* ri' was free in s1; names s2 = names of s1-step; where does kj's binding come from? *)
        destruct (lookup kj (names s2)) as [z|] eqn:E2.
        -- rewrite (Hn23 _ _ E2) in E3. injection E3 as ->.
           destruct (lookup kj (names s1)) as [z'|] eqn:E1.
           ++ rewrite (Hn12 _ _ E1) in E2. injection E2 as ->. destruct I1 as [I1a _]. apply Hsp_i. apply (I1a _ _ E1).
           ++ apply (Hnew12 _ _ E1 E2) . 
              (* binding created by a Unique step: impossible since Unique does not touch names *)
              exfalso. unfold step in Ei. apply unique_spec in Ei as (_ & Hn & _). rewrite Hn in E2. congruence.
        -- apply (Hnew23 _ _ E2 E3). exact Hal_i.
      * simpl. destruct Hsp_i as [Hbi _].
        destruct (str_eqb ki kj) eqn:Ek.
        -- apply str_eqb_spec in Ek. subst kj. split; [reflexivity|intros _].
           rewrite (Hn23 _ _ Hbi) in E3. congruence.
        -- split; [|discriminate]. intro E; subst rj'. exfalso. apply str_eqb_false in Ek.
           destruct (lookup kj (names s2)) as [z|] eqn:E2.
           ++ rewrite (Hn23 _ _ E2) in E3. injection E3 as ->. destruct I2 as [_ I2b]. apply Ek. apply (I2b _ _ _ Hbi E2).
           ++ apply (Hnew23 _ _ E2 E3). exact Hal_i.
    + (* miss: fresh *)
      specialize (Hmiss eq_refl).
      split; [intro E; subst; contradiction|].
      destruct oi as [ni sfi|ki ni sfi|ni]; simpl; try discriminate.
      intro Ek. apply str_eqb_spec in Ek. subst kj. destruct Hsp_i as [Hbi _].
      rewrite (Hn23 _ _ Hbi) in E3. discriminate.
Qed.

(* ---------- the concrete classification satisfies the laws ---------- *)

Lemma d_class_laws : class_laws d_letter d_digit d_to_upper d_to_lower.
Proof.
  unfold class_laws, d_letter, d_digit, d_to_upper, d_to_lower, d_upper, a_lower.
  repeat split; intro c;
    repeat match goal with |- context [if ?b then _ else _] => destruct b eqn:? end; lia.
Qed.

Lemma d_case_laws : case_laws d_letter d_lower d_upper d_to_upper d_to_lower.
Proof.
  unfold case_laws, d_letter, d_lower, d_to_upper, d_to_lower, d_upper, a_lower.
  repeat split; intro c;
    repeat match goal with |- context [if ?b then _ else _] => destruct b eqn:? end; lia.
Qed.

(* the translated tables cover every name of the specification list *)
Lemma spec_covered : forallb is_reserved spec_names = true.
Proof. vm_compute. reflexivity. Qed.

Lemma goify_avoids_spec il id ilo tu tl s fu w : In w spec_names -> goify il id ilo tu tl s fu <> w.
Proof.
  intros Hin E. pose proof spec_covered as H. rewrite forallb_forall in H. specialize (H w Hin).
  rewrite <- E in H. rewrite goify_not_reserved_lemma in H. discriminate.
Qed.

(* ---------- Go type names over the name scope ---------- *)

Lemma exec_app s a b : exec s (a ++ b) = exec (exec s a) b.
Proof. revert s; induction a as [|o a IH]; intro s; simpl; [reflexivity|apply IH]. Qed.

Section TypeNames.
  Variable g : str -> str.

  (* GoTypeName changes the scope exactly as the HashedUnique calls of the type's user types do *)
  Lemma go_type_name_scope t : forall s, snd (go_type_name g s t) = exec s (type_ops g t).
  Proof.
    induction t as [p|e IH|k IHk e IHe|h n o]; intro s; simpl.
    - reflexivity.
    - specialize (IH s). destruct (go_type_name g s e) as [x s1]. simpl in *. exact IH.
    - specialize (IHk s). destruct (go_type_name g s k) as [xk s1]. simpl in IHk. subst s1.
      specialize (IHe (exec s (type_ops g k))). destruct (go_type_name g (exec s (type_ops g k)) e) as [xe s2]. simpl in *.
      rewrite exec_app. exact IHe.
    - destruct (hashed_unique s h (g n) (Some [])) as [x s1]; reflexivity.
  Qed.

  Lemma go_type_ref_scope t s : snd (go_type_ref g s t) = snd (go_type_name g s t).
  Proof. unfold go_type_ref. destruct (go_type_name g s t); reflexivity. Qed.

  Lemma go_type_name_inv t s : inv s -> inv (snd (go_type_name g s t)).
  Proof. intro I. rewrite go_type_name_scope. apply (exec_spec (type_ops g t) s I). Qed.

  (* the name rendered for a user type is the one the scope remembers for its hash *)
  Lemma user_type_name_bound s h n o x s' :
    inv s -> go_type_name g s (TUser h n o) = (x, s') -> lookup h (names s') = Some x /\ has x (counts s').
  Proof.
    intros I H. simpl in H.
    pose proof (step_spec s (OHashed h (g n) (Some [])) x s' I H) as (_ & _ & _ & _ & Ha & Hb & _).
    split; [exact Hb|apply Ha; reflexivity].
  Qed.

  (* a whole sequence of GoTypeName / GoTypeRef calls ends in the scope of its HashedUnique calls *)
  Lemma run_types_scope calls : forall s,
    fold_left (fun s (c : bool * ty) => snd (go_type_name g s (snd c))) calls s = exec s (flat_map (fun c : bool * ty => type_ops g (snd c)) calls).
  Proof.
    induction calls as [|[r t] rest IH]; intro s; simpl; [reflexivity|].
    rewrite exec_app, <- go_type_name_scope. apply IH.
  Qed.

  (* FULL: in the scope reached by any sequence of type-name calls, two user types (hashes) never share a Go name *)
  Lemma type_names_injective_lemma calls h1 h2 n :
    lookup h1 (names (types_scope g calls)) = Some n ->
    lookup h2 (names (types_scope g calls)) = Some n -> h1 = h2.
  Proof.
    unfold types_scope. destruct (exec_spec (flat_map (fun c : bool * ty => type_ops g (snd c)) calls) empty_scope inv_empty) as ((_ & I2) & _).
    apply I2.
  Qed.

  (* FULL: once a user type has a name, every later GoTypeName of that type (under any declared name, after any
     other calls) answers that name *)
  Lemma type_name_stable_lemma s h n ops n' o :
    inv s -> lookup h (names s) = Some n ->
    fst (go_type_name g (exec s ops) (TUser h n' o)) = n.
  Proof.
    intros I Hb. destruct (exec_spec ops s I) as (_ & _ & Hn & _).
    simpl. unfold hashed_unique. rewrite (Hn _ _ Hb). reflexivity.
  Qed.
End TypeNames.

(* --- what Unique can return, and that it keeps identifiers identifiers --- *)

Lemma unique_shape s name suffix r s' :
  unique s name suffix = (r, s') ->
  let base := name ++ match suffix with Some sf => sf | None => [] end in
  r = name \/ r = base \/ exists j, r = base ++ itoa j.
Proof.
  intros H base.
  assert (Hgo : forall c2, match find_free base c2 (S (length (counts s))) (counts s) with
                           | Some ret => take s ret | None => (base, s) end = (r, s') ->
                           r = name \/ r = base \/ exists j, r = base ++ itoa j).
  { intro c2. destruct (find_free base c2 (S (length (counts s))) (counts s)) as [ret|] eqn:E.
    - apply find_free_some in E as [_ [j Ej]]. unfold take. intro X; injection X as <- _. right; right. exists j. exact Ej.
    - intro X; injection X as <- _. right; left; reflexivity. }
  unfold unique in H. destruct (lookup name (counts s)) as [c|] eqn:E.
  - destruct suffix as [sf|].
    + destruct (lookup (name ++ sf) (counts s)) as [c2|] eqn:E2.
      * apply (Hgo c2). exact H.
      * unfold take in H. injection H as <- _. right; left; reflexivity.
    + specialize (Hgo c). unfold base in Hgo |- *. rewrite List.app_nil_r in Hgo |- *. apply Hgo. exact H.
  - unfold take in H. injection H as <- _. left; reflexivity.
Qed.

Lemma uint_bytes_digits d : Forall (fun c => (48 <=? c) && (c <=? 57) = true) (uint_bytes d).
Proof. induction d; simpl; constructor; try reflexivity; assumption. Qed.

Lemma itoa_digits j : Forall (fun c => (48 <=? c) && (c <=? 57) = true) (itoa j).
Proof. apply uint_bytes_digits. Qed.

Section IdentKept.
  Variables is_letter is_digit : rune -> bool.
  Hypothesis Hdig : forall c, (48 <=? c) && (c <=? 57) = true -> is_digit c = true.

  Lemma ident_app_tail w t :
    go_ident is_letter is_digit w = true ->
    Forall (fun c => go_letter is_letter c || is_digit c = true) t ->
    go_ident is_letter is_digit (w ++ t) = true.
  Proof.
    destruct w as [|c r]; [discriminate|]. simpl. intros H Ht. apply andb_true_iff in H as [H1 H2].
    rewrite H1. simpl. rewrite forallb_app. unfold rune in *. rewrite H2. simpl.
    apply forallb_forall. intros x Hx. rewrite Forall_forall in Ht. apply Ht. exact Hx.
  Qed.

  Lemma digits_tail j : Forall (fun c => go_letter is_letter c || is_digit c = true) (itoa j).
  Proof.
    pose proof (itoa_digits j) as H. induction H as [|c l Hc _ IH]; constructor; [|assumption].
    rewrite (Hdig c Hc). apply orb_true_r.
  Qed.

  (* Unique (hence HashedUnique on a miss) turns an identifier into an identifier *)
  Lemma unique_keeps_identifier s name suffix r s' :
    unique s name suffix = (r, s') ->
    go_ident is_letter is_digit name = true ->
    (forall sf, suffix = Some sf -> Forall (fun c => go_letter is_letter c || is_digit c = true) sf) ->
    go_ident is_letter is_digit r = true.
  Proof.
    intros H Hn Hs. destruct (unique_shape _ _ _ _ _ H) as [->|[->|[j ->]]]; [assumption| |].
    - destruct suffix as [sf|]; [apply ident_app_tail; [assumption|apply Hs; reflexivity]|rewrite List.app_nil_r; assumption].
    - apply ident_app_tail; [|apply digits_tail].
      destruct suffix as [sf|]; [apply ident_app_tail; [assumption|apply Hs; reflexivity]|rewrite List.app_nil_r; assumption].
  Qed.

  Lemma unique_keeps_first s name suffix r s' c0 rest :
    unique s name suffix = (r, s') -> name = c0 :: rest -> exists rest', r = c0 :: rest'.
  Proof.
    intros H ->. destruct (unique_shape _ _ _ _ _ H) as [->|[->|[j ->]]]; simpl; eexists; reflexivity.
  Qed.
End IdentKept.
