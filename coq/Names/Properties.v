(* C01 (engine Names) — property statements only. Every theorem is closed by a
   lemma of Lemmas.v (or by evaluation for the counterexamples) and followed by
   Print Assumptions.

   Strings are rune lists ([]rune(str)); the Unicode classification enters as
   functions [il] (IsLetter) [id] (IsDigit) [ilo] (IsLower) [iu] (IsUpper) [tu]
   (ToUpper) [tl] (ToLower), universally quantified. *)
From Coq Require Import List NArith Bool String.
From Names Require Import Generated_reserved Model Lemmas.
Import ListNotations.
Open Scope string_scope.
Open Scope list_scope.
Open Scope N_scope.

(* ---- reserved words (goify.go fixReservedGo, tables translated from the source on this run) ---- *)

(* Goify never returns a word of the translated tables (doc.IsPredeclared, token.IsKeyword, isPackage) *)
Theorem goify_not_reserved il id ilo tu tl s fu : is_reserved (goify il id ilo tu tl s fu) = false.
Proof. exact (goify_not_reserved_lemma il id ilo tu tl s fu). Qed.
Print Assumptions goify_not_reserved.

(* ... hence never a keyword or predeclared identifier of the Go specification, nor fmt/http/json/os/url/time *)
Theorem goify_never_a_go_reserved_name il id ilo tu tl s fu w :
  In w spec_names -> goify il id ilo tu tl s fu <> w.
Proof. exact (goify_avoids_spec il id ilo tu tl s fu w). Qed.
Print Assumptions goify_never_a_go_reserved_name.

(* the result is empty only for the empty input *)
Theorem goify_empty_only_for_empty il id ilo tu tl s fu : goify il id ilo tu tl s fu = [] <-> s = [].
Proof.
  split; [|intros ->; reflexivity].
  intro H. destruct s as [|c s]; [reflexivity|]. exfalso. revert H. apply goify_nonempty. discriminate.
Qed.
Print Assumptions goify_empty_only_for_empty.

(* ---- identifier well-formedness ---- *)

(* FULL statement "Goify makes a valid Go identifier out of any string" is false:
   a digit that is the first letter-or-digit rune survives in front. *)
Theorem goify_digit_first_refuted :
  (exists s fu, s <> [] /\ d_ident (d_goify s fu) = false) /\
  d_goify (bytes_of "1abc") true = bytes_of "1abc" /\
  d_goify (bytes_of "_1") false = bytes_of "1" /\
  d_goify (bytes_of "x:1") true = bytes_of "X" /\ d_goify (bytes_of ":1") true = bytes_of "1".
Proof.
  split; [exists (bytes_of "1abc"), true; split; [discriminate|vm_compute; reflexivity]|].
  repeat split; vm_compute; reflexivity.
Qed.
Print Assumptions goify_digit_first_refuted.

(* strongest true restriction: if the first letter-or-digit rune of the part before
   ':' is a letter (or there is none), the result is a Go identifier *)
Theorem goify_valid_ident_partial il id ilo tu tl s fu :
  class_laws il id tu tl ->
  s <> [] ->
  (forall c, first_valid il id (cut_sep s) = Some c -> il c = true) ->
  go_ident il id (goify il id ilo tu tl s fu) = true.
Proof. intros L. exact (goify_ident_lemma il id ilo tu tl L s fu). Qed.
Print Assumptions goify_valid_ident_partial.

(* every rune CamelCase returns is a letter or a digit *)
Theorem camel_case_only_letters_and_digits il id ilo tu tl name fu acr :
  class_laws il id tu tl ->
  Forall (fun c => valid il id c = true) (camel_case il id ilo tu tl name fu acr).
Proof. intros L. exact (camel_all il id ilo tu tl L name fu acr). Qed.
Print Assumptions camel_case_only_letters_and_digits.

(* ---- exportedness (firstUpper = true) ---- *)

(* a first letter without case stays as it is: the identifier is not exported *)
Theorem goify_caseless_unexported_refuted :
  let s := [26085; 26412] in
  d_goify s true = s /\ d_ident (d_goify s true) = true /\ exported d_upper (d_goify s true) = false.
Proof. repeat split; vm_compute; reflexivity. Qed.
Print Assumptions goify_caseless_unexported_refuted.

(* a lower-case first letter is not enough either: U+00DF has no upper-case counterpart *)
Theorem goify_lower_first_unexported_refuted :
  d_lower 223 = true /\ d_letter 223 = true /\
  exported d_upper (d_goify [223; 120] true) = false /\ d_ident (d_goify [223; 120] true) = true.
Proof. repeat split; vm_compute; reflexivity. Qed.
Print Assumptions goify_lower_first_unexported_refuted.

(* strongest true restriction: the first letter-or-digit rune of the part before ':' is
   a cased letter (upper case, or lower case with an upper-case counterpart) *)
Theorem goify_exported_partial il id ilo iu tu tl s r0 :
  class_laws il id tu tl -> case_laws il ilo iu tu tl ->
  first_valid il id (cut_sep s) = Some r0 ->
  cased ilo iu tu r0 = true ->
  exported iu (goify il id ilo tu tl s true) = true.
Proof. intros L C. exact (goify_exported_lemma il id ilo iu tu tl L C s r0). Qed.
Print Assumptions goify_exported_partial.

(* the hypotheses on the classification are satisfiable (and hold of the concrete one used above) *)
Theorem classification_laws_satisfiable :
  class_laws d_letter d_digit d_to_upper d_to_lower /\ case_laws d_letter d_lower d_upper d_to_upper d_to_lower.
Proof. exact (conj d_class_laws d_case_laws). Qed.
Print Assumptions classification_laws_satisfiable.

(* ---- NameScope (scope.go) ---- *)

(* the counter loop of Unique ends within |counts|+1 candidates *)
Theorem unique_terminates base i cnt : find_free base i (S (List.length cnt)) cnt <> None.
Proof. exact (find_free_terminates base i cnt). Qed.
Print Assumptions unique_terminates.

(* Unique returns a name that was not taken, takes it, and changes nothing else *)
Theorem unique_fresh s name suffix r s' :
  unique s name suffix = (r, s') ->
  lookup r (counts s) = None /\ lookup r (counts s') <> None /\ names s' = names s /\
  (forall k, lookup k (counts s) <> None -> lookup k (counts s') <> None).
Proof.
  intro H. destruct (unique_spec s name suffix r s' H) as (Hf & Hn & Hc).
  split; [destruct (lookup r (counts s)) eqn:E; [exfalso; apply Hf; unfold has; rewrite E; discriminate|reflexivity]|].
  split; [apply Hc; left; reflexivity|]. split; [assumption|]. intros k Hk. apply Hc. right. exact Hk.
Qed.
Print Assumptions unique_fresh.

(* FULL: for every sequence of Unique / HashedUnique / Name calls on a fresh scope,
   two allocating calls (Unique, HashedUnique) return the same name exactly when they
   are HashedUnique calls with the same key *)
Theorem scope_injective pre oi mid oj :
  allocates oi = true -> allocates oj = true ->
  let s1 := exec empty_scope pre in
  let ri := fst (step s1 oi) in
  let s3 := exec (snd (step s1 oi)) mid in
  let rj := fst (step s3 oj) in
  (ri = rj <-> same_key oi oj = true).
Proof. exact (scope_injective_lemma pre oi mid oj). Qed.
Print Assumptions scope_injective.

(* Name is not covered by that: it hands out a name that is already taken, and a
   name that a later Unique gives to someone else *)
Theorem scope_name_may_collide_refuted :
  let foo := bytes_of "foo" in
  run empty_scope [OUnique foo None; OUnique foo None; OName foo] = [foo; bytes_of "foo2"; bytes_of "foo2"] /\
  run empty_scope [OUnique foo None; OName foo; OUnique foo None] = [foo; bytes_of "foo2"; bytes_of "foo2"].
Proof. split; vm_compute; reflexivity. Qed.
Print Assumptions scope_name_may_collide_refuted.

(* ---- Go type names over the scope (scope.go GoTypeName / GoTypeRef; primitives, arrays, maps, user types) ---- *)

(* GoTypeName changes the scope exactly as the HashedUnique calls of the user types of the type, in order *)
Theorem go_type_name_is_its_hashed_unique_calls g t s : snd (go_type_name g s t) = exec s (type_ops g t).
Proof. exact (go_type_name_scope g t s). Qed.
Print Assumptions go_type_name_is_its_hashed_unique_calls.

(* FULL: after any sequence of GoTypeName / GoTypeRef calls over any types on a fresh scope, two user types
   (two hashes) never share a Go type name — whatever their declared names Goify to *)
Theorem type_names_injective g calls h1 h2 n :
  lookup h1 (names (types_scope g calls)) = Some n ->
  lookup h2 (names (types_scope g calls)) = Some n -> h1 = h2.
Proof. exact (type_names_injective_lemma g calls h1 h2 n). Qed.
Print Assumptions type_names_injective.

(* FULL: the name rendered for a user type is the one bound to its hash, and it is a taken name *)
Theorem user_type_name_is_bound g s h n o x s' :
  inv s -> go_type_name g s (TUser h n o) = (x, s') -> lookup h (names s') = Some x /\ lookup x (counts s') <> None.
Proof. exact (user_type_name_bound g s h n o x s'). Qed.
Print Assumptions user_type_name_is_bound.

(* FULL: a user type keeps its Go name: after any further calls, under any declared name *)
Theorem type_name_stable g s h n ops n' o :
  inv s -> lookup h (names s) = Some n -> fst (go_type_name g (exec s ops) (TUser h n' o)) = n.
Proof. exact (type_name_stable_lemma g s h n ops n' o). Qed.
Print Assumptions type_name_stable.

(* Unique returns the name, the name + suffix, or that + a decimal counter ... *)
Theorem unique_result_shape s name suffix r s' :
  unique s name suffix = (r, s') ->
  let base := (name ++ match suffix with Some sf => sf | None => [] end)%list in
  r = name \/ r = base \/ exists j, r = (base ++ itoa j)%list.
Proof. exact (unique_shape s name suffix r s'). Qed.
Print Assumptions unique_result_shape.

(* ... hence an identifier stays an identifier (composition of the Goify and scope theorems: a type name
   allocated for an identifier Goify produced is a Go identifier) and keeps its first rune (exportedness) *)
Theorem unique_keeps_go_identifier il id s name suffix r s' :
  (forall c, (48 <=? c) && (c <=? 57) = true -> id c = true) ->
  unique s name suffix = (r, s') ->
  go_ident il id name = true ->
  (forall sf, suffix = Some sf -> Forall (fun c => go_letter il c || id c = true) sf) ->
  go_ident il id r = true /\ (forall c0 rest, name = c0 :: rest -> exists rest', r = c0 :: rest').
Proof.
  intros Hd H Hn Hs. split; [exact (unique_keeps_identifier il id Hd s name suffix r s' H Hn Hs)|].
  intros c0 rest E. exact (unique_keeps_first s name suffix r s' c0 rest H E).
Qed.
Print Assumptions unique_keeps_go_identifier.

(* non-vacuity *)
Example goify_examples :
  d_goify (bytes_of "user_id") true = bytes_of "UserID" /\
  d_goify (bytes_of "type") false = bytes_of "type_" /\
  d_goify (bytes_of "http") false = bytes_of "http_" /\
  d_goify (bytes_of "my-attr.name:wire") false = bytes_of "myAttrName" /\
  d_goify (bytes_of "--") true = bytes_of "Val" /\
  d_goify (bytes_of "oauth_URL2x") false = bytes_of "oauthURL2x".
Proof. repeat split; vm_compute; reflexivity. Qed.

Example scope_example :
  let a := bytes_of "A" in
  run empty_scope [OHashed [1] a (Some []); OHashed [2] a (Some []); OUnique a (Some (bytes_of "Res")); OHashed [1] a (Some []);
                   OUnique a (Some (bytes_of "Res")); OUnique a None]
  = [a; bytes_of "A2"; bytes_of "ARes"; a; bytes_of "ARes2"; bytes_of "A3"].
Proof. vm_compute. reflexivity. Qed.

Example type_names_example :
  let g := fun n => d_goify n true in
  let foo_bar := TUser [1] (bytes_of "foo_bar") true in
  let fooBar := TUser [2] (bytes_of "fooBar") true in
  let alias := TUser [3] (bytes_of "type") false in
  run_types g empty_scope [(true, foo_bar); (false, TMap (TPrim PString) (TArray fooBar)); (true, TArray alias); (true, foo_bar); (false, TArray (TPrim PBytes))]
  = [bytes_of "*FooBar"; bytes_of "map[string][]*FooBar2"; bytes_of "[]Type"; bytes_of "*FooBar"; bytes_of "[][]byte"].
Proof. vm_compute. reflexivity. Qed.
