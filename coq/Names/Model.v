(* C01, engine Names — definitions only, all computable.

   Transcribed from /repo/codegen:
     funcs.go   CamelCase, isLower, validIdentifier, removeTrailingInvalid,
                removeInvalidAtIndex, commonInitialisms (table: Generated_reserved.v)
     goify.go   Goify, fixReservedGo, isPackage (tables: Generated_reserved.v)
     scope.go   NameScope: Unique, HashedUnique, Name

   Strings are lists of runes (N code points) — what `[]rune(str)` gives; the
   reserved words, initialisms and fall-back identifiers are ASCII, so their
   bytes are their runes. The Unicode classifiers unicode.IsLetter / IsDigit /
   IsLower / IsUpper / ToUpper / ToLower are Section variables shared by the
   model of CamelCase/Goify and by the Go identifier grammar. *)
From Coq Require Import List NArith Bool Decimal DecimalN.
From Names Require Import Generated_reserved.
Import ListNotations.
Open Scope N_scope.

Definition rune := N.
Definition str := list N.

Fixpoint str_eqb (a b : str) : bool :=
  match a, b with
  | [], [] => true
  | x :: a', y :: b' => (x =? y) && str_eqb a' b'
  | _, _ => false
  end.

Definition mem_str (w : str) (l : list str) : bool := existsb (str_eqb w) l.

(* fixReservedGo: doc.IsPredeclared(w) || token.IsKeyword(w) || isPackage[w] *)
Definition reserved : list str := predeclared ++ keywords ++ packages.
Definition is_reserved (w : str) : bool := mem_str w reserved.
Definition fix_reserved (w : str) : str := if is_reserved w then w ++ reserved_suffix else w.

Definition is_initialism (w : str) : bool := mem_str w initialisms.

Definition underscore : rune := 95.
Definition sep_rune : rune := hd 58 name_separator.

Section Classes.
  Variables is_letter is_digit is_lower is_upper : rune -> bool.
  Variables to_upper to_lower : rune -> rune.

  (* validIdentifier / isLower of funcs.go *)
  Definition valid (c : rune) : bool := is_letter c || is_digit c.
  Definition lowerish (c : rune) : bool := is_digit c || is_lower c.

  (* removeTrailingInvalid *)
  Fixpoint rti (s : str) : str :=
    match s with
    | [] => []
    | c :: r => match rti r with
                | [] => if valid c then [c] else []
                | r' => c :: r'
                end
    end.

  (* The scan of CamelCase: where words end. [cur] is runes[w:i] (invalid runes
     already removed), [rest] is runes[i:], [skip] says that the run of
     underscores following the previous word is being removed. A rune is looked
     at together with the RAW rune that follows it (before that one is cleaned). *)
  Fixpoint seg (skip : bool) (cur rest : str) : list str :=
    match rest with
    | [] => []
    | c :: rest' =>
      if skip && (c =? underscore) then seg true cur rest'
      else if negb (valid c) then seg false cur rest'       (* removeInvalidAtIndex *)
      else
        let cur' := cur ++ [c] in
        match rest' with
        | [] => [cur']                                       (* i+1 == len(runes) *)
        | d :: _ =>
          if d =? underscore then cur' :: seg true [] rest'
          else if lowerish c && negb (lowerish d) then cur' :: seg false [] rest'
          else seg false cur' rest'
        end
    end.

  Definition upper_first (w : str) : str := match w with [] => [] | c :: r => to_upper c :: r end.
  Definition lower_first (w : str) : str := match w with [] => [] | c :: r => to_lower c :: r end.
  (* strings.ToLower(word) == word *)
  Definition lower_inv (w : str) : bool := str_eqb (map to_lower w) w.

  (* what the loop body does to the word runes[w:i]; [first] is w == 0 *)
  Definition emit (first fu acr : bool) (word : str) : str :=
    let u := map to_upper word in
    let w1 :=
      if is_initialism u then
        (if fu && acr then u
         else if fu && negb acr then upper_first (map to_lower u)
         else if negb first && negb acr then upper_first (map to_lower u)
         else if first then map to_lower u
         else u)
      else if negb first && lower_inv word then upper_first word
      else if first && lower_inv word && fu then upper_first word
      else word in
    if first && negb fu then lower_first w1 else w1.

  Definition join_words (fu acr : bool) (ws : list str) : str :=
    match ws with
    | [] => []
    | w :: r => emit true fu acr w ++ concat (map (emit false fu acr) r)
    end.

  Definition camel_case (name : str) (fu acr : bool) : str :=
    join_words fu acr (seg false [] (rti name)).

  (* idx := strings.Index(str, ":"); if idx > 0 { str = str[:idx] } *)
  Fixpoint until_sep (s : str) : str :=
    match s with
    | [] => []
    | c :: r => if c =? sep_rune then [] else c :: until_sep r
    end.
  Definition cut_sep (s : str) : str :=
    match s with
    | [] => []
    | c :: _ => if c =? sep_rune then s else until_sep s
    end.

  Definition goify (s : str) (fu : bool) : str :=
    match s with
    | [] => []
    | _ => match camel_case (cut_sep s) fu true with
           | [] => if fu then fallback_upper else fallback_lower
           | w => fix_reserved w
           end
    end.

  (* Go identifier grammar: letter { letter | unicode_digit }, letter = unicode_letter | "_" *)
  Definition go_letter (c : rune) : bool := is_letter c || (c =? underscore).
  Definition go_ident (s : str) : bool :=
    match s with
    | [] => false
    | c :: r => go_letter c && forallb (fun x => go_letter x || is_digit x) r
    end.
  Definition exported (s : str) : bool := match s with [] => false | c :: _ => is_upper c end.

  (* the first rune CamelCase keeps *)
  Definition first_valid (s : str) : option rune := find valid s.
End Classes.

(* What the theorems ask of a classification (all hold of Go's unicode tables: the
   harness checks them over every code point on every run). *)
Definition class_laws (is_letter is_digit : rune -> bool) (to_upper to_lower : rune -> rune) : Prop :=
  (forall c, is_letter c = true -> is_letter (to_upper c) = true) /\
  (forall c, is_letter c = true -> is_letter (to_lower c) = true) /\
  (forall c, is_digit c = true -> to_upper c = c) /\
  (forall c, is_digit c = true -> to_lower c = c) /\
  (forall c, (65 <=? c) && (c <=? 90) || (97 <=? c) && (c <=? 122) = true -> is_letter c = true).

Definition case_laws (is_letter is_lower is_upper : rune -> bool) (to_upper to_lower : rune -> rune) : Prop :=
  (forall c, is_upper c = true -> to_upper c = c) /\
  (forall c, is_lower c = true -> to_lower c = c) /\
  (forall c, is_lower c = true -> is_letter c = true).

(* a cased letter: upper case, or lower case with an upper-case counterpart *)
Definition cased (is_lower is_upper : rune -> bool) (to_upper : rune -> rune) (c : rune) : bool :=
  is_upper c || (is_lower c && is_upper (to_upper c)).

(* ---- NameScope ---- *)

Definition amap (V : Type) := list (str * V).

Fixpoint lookup {V} (k : str) (m : amap V) : option V :=
  match m with
  | [] => None
  | (k', v) :: r => if str_eqb k k' then Some v else lookup k r
  end.

Record scope := { names : amap str; counts : amap N }.
Definition empty_scope : scope := {| names := []; counts := [] |}.

(* s.counts[k]++ *)
Definition incr (k : str) (m : amap N) : amap N :=
  (k, match lookup k m with Some c => c + 1 | None => 1 end) :: m.

Fixpoint uint_bytes (d : Decimal.uint) : str :=
  match d with
  | Nil => []
  | D0 d => 48 :: uint_bytes d | D1 d => 49 :: uint_bytes d | D2 d => 50 :: uint_bytes d
  | D3 d => 51 :: uint_bytes d | D4 d => 52 :: uint_bytes d | D5 d => 53 :: uint_bytes d
  | D6 d => 54 :: uint_bytes d | D7 d => 55 :: uint_bytes d | D8 d => 56 :: uint_bytes d
  | D9 d => 57 :: uint_bytes d
  end.
(* strconv.Itoa on a non-negative int *)
Definition itoa (n : N) : str := uint_bytes (N.to_uint n).

(* for i := c; ; i++ { ret := name + strconv.Itoa(i+1); if _, ok := s.counts[ret]; !ok {…} } *)
Fixpoint find_free (base : str) (i : N) (fuel : nat) (cnt : amap N) : option str :=
  match fuel with
  | O => None
  | S f => let ret := base ++ itoa (i + 1) in
           match lookup ret cnt with
           | None => Some ret
           | Some _ => find_free base (i + 1) f cnt
           end
  end.

Definition take (s : scope) (n : str) : str * scope :=
  (n, {| names := names s; counts := incr n (counts s) |}).

Definition unique (s : scope) (name : str) (suffix : option str) : str * scope :=
  match lookup name (counts s) with
  | None => take s name
  | Some c =>
    let name2 := match suffix with Some sf => name ++ sf | None => name end in
    let go c2 := match find_free name2 c2 (S (length (counts s))) (counts s) with
                 | Some ret => take s ret
                 | None => (name2, s)   (* never: Properties.unique_terminates *)
                 end in
    match suffix with
    | None => go c
    | Some _ => match lookup name2 (counts s) with
                | None => take s name2
                | Some c2 => go c2
                end
    end
  end.

Definition hashed_unique (s : scope) (key name : str) (suffix : option str) : str * scope :=
  match lookup key (names s) with
  | Some n => (n, s)
  | None => let (n, s') := unique s name suffix in
            (n, {| names := (key, n) :: names s'; counts := counts s' |})
  end.

Definition scope_name (s : scope) (name : str) : str :=
  match lookup name (counts s) with
  | None => name
  | Some i => name ++ itoa (i + 1)
  end.

Inductive op :=
| OUnique (name : str) (suffix : option str)
| OHashed (key name : str) (suffix : option str)
| OName (name : str).

Definition step (s : scope) (o : op) : str * scope :=
  match o with
  | OUnique n sf => unique s n sf
  | OHashed k n sf => hashed_unique s k n sf
  | OName n => (scope_name s n, s)
  end.

Fixpoint exec (s : scope) (ops : list op) : scope :=
  match ops with
  | [] => s
  | o :: r => exec (snd (step s o)) r
  end.

Fixpoint run (s : scope) (ops : list op) : list str :=
  match ops with
  | [] => []
  | o :: r => let (x, s') := step s o in x :: run s' r
  end.

Definition allocates (o : op) : bool := match o with OName _ => false | _ => true end.
Definition same_key (a b : op) : bool :=
  match a, b with
  | OHashed k1 _ _, OHashed k2 _ _ => str_eqb k1 k2
  | _, _ => false
  end.

(* ---- two concrete classifications (used for the counterexamples and to show
   that the laws above are satisfiable); both agree with Go's unicode tables on
   the code points they mention (checked by the harness). ----
   ASCII, plus: U+65E5 / U+672C (letters without case) and U+00DF (lower-case
   letter whose ToUpper is itself). *)
Definition d_upper (c : rune) : bool := (65 <=? c) && (c <=? 90).
Definition a_lower (c : rune) : bool := (97 <=? c) && (c <=? 122).
Definition d_lower (c : rune) : bool := a_lower c || (c =? 223).
Definition d_letter (c : rune) : bool := d_upper c || a_lower c || (c =? 26085) || (c =? 26412) || (c =? 223).
Definition d_digit (c : rune) : bool := (48 <=? c) && (c <=? 57).
Definition d_to_upper (c : rune) : rune := if a_lower c then c - 32 else c.
Definition d_to_lower (c : rune) : rune := if d_upper c then c + 32 else c.

Definition d_goify := goify d_letter d_digit d_lower d_to_upper d_to_lower.
Definition d_ident := go_ident d_letter d_digit.

(* ---- the names generated Go files must never use for a field, variable or
   type: the keywords and predeclared identifiers of the Go specification
   (transcribed by hand from go.dev/ref/spec, "Keywords" and "Predeclared
   identifiers"), and the unqualified package identifiers the goa templates
   refer to next to user-named variables (the six the isPackage comment gives).
   The translated tables are checked to cover this list. ---- *)
From Coq Require Import Strings.String Strings.Byte.
Definition bytes_of (s : string) : str := map Byte.to_N (list_byte_of_string s).

Definition spec_keywords : list str := map bytes_of
  ["break"; "default"; "func"; "interface"; "select"; "case"; "defer"; "go"; "map"; "struct";
   "chan"; "else"; "goto"; "package"; "switch"; "const"; "fallthrough"; "if"; "range"; "type";
   "continue"; "for"; "import"; "return"; "var"]%string.
Definition spec_predeclared : list str := map bytes_of
  ["any"; "bool"; "byte"; "comparable"; "complex64"; "complex128"; "error"; "float32"; "float64";
   "int"; "int8"; "int16"; "int32"; "int64"; "rune"; "string"; "uint"; "uint8"; "uint16"; "uint32";
   "uint64"; "uintptr"; "true"; "false"; "iota"; "nil";
   "append"; "cap"; "clear"; "close"; "complex"; "copy"; "delete"; "imag"; "len"; "make"; "max";
   "min"; "new"; "panic"; "print"; "println"; "real"; "recover"]%string.
Definition spec_packages : list str := map bytes_of ["fmt"; "http"; "json"; "os"; "url"; "time"]%string.
Definition spec_names : list str := spec_keywords ++ spec_predeclared ++ spec_packages.

(* ---- Go type names (codegen/scope.go GoTypeName / GoFullTypeName with pkg = "", GoTypeRef /
   goTypeRef / isRawStruct; codegen/types.go GoNativeTypeName) over primitives, arrays, maps and
   user types. A user type is seen through what the code uses of it: its Hash(), its Name() and
   whether it is an object (pointer reference) or an alias of a primitive. Inline objects, unions
   and package qualification are not modelled. ---- *)
Inductive prim := PBoolean | PInt | PInt32 | PInt64 | PUInt | PUInt32 | PUInt64 | PFloat32 | PFloat64 | PString | PBytes | PAny.

Definition native_name (p : prim) : str :=
  bytes_of match p with
  | PBoolean => "bool" | PInt => "int" | PInt32 => "int32" | PInt64 => "int64"
  | PUInt => "uint" | PUInt32 => "uint32" | PUInt64 => "uint64"
  | PFloat32 => "float32" | PFloat64 => "float64" | PString => "string" | PBytes => "[]byte" | PAny => "any"
  end%string.

Inductive ty :=
| TPrim (p : prim)
| TArray (e : ty)
| TMap (k e : ty)
| TUser (hash name : str) (obj : bool).

(* goTypeRef: "*" + name unless isRawStruct *)
Definition is_ptr (t : ty) : bool := match t with TUser _ _ true => true | _ => false end.
Definition star (b : bool) (n : str) : str := if b then 42 :: n else n.

Section TypeNames.
  (* Goify(name, true) *)
  Variable g : str -> str.

  Fixpoint go_type_name (s : scope) (t : ty) : str * scope :=
    match t with
    | TPrim p => (native_name p, s)
    | TArray e => let (n, s1) := go_type_name s e in (bytes_of "[]" ++ star (is_ptr e) n, s1)
    | TMap k e =>
      let (nk, s1) := go_type_name s k in
      let (ne, s2) := go_type_name s1 e in
      (bytes_of "map[" ++ star (is_ptr k) nk ++ bytes_of "]" ++ star (is_ptr e) ne, s2)
    | TUser h n _ => hashed_unique s h (g n) (Some [])
    end.

  Definition go_type_ref (s : scope) (t : ty) : str * scope :=
    let (n, s') := go_type_name s t in (star (is_ptr t) n, s').

  (* the HashedUnique calls a type makes, in order *)
  Fixpoint type_ops (t : ty) : list op :=
    match t with
    | TPrim _ => []
    | TArray e => type_ops e
    | TMap k e => type_ops k ++ type_ops e
    | TUser h n _ => [OHashed h (g n) (Some [])]
    end.

  (* a sequence of GoTypeRef (true) / GoTypeName (false) calls on one scope *)
  Fixpoint run_types (s : scope) (calls : list (bool * ty)) : list str :=
    match calls with
    | [] => []
    | (r, t) :: rest =>
      let (x, s') := if r then go_type_ref s t else go_type_name s t in x :: run_types s' rest
    end.

  Definition types_scope (calls : list (bool * ty)) : scope :=
    exec empty_scope (flat_map (fun c => type_ops (snd c)) calls).
End TypeNames.
